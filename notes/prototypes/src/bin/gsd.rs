use std::panic::catch_unwind;
fn try_parse(name: &str, src: &str) {
    let s = src.to_string();
    let r = catch_unwind(move || gsd_parser::parser::parse(std::path::Path::new("x.gsd"), &s).map(|_| ()).map_err(|e| e.to_string().lines().last().unwrap_or("").to_string()));
    match r { Ok(Ok(())) => println!("{name}: parsed"), Ok(Err(e)) => println!("{name}: error value ({e})"), Err(e) => println!("{name}: PANIC {}", e.downcast_ref::<String>().cloned().or_else(|| e.downcast_ref::<&str>().map(|s| s.to_string())).unwrap_or_default()) }
}
fn main() {
    std::panic::set_hook(Box::new(|_| {}));
    try_parse("a unknown data type", "#Profibus_DP\nExtUserPrmData=1 \"x\"\nFloat32 0 0-1\nEndExtUserPrmData\n");
    try_parse("b unknown data ref", "#Profibus_DP\nExt_User_Prm_Data_Ref(0)=7\n");
    try_parse("b2 unknown data ref in module", "#Profibus_DP\nModule=\"m\" 0x00\n1\nExt_User_Prm_Data_Ref(0)=7\nEndModule\n");
    try_parse("c string for number", "#Profibus_DP\nIdent_Number=\"abc\"\n");
    try_parse("c2 list for number", "#Profibus_DP\nIdent_Number=1,2\n");
    try_parse("d string for list", "#Profibus_DP\nUser_Prm_Data=\"abc\"\n");
    try_parse("e number for string", "#Profibus_DP\nVendor_Name=5\n");
    try_parse("f missing index", "#Profibus_DP\nExt_User_Prm_Data_Ref=1\n");
    try_parse("f2 missing index diag bit", "#Profibus_DP\nUnit_Diag_Bit=\"x\"\n");
    try_parse("g family ident for number", "#Profibus_DP\nIdent_Number=0@abc\n");
    // PRM
    let src = "#Profibus_DP\nExtUserPrmData=1 \"B0\"\nBit(0) 1 0-1\nEndExtUserPrmData\nExtUserPrmData=2 \"A12\"\nBitArea(1-2) 0 0-3\nEndExtUserPrmData\nExtUserPrmData=3 \"S16\"\nSigned16 0 -1000-1000\nEndExtUserPrmData\nMax_User_Prm_Data_Len=8\nExt_User_Prm_Data_Const(0)=0x80,0x00,0x00\nExt_User_Prm_Data_Ref(0)=1\nExt_User_Prm_Data_Ref(0)=2\nExt_User_Prm_Data_Ref(1)=3\n";
    let gsd = gsd_parser::parser::parse(std::path::Path::new("x.gsd"), src).unwrap();
    let mut b = gsd_parser::PrmBuilder::new(&gsd.user_prm_data).unwrap();
    println!("new: {:02x?} (expected [81, 00, 00])", b.as_bytes());
    let _ = b.set_prm("B0", 0); println!("B0=0: {:02x?} (expected [80, 00, 00])", b.as_bytes());
    let _ = b.set_prm("B0", 1); let _ = b.set_prm("A12", 3); println!("B0=1,A12=3: {:02x?} (expected [87, 00, 00])", b.as_bytes());
    println!("S16=-2: {:?} bytes {:02x?} (expected Ok, [.., ff, fe])", b.set_prm("S16", -2).map(|_| ()), b.as_bytes());
}
