// Throw-away prototype: C11 oracle — token acceptance / supervision / retry rules, exhaustive over short env action sequences.
#[path = "../sim.rs"]
mod sim;
use profirust::fdl::{DataTelegramHeader, FdlActiveStation, FrameCountBit, FunctionCode, ParametersBuilder, RequestType, Telegram, TelegramTx};
use profirust::time::Instant;
use profirust::Baudrate;
use sim::*;
use std::panic::{catch_unwind, AssertUnwindSafe};

struct FmtLogger;
impl log::Log for FmtLogger {
    fn enabled(&self, _: &log::Metadata) -> bool { true }
    fn log(&self, record: &log::Record) { let _ = format!("{}", record.args()); }
    fn flush(&self) {}
}
static LOGGER: FmtLogger = FmtLogger;

const TS: u8 = 5;
const P: u8 = 6;
const X: u8 = 2;
const SLOT_BITS: i64 = 300;

#[derive(Clone, Copy, Debug, PartialEq)]
enum Act { Tok(u8, u8), StatReq(u8), StatResp(u8), Sc, Quiet(i64) } // Quiet in bits

fn enc(h: DataTelegramHeader) -> Vec<u8> { let mut b = vec![0u8; 32]; let n = TelegramTx::new(&mut b).send_data_telegram(h, 0, |_| ()).bytes_sent(); b.truncate(n); b }
fn bytes(a: Act) -> Vec<u8> {
    match a {
        Act::Tok(sa, da) => vec![0xDC, da, sa],
        Act::StatReq(sa) => enc(DataTelegramHeader { da: TS, sa, dsap: None, ssap: None, fc: FunctionCode::Request { fcb: FrameCountBit::Inactive, req: RequestType::FdlStatus } }),
        Act::StatResp(sa) => enc(DataTelegramHeader { da: TS, sa, dsap: None, ssap: None, fc: FunctionCode::from_byte(0x20).unwrap() }),
        Act::Sc => vec![0xE5],
        Act::Quiet(_) => vec![],
    }
}

struct World { bus: Bus, f: FdlActiveStation, phy: SimPhy, now: i64, handled: usize }
impl World {
    fn bit_us(b: i64) -> i64 { b * 1_000_000 / 1_500_000 + 1 }
    fn new() -> Self {
        let bus = Bus::new(1_500_000, 2);
        let mut f = FdlActiveStation::new(ParametersBuilder::new(TS, Baudrate::B1500000).highest_station_address(8).slot_bits(SLOT_BITS as u16).gap_wait_rotations(100).build());
        f.set_online();
        let phy = bus.phy(0);
        World { bus, f, phy, now: 0, handled: 0 }
    }
    fn step(&mut self, us: i64) { let end = self.now + us; while self.now < end { self.now += 5; self.f.poll(Instant::from_micros(self.now), &mut self.phy, &mut ()); } }
    fn last_end_us(&self) -> i64 { self.bus.0.borrow().trace.last().map(|t| (t.end_ns / 1000) as i64 + 1).unwrap_or(0) }
    fn wait_idle(&mut self, bits: i64) { loop { let e = self.last_end_us(); if self.now >= e + Self::bit_us(bits) { break; } self.step(5); } }
    fn inject(&mut self, data: &[u8]) { self.wait_idle(40); self.bus.inject(1, self.now, data); let e = self.last_end_us(); let d = e - self.now; self.step(d); }
    fn ts_sent_since(&self, idx: usize) -> Vec<Vec<u8>> { self.bus.0.borrow().trace[idx..].iter().filter(|t| t.sender == 0).map(|t| t.bytes.clone()).collect() }
    fn trace_len(&self) -> usize { self.bus.0.borrow().trace.len() }
    // bring TS into a two-station ring with partner P, idle
    fn to_ring_idle(&mut self) {
        // wait for claim + gap scan, answer poll of P
        loop {
            self.step(5);
            let b = self.bus.0.borrow();
            let last = b.trace.last().cloned();
            drop(b);
            if let Some(t) = last { if t.sender == 0 && (t.end_ns / 1000) as i64 + 8 <= self.now {
                if t.bytes.len() == 6 && t.bytes[1] == P && t.bytes[0] == 0x10 { let r = enc(DataTelegramHeader { da: TS, sa: P, dsap: None, ssap: None, fc: FunctionCode::from_byte(0x20).unwrap() }); self.bus.inject(1, self.now, &r); }
                if t.bytes == vec![0xDC, P, TS] { break; }
            } }
            assert!(self.now < 100_000_000);
        }
        // partner uses token and returns it; then again leaves TS idle
        let heard = enc(DataTelegramHeader { da: 7, sa: P, dsap: None, ssap: None, fc: FunctionCode::Request { fcb: FrameCountBit::Inactive, req: RequestType::FdlStatus } });
        self.inject(&heard);
    }
}

fn main() {
    log::set_logger(&LOGGER).unwrap();
    log::set_max_level(log::LevelFilter::Trace);
    std::panic::set_hook(Box::new(|_| {}));
    if std::env::var("SUPERVISE").is_ok() {
        // after TS's own pass: silence => exactly two repetitions > Tslot apart, then NS removed; heard => no repetition
        for heard_after in [None, Some(0usize), Some(1), Some(2)] {
            let mut w = World::new();
            w.to_ring_idle();
            w.step(World::bit_us(60));
            w.inject(&bytes(Act::Tok(P, TS)));
            let idx = w.trace_len();
            let mut passes: Vec<i64> = vec![];
            let mut seen = idx;
            let mut heard_done = false;
            let t_end = w.now + World::bit_us(SLOT_BITS * 8);
            while w.now < t_end {
                w.step(5);
                let new: Vec<(usize, i64, Vec<u8>, i64)> = { let b = w.bus.0.borrow(); b.trace[seen..].iter().enumerate().map(|(i, t)| (seen + i, t.start_us, t.bytes.clone(), (t.end_ns / 1000) as i64)).filter(|x| true && x.2[0] == 0xDC).collect() };
                seen = w.trace_len();
                for (_, start, bytes_, end) in new { if bytes_ == vec![0xDC, P, TS] { passes.push(start); if Some(passes.len() - 1) == heard_after && !heard_done { heard_done = true; while w.now < end + World::bit_us(40) { w.step(5); } let hb = enc(DataTelegramHeader { da: 7, sa: P, dsap: None, ssap: None, fc: FunctionCode::Request { fcb: FrameCountBit::Inactive, req: RequestType::FdlStatus } }); w.bus.inject(1, w.now, &hb); } } }
            }
            let las: Vec<u8> = w.f.inspect_token_ring().iter_active_stations().collect();
            let gaps: Vec<i64> = passes.windows(2).map(|p| (p[1] - p[0]) * 1_500_000 / 1_000_000).collect();
            println!("heard_after={:?}: passes to NS={} gaps(bits)={:?} LAS afterwards={:?}", heard_after, passes.len(), gaps, las);
            match heard_after {
                None => { assert_eq!(passes.len(), 3, "three attempts"); assert!(gaps.iter().all(|g| *g > SLOT_BITS), "retries more than a slot apart"); assert!(!las.contains(&P), "silent successor removed"); }
                Some(k) => { assert_eq!(passes.len(), k + 1, "no repetition after successor was heard"); assert!(las.contains(&P), "heard successor kept"); }
            }
        }
        println!("supervision rules ok");
        return;
    }
    let depth: usize = std::env::args().nth(1).map(|s| s.parse().unwrap()).unwrap_or(3);
    let alphabet = vec![Act::Tok(P, TS), Act::Tok(X, TS), Act::Tok(3, TS), Act::Tok(P, X), Act::Tok(X, P), Act::Tok(200, TS), Act::Tok(TS, P), Act::StatReq(P), Act::StatReq(X), Act::StatResp(X), Act::Sc, Act::Quiet(SLOT_BITS / 2), Act::Quiet(SLOT_BITS * 3 / 2), Act::Quiet(SLOT_BITS * (6 + 2 * TS as i64 + 2))];
    let mut seqs: Vec<Vec<usize>> = vec![vec![]];
    for _ in 0..depth { let mut n = vec![]; for s in &seqs { for a in 0..alphabet.len() { let mut t = s.clone(); t.push(a); n.push(t); } } seqs = n; }
    let mut fails: std::collections::BTreeMap<String, (u32, String)> = Default::default();
    let (mut total, mut accepts, mut rejects, mut retries) = (0u64, 0u64, 0u64, 0u64);
    for start in 0..2 {
        for s in &seqs {
            total += 1;
            let acts: Vec<Act> = s.iter().map(|i| alphabet[*i]).collect();
            let r = catch_unwind(AssertUnwindSafe(|| -> Result<(u64, u64, u64), String> {
                let mut w = World::new();
                let (mut acc, mut rej, mut ret) = (0, 0, 0);
                if start == 0 { w.to_ring_idle(); w.step(World::bit_us(60)); } else { w.step(50); }
                let mut pending_offer: Option<u8> = None;
                let mut offered: Vec<u8> = vec![]; // strangers that offered since TS last acted as owner
                let mut prev_offer: Option<u8> = None; // stranger of the immediately preceding env action, if it was a rejected offer
                for (k, a) in acts.iter().enumerate() {
                    let online0 = w.f.connectivity_state().is_online();
                    let in_ring = w.f.is_in_ring();
                    let ps = w.f.inspect_token_ring().previous_station();
                    let ns = w.f.inspect_token_ring().next_station();
                    let las: Vec<u8> = w.f.inspect_token_ring().iter_active_stations().collect();
                    let dbg0 = format!("{:?}", w.f);
                    let holding = dbg0.contains("state: UseToken") || dbg0.contains("state: PassToken") || dbg0.contains("state: ClaimToken") || dbg0.contains("state: Await");
                    let checking = dbg0.contains("state: CheckTokenPass");
                    let idx = w.trace_len();
                    match a {
                        Act::Quiet(bits) => { w.wait_idle(1); w.step(World::bit_us(*bits)); }
                        _ => { w.inject(&bytes(*a)); w.step(World::bit_us(SLOT_BITS)); }
                    }
                    let sent = w.ts_sent_since(idx);
                    let initiated: Vec<&Vec<u8>> = sent.iter().filter(|b| b[0] == 0xDC || (b[0] == 0x10 && b[3] & 0x40 != 0)).collect();
                    let replies: Vec<&Vec<u8>> = sent.iter().filter(|b| b[0] == 0x10 && b[3] & 0x40 == 0).collect();
                    let ctx = format!("step {k} {:?} in_ring={in_ring} ps={ps} ns={ns} las={las:?} holding={holding} checking={checking} sent={:02x?} seq={:?} start={start}", a, sent, acts);
                    let online = online0;
                    // replies only to status requests addressed to TS
                    if !replies.is_empty() && !matches!(a, Act::StatReq(_)) { return Err(format!("unsolicited reply: {ctx}")); }
                    if !online { if !sent.is_empty() { return Err(format!("offline station transmitted: {ctx}")); } continue; }
                    if let Act::StatReq(sa) = a { if !holding && !checking && w.f.connectivity_state().is_online() { if replies.len() != 1 || replies[0][1] != *sa { return Err(format!("status request not answered once: {ctx}")); } } }
                    if holding { if !initiated.is_empty() { pending_offer = None; prev_offer = None; } continue; } // TS is token owner: other rules
                    match a {
                        Act::Tok(sa, da) if *da == TS && in_ring => {
                            let justified = *sa == ps || offered.contains(sa);
                            let collision = *sa == TS;
                            if !initiated.is_empty() {
                                if !justified || collision { return Err(format!("token accepted without right: {ctx}")); }
                                acc += 1; offered.clear(); prev_offer = None;
                            } else {
                                if *sa == ps && !collision { return Err(format!("token from predecessor not accepted: {ctx}")); }
                                if prev_offer == Some(*sa) && *sa <= 125 && !collision && !checking { return Err(format!("second consecutive offer not accepted: {ctx}")); }
                                rej += 1; offered.push(*sa); prev_offer = Some(*sa);
                            }
                        }
                        Act::Tok(_, da) if *da == TS && !in_ring => { prev_offer = None; if !initiated.is_empty() { return Err(format!("listening station used a token: {ctx}")); } }
                        Act::Quiet(bits) if *bits > SLOT_BITS || checking => { prev_offer = None; if !initiated.is_empty() { offered.clear(); } /* retry or claim allowed */ }
                        _ => { prev_offer = None; if !initiated.is_empty() && !checking { return Err(format!("initiated telegram without token: {ctx}")); } if !initiated.is_empty() { offered.clear(); } }
                    }
                    let _ = pending_offer;
                    let _ = &mut ret;
                }
                Ok((acc, rej, ret))
            }));
            let msg = match r { Ok(Ok((a, b, c))) => { accepts += a; rejects += b; retries += c; continue; } Ok(Err(e)) => e, Err(e) => format!("PANIC {}", e.downcast_ref::<String>().cloned().or_else(|| e.downcast_ref::<&str>().map(|s| s.to_string())).unwrap_or_default()) };
            let key: String = msg.split(':').next().unwrap().to_string();
            let e = fails.entry(key).or_insert((0, msg.clone()));
            e.0 += 1;
        }
    }
    for (_, (n, ex)) in &fails { println!("{n:6}  {}", ex.chars().take(900).collect::<String>()); }
    println!("sequences={total} accepts={accepts} rejected_first_offers={rejects} failing classes={}", fails.len());
}
