// Throw-away prototype: C16 oracle — receive helpers reassemble telegrams independent of chunking.
#[path = "../sim.rs"]
mod sim;
use profirust::fdl::{DataTelegramHeader, FunctionCode, Telegram, TelegramTx};
use profirust::phy::{ProfibusPhy, SimulatorPhy};
use profirust::time::{Duration, Instant};
use profirust::Baudrate;
use sim::*;

fn gen_telegram(rng: &mut Rng) -> Vec<u8> {
    let mut b = vec![0u8; 300];
    let n = match rng.below(5) {
        0 => TelegramTx::new(&mut b).send_short_confirmation().bytes_sent(),
        1 => TelegramTx::new(&mut b).send_token_telegram(rng.below(127) as u8, rng.below(127) as u8).bytes_sent(),
        _ => {
            let len = match rng.below(4) { 0 => 0, 1 => 8, 2 => rng.below(20) as usize, _ => rng.below(245) as usize };
            let dsap = if rng.below(2) == 0 { Some(rng.next() as u8) } else { None };
            let ssap = if rng.below(2) == 0 { Some(rng.next() as u8) } else { None };
            let len = len.min(246 - dsap.is_some() as usize - ssap.is_some() as usize);
            let fcs = [0x08u8, 0x6c, 0x7d, 0x49, 0x03, 0x5c];
            let seed = rng.next();
            TelegramTx::new(&mut b).send_data_telegram(DataTelegramHeader { da: rng.below(127) as u8, sa: rng.below(127) as u8, dsap, ssap, fc: FunctionCode::from_byte(fcs[rng.below(6) as usize]).unwrap() }, len, |p| { let mut s = seed; for x in p.iter_mut() { s = s.wrapping_mul(6364136223846793005).wrapping_add(1); *x = (s >> 40) as u8; } }).bytes_sent()
        }
    };
    b.truncate(n);
    b
}

fn canon(t: &Telegram) -> Vec<u8> {
    // re-encode through Debug is enough for equality in the prototype
    format!("{:?}", t).into_bytes()
}

fn main() {
    let cases: u64 = std::env::args().nth(1).map(|s| s.parse().unwrap()).unwrap_or(20000);
    let mut rng = Rng(99);
    let mut fails = 0;
    let mut split_telegrams = 0u64;
    for c in 0..cases {
        let baud = Baudrate::B500000;
        let k = 1 + rng.below(6) as usize;
        let tels: Vec<Vec<u8>> = (0..k).map(|_| gen_telegram(&mut rng)).collect();
        let expect: Vec<Vec<u8>> = tels.iter().map(|t| canon(&Telegram::deserialize(t).unwrap().unwrap().0)).collect();
        let use_all = rng.below(2) == 0;
        // --- SimPhy (harness)
        let bus = Bus::new(baud.to_rate(), 2);
        let mut phy = bus.phy(0);
        let mut t = 0i64;
        let mut ends = vec![];
        for tel in &tels {
            bus.inject(1, t, tel);
            let dur = (tel.len() as i64) * 22 + 1;
            ends.push(t + dur);
            // gap: either back-to-back (1 byte time) or long
            t += dur + if rng.below(2) == 0 { 0 } else { 66 + rng.below(500) as i64 };
        }
        let t_end = t + 1000;
        let mut got: Vec<Vec<u8>> = vec![];
        let mut now = 0i64;
        let mut err = None;
        while now < t_end {
            now += 1 + rng.below(300) as i64;
            let before = phy.poll_pending_received_bytes(Instant::from_micros(now));
            if use_all {
                let mut local = vec![];
                let mut last_flags = vec![];
                let r = phy.receive_all_telegrams(Instant::from_micros(now), |tel, is_last| { local.push(canon(&tel)); last_flags.push(is_last); local.len() });
                let after = phy.poll_pending_received_bytes(Instant::from_micros(now));
                // is_last only on the final callback, and iff nothing buffered behind it
                for (i, f) in last_flags.iter().enumerate() { if *f && i + 1 != last_flags.len() { err = Some("is_last on a non-final telegram".to_string()); } }
                if let Some(f) = last_flags.last() { if *f != (after == 0) { err = Some(format!("is_last={f} but {after} bytes buffered behind")); } if *f && r != Some(local.len()) { err = Some("return value not from last call".into()); } if !*f && r.is_some() { err = Some("return value although no is_last".into()); } }
                if last_flags.is_empty() && after != before { err = Some(format!("bytes dropped without telegram: {before} -> {after}")); }
                if !last_flags.is_empty() && after > 0 { split_telegrams += 1; }
                got.extend(local);
            } else {
                let r = phy.receive_telegram(Instant::from_micros(now), |tel| canon(&tel));
                let after = phy.poll_pending_received_bytes(Instant::from_micros(now));
                match r { Some(x) => got.push(x), None => if after != before { err = Some(format!("bytes dropped without telegram: {before} -> {after}")); } }
            }
        }
        if got != expect { err = Some(format!("got {} telegrams, expected {}", got.len(), expect.len())); }
        // --- SimulatorPhy (crate)
        let mut ctl = SimulatorPhy::new(baud, "ctl");
        let mut rx = ctl.duplicate("rx");
        let mut got2: Vec<Vec<u8>> = vec![];
        let mut now = Instant::ZERO;
        for tel in &tels {
            // leave 40 bit times before each transmission as the simulator demands
            now += Duration::from_micros(90 + (tel.len() as u64) * 0);
            ctl.set_bus_time(now);
            ctl.transmit_data(now, |b| { b[..tel.len()].copy_from_slice(tel); (tel.len(), ()) });
            let end = now + Duration::from_micros(tel.len() as u64 * 22 + 1);
            while now < end {
                now += Duration::from_micros(1 + rng.below(120));
                ctl.set_bus_time(now);
                if use_all { rx.receive_all_telegrams(now, |t, _| got2.push(canon(&t))); } else if let Some(x) = rx.receive_telegram(now, |t| canon(&t)) { got2.push(x); }
            }
        }
        if got2 != expect { err = Some(format!("SimulatorPhy: got {} telegrams, expected {}", got2.len(), expect.len())); }
        if let Some(e) = err { fails += 1; if fails < 6 { println!("case {c}: {e} (use_all={use_all}, lens {:?})", tels.iter().map(|t| t.len()).collect::<Vec<_>>()); } }
    }
    println!("cases={cases} fails={fails} polls_with_partial_behind={split_telegrams}");
}
