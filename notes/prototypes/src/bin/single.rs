#[path = "../sim.rs"]
mod sim;
use profirust::fdl::{FdlActiveStation, ParametersBuilder, TelegramTx};
use profirust::time::Instant;
use profirust::{dp, Baudrate};
use sim::*;
use std::panic::{catch_unwind, AssertUnwindSafe};

struct FmtLogger;
impl log::Log for FmtLogger {
    fn enabled(&self, _: &log::Metadata) -> bool { true }
    fn log(&self, record: &log::Record) { let _ = format!("{}", record.args()); }
    fn flush(&self) {}
}
static LOGGER: FmtLogger = FmtLogger;

fn tok(da: u8, sa: u8) -> Vec<u8> { vec![0xDC, da, sa] }
fn status_resp(da: u8, sa: u8, fc: u8) -> Vec<u8> { let mut b = vec![0u8; 16]; let n = TelegramTx::new(&mut b).send_data_telegram(profirust::fdl::DataTelegramHeader{da, sa, dsap: None, ssap: None, fc: profirust::fdl::FunctionCode::from_byte(fc).unwrap()}, 0, |_|()).bytes_sent(); b.truncate(n); b }

fn report(name: &str, r: std::thread::Result<()>) {
    match r { Ok(()) => println!("{name}: ok"), Err(e) => println!("{name}: PANIC {}", e.downcast_ref::<String>().cloned().or_else(|| e.downcast_ref::<&str>().map(|s| s.to_string())).unwrap_or_default()) }
}

fn mk(addr: u8, hsa: u8) -> (Bus, FdlActiveStation, SimPhy) {
    let bus = Bus::new(19200, 2);
    let mut f = FdlActiveStation::new(ParametersBuilder::new(addr, Baudrate::B19200).highest_station_address(hsa).slot_bits(300).build());
    f.set_online();
    let phy = bus.phy(0);
    (bus, f, phy)
}

fn main() {
    log::set_logger(&LOGGER).unwrap();
    log::set_max_level(log::LevelFilter::Trace);
    std::panic::set_hook(Box::new(|_| {}));

    // F2: SC right after a token pass
    report("F2 short confirmation after token pass", catch_unwind(AssertUnwindSafe(|| {
        let (bus, mut f, mut phy) = mk(7, 16);
        let mut now = 0i64;
        let mut sent = false;
        let mut handled = 0usize;
        // let station claim token; respond to GAP poll of 9 as ready master so 7 passes to 9
        while now < 3_000_000 {
            f.poll(Instant::from_micros(now), &mut phy, &mut ());
            let last = bus.0.borrow().trace.last().cloned();
            if let Some(t) = last {
                let end_us = (t.end_ns / 1000) as i64 + 600; // > 11 bit
                let idx = bus.0.borrow().trace.len();
                if t.sender == 0 && now >= end_us && idx != handled {
                    handled = idx;
                    if t.bytes.len() == 6 && t.bytes[1] == 9 { bus.inject(1, now, &status_resp(7, 9, 0x20)); handled += 1; }
                    if t.bytes == tok(9, 7) && !sent { bus.inject(1, now, &[0xE5]); sent = true; handled += 1; }
                }
            }
            now += 100;
        }
        assert!(sent, "never saw the token pass");
    })));

    // F3: foreign telegram during post-claim GAP scan
    report("F3 foreign telegram during post-claim GAP scan", catch_unwind(AssertUnwindSafe(|| {
        let (bus, mut f, mut phy) = mk(7, 16);
        let mut now = 0i64;
        let mut sent = false;
        while now < 3_000_000 {
            f.poll(Instant::from_micros(now), &mut phy, &mut ());
            let last = bus.0.borrow().trace.last().cloned();
            if let Some(t) = last {
                let end_us = (t.end_ns / 1000) as i64 + 600;
                if t.sender == 0 && now >= end_us && t.bytes.len() == 6 && !sent { bus.inject(1, now, &tok(3, 12)); sent = true; }
            }
            now += 100;
        }
        assert!(sent);
    })));

    // F4: empty DP master in Operate
    report("F4 empty DP master (5s watchdog)", catch_unwind(AssertUnwindSafe(|| {
        let (tx, rx) = std::sync::mpsc::channel();
        std::thread::spawn(move || {
            let bus = Bus::new(19200, 2);
            let mut f = FdlActiveStation::new(ParametersBuilder::new(7, Baudrate::B19200).highest_station_address(16).slot_bits(300).build());
            f.set_online();
            let mut phy = bus.phy(0);
            let mut m = dp::DpMaster::new(vec![]);
            m.enter_operate();
            let mut now = 0i64;
            while now < 3_000_000 { f.poll(Instant::from_micros(now), &mut phy, &mut m); now += 100; }
            let _ = tx.send(());
        });
        if rx.recv_timeout(std::time::Duration::from_secs(5)).is_err() { panic!("HANG: poll() did not return within 5 s"); }
    })));
}
