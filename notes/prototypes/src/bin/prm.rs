// Throw-away prototype: C20 dual-model oracle for PrmBuilder.
use gsd_parser::{PrmBuilder, PrmValueConstraint, UserPrmData, UserPrmDataDefinition, UserPrmDataType as T};
use std::sync::Arc;

struct Rng(u64);
impl Rng {
    fn next(&mut self) -> u64 { self.0 = self.0.wrapping_add(0x9E3779B97F4A7C15); let mut z = self.0; z = (z ^ (z >> 30)).wrapping_mul(0xBF58476D1CE4E5B9); z = (z ^ (z >> 27)).wrapping_mul(0x94D049BB133111EB); z ^ (z >> 31) }
    fn below(&mut self, n: u64) -> u64 { self.next() % n }
    fn range(&mut self, lo: i64, hi: i64) -> i64 { lo + (self.next() % ((hi - lo + 1) as u64)) as i64 }
}

fn type_range(t: T) -> (i64, i64) {
    match t {
        T::Unsigned8 => (0, 255), T::Unsigned16 => (0, 65535), T::Unsigned32 => (0, u32::MAX as i64),
        T::Signed8 => (-128, 127), T::Signed16 => (-32768, 32767), T::Signed32 => (i32::MIN as i64, i32::MAX as i64),
        T::Bit(_) => (0, 1), T::BitArea(f, l) => (0, (1i64 << (l - f + 1)) - 1),
    }
}

// correct model write; clobber=true reproduces the known BitArea defect
fn write(block: &mut [u8], off: usize, t: T, v: i64, clobber: bool) {
    match t {
        T::Unsigned8 | T::Signed8 => block[off] = v as u8,
        T::Unsigned16 | T::Signed16 => block[off..off + 2].copy_from_slice(&(v as u16).to_be_bytes()),
        T::Unsigned32 | T::Signed32 => block[off..off + 4].copy_from_slice(&(v as u32).to_be_bytes()),
        T::Bit(b) => block[off] = (block[off] & !(1 << b)) | ((v as u8) << b),
        T::BitArea(f, l) => {
            let mask = ((((1u16 << (l - f + 1)) - 1) as u8) << f) as u8;
            if clobber { block[off] = (v as u8) << f; } else { block[off] = (block[off] & !mask) | ((v as u8) << f); }
        }
    }
}

fn main() {
    let cases: u64 = std::env::args().nth(1).map(|s| s.parse().unwrap()).unwrap_or(20000);
    let mut rng = Rng(42);
    let (mut ok, mut known, mut other, mut shared_cases) = (0u64, 0u64, 0u64, 0u64);
    let mut first_other: Option<String> = None;
    for _ in 0..cases {
        let blen = 1 + rng.below(8) as usize;
        let nprm = 1 + rng.below(6) as usize;
        let mut desc = UserPrmData::default();
        // constants underneath
        let consts: Vec<u8> = (0..blen).map(|_| if rng.below(3) == 0 { rng.next() as u8 } else { 0 }).collect();
        desc.data_const.push((0, consts.clone()));
        let mut used_bytes = vec![false; blen]; // for byte-level types
        let mut used_bits = vec![0u8; blen];
        let mut defs = vec![];
        for i in 0..nprm {
            let t = match rng.below(8) { 0 => T::Unsigned8, 1 => T::Unsigned16, 2 => T::Unsigned32, 3 => T::Signed8, 4 => T::Signed16, 5 => T::Signed32, 6 => T::Bit(rng.below(8) as u8), _ => { let f = rng.below(8) as u8; let l = f + rng.below((8 - f) as u64) as u8; T::BitArea(f, l) } };
            let size = t.size();
            if size > blen { continue; }
            let off = rng.below((blen - size + 1) as u64) as usize;
            // avoid overlapping byte-level fields; bit fields may share a byte but not bits
            let bits: u8 = match t { T::Bit(b) => 1 << b, T::BitArea(f, l) => ((((1u16 << (l - f + 1)) - 1) as u8) << f) as u8, _ => 0xff };
            if (off..off + size).any(|j| used_bytes[j] || used_bits[j] & bits != 0) { continue; }
            if bits == 0xff { for j in off..off + size { used_bytes[j] = true; used_bits[j] = 0xff; } } else { used_bits[off] |= bits; }
            let (lo, hi) = type_range(t);
            let (clo, chi) = { let a = rng.range(lo, hi); let b = rng.range(lo, hi); (a.min(b), a.max(b)) };
            let constraint = match rng.below(3) { 0 => PrmValueConstraint::Unconstrained, 1 => PrmValueConstraint::MinMax(clo, chi), _ => PrmValueConstraint::Enum(vec![clo, chi]) };
            let default = match &constraint { PrmValueConstraint::Unconstrained => rng.range(lo, hi), _ => clo };
            let d = Arc::new(UserPrmDataDefinition { name: format!("p{i}"), data_type: t, default_value: default, constraint, text_ref: None, changeable: true, visible: true });
            desc.data_ref.push((off, d.clone()));
            defs.push((off, d));
        }
        if defs.is_empty() { continue; }
        let shared = (0..blen).any(|j| defs.iter().any(|(o, d)| matches!(d.data_type, T::BitArea(..)) && *o == j) && (consts[j] != 0 || defs.iter().filter(|(o, d)| *o == j && d.data_type.size() == 1).count() > 1));
        if shared { shared_cases += 1; }
        let mut good = consts.clone();
        let mut bad = consts.clone();
        for (off, d) in &defs { write(&mut good, *off, d.data_type, d.default_value, false); write(&mut bad, *off, d.data_type, d.default_value, true); }
        let mut b = match PrmBuilder::new(&desc) { Ok(b) => b, Err(e) => { other += 1; first_other.get_or_insert(format!("new() failed: {e:?} desc={desc:?}")); continue; } };
        let mut verdict = 0; // 0 ok, 1 known, 2 other
        let mut judge = |actual: &[u8], good: &[u8], bad: &[u8], what: &str, first_other: &mut Option<String>| {
            if actual == good { 0 } else if actual == bad { 1 } else { first_other.get_or_insert(format!("{what}: actual {:02x?} good {:02x?} knownbad {:02x?}", actual, good, bad)); 2 }
        };
        verdict = verdict.max(judge(b.as_bytes(), &good, &bad, "after new", &mut first_other));
        for _ in 0..rng.below(8) {
            let (off, d) = &defs[rng.below(defs.len() as u64) as usize];
            let (lo, hi) = type_range(d.data_type);
            let v = match rng.below(5) { 0 => lo - 1, 1 => hi + 1, 2 => lo, 3 => hi, _ => rng.range(lo, hi) };
            let valid = v >= lo && v <= hi && d.constraint.is_valid(v);
            let before = b.as_bytes().to_vec();
            let r = b.set_prm(&d.name, v).map(|_| ());
            if r.is_ok() != valid { verdict = 2; first_other.get_or_insert(format!("set_prm({:?}, {v}) -> {:?} but valid={valid} ({:?} {:?})", d.name, r, d.data_type, d.constraint)); }
            if r.is_ok() { write(&mut good, *off, d.data_type, v, false); write(&mut bad, *off, d.data_type, v, true); }
            else if b.as_bytes() != &before[..] { verdict = 2; first_other.get_or_insert("block changed on error".into()); }
            verdict = verdict.max(judge(b.as_bytes(), &good, &bad, "after set", &mut first_other));
        }
        if b.set_prm("nope", 0).is_ok() { verdict = 2; }
        match verdict { 0 => ok += 1, 1 => known += 1, _ => other += 1 }
    }
    println!("ok={ok} known-clobber={known} other={other} (cases with BitArea sharing a byte: {shared_cases})");
    if let Some(f) = first_other { println!("first other: {f}"); }
}
