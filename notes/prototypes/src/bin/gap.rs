// Throw-away prototype: C12 GAP maintenance oracle for all (TS, NS, HSA) triples, single station vs scripted partner.
#[path = "../sim.rs"]
mod sim;
use profirust::fdl::{DataTelegramHeader, FdlActiveStation, FunctionCode, ParametersBuilder, Telegram, TelegramTx};
use profirust::time::Instant;
use profirust::Baudrate;
use sim::*;
use std::panic::{catch_unwind, AssertUnwindSafe};

struct FmtLogger;
impl log::Log for FmtLogger {
    fn enabled(&self, _: &log::Metadata) -> bool { true }
    fn log(&self, record: &log::Record) { let _ = format!("{}", record.args()); }
    fn flush(&self) {}
}
static LOGGER: FmtLogger = FmtLogger;

fn status_resp(da: u8, sa: u8, fc: u8) -> Vec<u8> {
    let mut b = vec![0u8; 16];
    let n = TelegramTx::new(&mut b).send_data_telegram(DataTelegramHeader { da, sa, dsap: None, ssap: None, fc: FunctionCode::from_byte(fc).unwrap() }, 0, |_| ()).bytes_sent();
    b.truncate(n);
    b
}

fn gap_set(ts: u8, ns: u8, hsa: u8) -> Vec<u8> {
    let mut v = vec![];
    let mut a = ts;
    loop {
        a = if a == hsa - 1 { 0 } else { a + 1 };
        if a == ts || a == ns { break; }
        v.push(a);
    }
    v
}

fn run(ts: u8, ns: u8, hsa: u8, g: u8) -> Result<usize, String> {
    let baud = Baudrate::B1500000;
    let bus = Bus::new(baud.to_rate(), 2);
    let mut f = FdlActiveStation::new(ParametersBuilder::new(ts, baud).highest_station_address(hsa).slot_bits(300).gap_wait_rotations(g).build());
    f.set_online();
    let mut phy = bus.phy(0);
    let bit_us = |b: i64| b * 1_000_000 / 1_500_000 + 1;
    let gap = gap_set(ts, ns, hsa);
    let want_visits = (gap.len() + g as usize + 4) * 3 + 4;
    let mut now = 0i64;
    let mut handled = 0usize;
    let mut pending: Vec<(i64, Vec<u8>)> = vec![];
    // visits: list of polled addresses per token visit (after ring established)
    let mut visits: Vec<Vec<u8>> = vec![];
    let mut cur: Option<Vec<u8>> = None;
    let mut claim_scan: Vec<u8> = vec![];
    let mut established = ns == ts; // alone: visits start after first self-pass
    let mut seen_first_pass = false;
    let t_max = 200_000_000i64;
    while visits.len() < want_visits {
        now += 13;
        if now > t_max { return Err(format!("timeout: only {} visits", visits.len())); }
        pending.retain(|(t, d)| if *t <= now { bus.inject(1, *t, d); false } else { true });
        f.poll(Instant::from_micros(now), &mut phy, &mut ());
        let b = bus.0.borrow();
        while handled < b.trace.len() {
            let t = &b.trace[handled];
            handled += 1;
            if t.sender != 0 { continue; }
            let end = (t.end_ns / 1000) as i64 + 1;
            match Telegram::deserialize(&t.bytes) {
                Some(Ok((Telegram::Data(d), _))) => {
                    if d.is_fdl_status_request().is_some() {
                        if d.h.sa != ts { return Err("bad sa".into()); }
                        if !seen_first_pass { claim_scan.push(d.h.da); } else if let Some(c) = cur.as_mut() { c.push(d.h.da); } else { return Err(format!("status request to {} outside a token visit", d.h.da)); }
                        if d.h.da == ns && ns != ts {
                            pending.push((end + bit_us(12), status_resp(ts, ns, if established { 0x30 } else { 0x20 })));
                        }
                    } else { return Err(format!("unexpected data telegram {:?}", d)); }
                }
                Some(Ok((Telegram::Token(tok), _))) => {
                    if tok.sa != ts { return Err("token with wrong sa".into()); }
                    if tok.da == ts {
                        // claim tokens or self pass
                        if seen_first_pass || claim_scan.len() > 0 || ns == ts && false { }
                        if !seen_first_pass {
                            // the two claim tokens come before the scan; a self-pass after the scan starts visits
                            if !claim_scan.is_empty() || (gap.is_empty()) { seen_first_pass = claim_scan.len() > 0 || b.trace.iter().filter(|x| x.sender == 0 && x.bytes[0] == 0xDC).count() > 2; }
                            if seen_first_pass { cur = Some(vec![]); }
                        } else {
                            if let Some(c) = cur.take() { visits.push(c); }
                            cur = Some(vec![]);
                        }
                    } else if tok.da == ns {
                        established = true;
                        if !seen_first_pass { seen_first_pass = true; } else if let Some(c) = cur.take() { visits.push(c); }
                        // partner holds the token briefly and returns it
                        pending.push((end + bit_us(60), vec![0xDC, ts, ns]));
                        cur = None;
                    } else {
                        return Err(format!("token passed to unexpected station {} (NS should be {})", tok.da, ns));
                    }
                }
                other => return Err(format!("unexpected tx {:?}", other)),
            }
        }
        // token returned by partner => new visit starts when injected token completes
        if cur.is_none() && seen_first_pass && ns != ts {
            if let Some(last) = b.trace.last() { if last.sender == 1 && last.bytes == vec![0xDC, ts, ns] && (last.end_ns / 1000) as i64 <= now { cur = Some(vec![]); } }
        }
    }
    // Oracle
    // 1. claim scan covers whole ring except TS, ascending cyclic from TS+1, possibly cut when NS answered
    for a in &claim_scan { if *a == ts { return Err("claim scan polled itself".into()); } if *a >= hsa { return Err("claim scan beyond HSA".into()); } }
    // 2. steady state
    let mut flat: Vec<Option<u8>> = vec![];
    for v in &visits {
        if v.len() > 1 { return Err(format!("{} GAP polls in one visit: {:?}", v.len(), v)); }
        flat.push(v.first().copied());
    }
    for a in flat.iter().flatten() {
        if !gap.contains(a) { return Err(format!("polled {} which is outside GAP {:?}", a, gap)); }
    }
    // sweeps: consecutive Some(..) runs must equal gap in order (possibly first run partial), pauses between g..g+2
    let mut i = 0;
    let mut sweeps = 0;
    let mut first = true;
    while i < flat.len() {
        if flat[i].is_none() {
            let mut j = i; while j < flat.len() && flat[j].is_none() { j += 1; }
            let pause = j - i;
            if !gap.is_empty() && !first && j < flat.len() && (pause < g as usize || pause > g as usize + 2) { return Err(format!("pause of {} visits with G={} (flat {:?})", pause, g, flat)); }
            if gap.is_empty() { }
            i = j; first = false;
        } else {
            let mut j = i; let mut run = vec![]; while j < flat.len() && flat[j].is_some() { run.push(flat[j].unwrap()); j += 1; }
            let complete = j < flat.len();
            if first { if !gap.ends_with(&run) && complete { return Err(format!("first sweep {:?} is not a suffix of GAP {:?}", run, gap)); } }
            else if complete { if run != gap { return Err(format!("sweep {:?} != GAP {:?}", run, gap)); } sweeps += 1; }
            else if !gap.starts_with(&run) { return Err(format!("partial sweep {:?} not a prefix of GAP {:?}", run, gap)); }
            i = j; first = false;
        }
    }
    if !gap.is_empty() && sweeps < 1 { return Err(format!("no complete sweep in {} visits: {:?}", flat.len(), flat)); }
    if std::env::var("DBG").is_ok() { println!("ts={ts} ns={ns} hsa={hsa} g={g} claim_scan={:?} flat={:?}", claim_scan, flat); }
    Ok(visits.len())
}

fn main() {
    log::set_logger(&LOGGER).unwrap();
    log::set_max_level(log::LevelFilter::Trace);
    std::panic::set_hook(Box::new(|_| {}));
    let max_hsa: u8 = std::env::args().nth(1).map(|s| s.parse().unwrap()).unwrap_or(8);
    let (mut total, mut fails) = (0, 0);
    let mut kinds: std::collections::BTreeMap<String, (u32, String)> = Default::default();
    for hsa in 1..=max_hsa {
        for ts in 0..hsa {
            for ns in 0..hsa {
                for g in [1u8, 3] {
                    total += 1;
                    let r = catch_unwind(AssertUnwindSafe(|| run(ts, ns, hsa, g)));
                    let msg = match r {
                        Ok(Ok(_)) => continue,
                        Ok(Err(e)) => e,
                        Err(e) => format!("PANIC {}", e.downcast_ref::<String>().cloned().or_else(|| e.downcast_ref::<&str>().map(|s| s.to_string())).unwrap_or_default()),
                    };
                    fails += 1;
                    let key: String = msg.chars().filter(|c| !c.is_ascii_digit()).take(60).collect();
                    let e = kinds.entry(key).or_insert((0, format!("ts={ts} ns={ns} hsa={hsa} g={g}: {msg}")));
                    e.0 += 1;
                }
            }
        }
    }
    for (_, (n, ex)) in &kinds { println!("{n:5}  e.g. {ex}"); }
    println!("triples*g={total} fails={fails}");
}
