// Throw-away prototype: C19 round-trip oracle — render a random station description as GSD text, parse, compare.
use gsd_parser::*;
use std::collections::BTreeMap;
use std::sync::Arc;

struct Rng(u64);
impl Rng {
    fn next(&mut self) -> u64 { self.0 = self.0.wrapping_add(0x9E3779B97F4A7C15); let mut z = self.0; z = (z ^ (z >> 30)).wrapping_mul(0xBF58476D1CE4E5B9); z = (z ^ (z >> 27)).wrapping_mul(0x94D049BB133111EB); z ^ (z >> 31) }
    fn below(&mut self, n: u64) -> u64 { self.next() % n }
    fn coin(&mut self) -> bool { self.next() & 1 == 0 }
}

struct Out { s: String, nl: &'static str }
impl Out {
    fn kw(&self, rng: &mut Rng, k: &str) -> String { match rng.below(3) { 0 => k.to_string(), 1 => k.to_uppercase(), _ => k.to_lowercase() } }
    fn num(&self, rng: &mut Rng, v: u64) -> String { if rng.coin() { format!("{v}") } else if rng.coin() { format!("0x{:x}", v) } else { format!("0x{:02X}", v) } }
    fn eq(&self, rng: &mut Rng) -> &'static str { ["=", " = ", "\t=", "=  "][rng.below(4) as usize] }
    fn eol(&mut self, rng: &mut Rng) {
        if rng.below(5) == 0 { self.s.push_str(" ; a comment = \"with stuff\""); }
        self.s.push_str(self.nl);
        if rng.below(6) == 0 { self.s.push_str(self.nl); }
        if rng.below(8) == 0 { self.s.push_str("; full line comment"); self.s.push_str(self.nl); }
    }
    fn set_num(&mut self, rng: &mut Rng, k: &str, v: u64) { let l = format!("{}{}{}", self.kw(rng, k), self.eq(rng), self.num(rng, v)); self.s.push_str(&l); self.eol(rng); }
    fn set_str(&mut self, rng: &mut Rng, k: &str, v: &str) { let l = format!("{}{}\"{}\"", self.kw(rng, k), self.eq(rng), v); self.s.push_str(&l); self.eol(rng); }
    fn list(&self, rng: &mut Rng, v: &[u8]) -> String {
        let mut s = String::new();
        for (i, x) in v.iter().enumerate() {
            if i > 0 { s.push(','); if rng.below(6) == 0 { s.push_str("\\"); s.push_str(self.nl); } else if rng.coin() { s.push(' '); } }
            s.push_str(&self.num(rng, *x as u64));
        }
        s
    }
}

fn text(rng: &mut Rng) -> String {
    let words = ["Alpha", "beta-2", "Gamma;x", "d e l t a", "0x10", "EndModule", "=", "ünï", "#Profibus_DP", ""];
    let n = 1 + rng.below(3);
    (0..n).map(|_| words[rng.below(words.len() as u64) as usize]).collect::<Vec<_>>().join(" ")
}

fn gen(rng: &mut Rng) -> (String, GenericStationDescription) {
    let mut g = GenericStationDescription::default();
    let mut o = Out { s: String::new(), nl: if rng.coin() { "\n" } else { "\r\n" } };
    for _ in 0..rng.below(3) { o.s.push_str("some text before the marker = 5"); o.s.push_str(o.nl); }
    o.s.push_str(if rng.coin() { "#Profibus_DP" } else { "#PROFIBUS_dp" }); o.s.push_str(o.nl);
    if rng.coin() { o.s.push_str(";"); o.s.push_str(o.nl); }
    macro_rules! num { ($k:expr, $f:expr, $max:expr) => { if rng.below(4) != 0 { let v = rng.below($max as u64 + 1); $f = v as _; o.set_num(rng, $k, v); } }; }
    macro_rules! st { ($k:expr, $f:expr) => { if rng.below(4) != 0 { let v = text(rng); $f = v.clone(); o.set_str(rng, $k, &v); } }; }
    macro_rules! bl { ($k:expr, $f:expr) => { if rng.below(3) != 0 { let v = rng.below(2); $f = v != 0; o.set_num(rng, $k, v); } }; }
    num!("GSD_Revision", g.gsd_revision, 255);
    st!("Vendor_Name", g.vendor); st!("Model_Name", g.model); st!("Revision", g.revision);
    num!("Revision_Number", g.revision_number, 255); num!("Ident_Number", g.ident_number, 65535);
    st!("Hardware_Release", g.hardware_release); st!("Software_Release", g.software_release);
    o.set_num(rng, "Protocol_Ident", 0); // ignored key
    bl!("Fail_Safe", g.fail_safe);
    let speeds: [(&str, SupportedSpeeds); 11] = [("9.6_supp", SupportedSpeeds::B9600), ("19.2_supp", SupportedSpeeds::B19200), ("31.25_supp", SupportedSpeeds::B31250), ("45.45_supp", SupportedSpeeds::B45450), ("93.75_supp", SupportedSpeeds::B93750), ("187.5_supp", SupportedSpeeds::B187500), ("500_supp", SupportedSpeeds::B500000), ("1.5M_supp", SupportedSpeeds::B1500000), ("3M_supp", SupportedSpeeds::B3000000), ("6M_supp", SupportedSpeeds::B6000000), ("12M_supp", SupportedSpeeds::B12000000)];
    for (k, f) in speeds { if rng.coin() { let v = rng.below(2); if v != 0 { g.supported_speeds |= f; } o.set_num(rng, k, v); } }
    num!("MaxTsdr_9.6", g.max_tsdr.b9600, 65535); num!("MaxTsdr_19.2", g.max_tsdr.b19200, 65535); num!("MaxTsdr_31.25", g.max_tsdr.b31250, 65535); num!("MaxTsdr_45.45", g.max_tsdr.b45450, 65535);
    num!("MaxTsdr_93.75", g.max_tsdr.b93750, 65535); num!("MaxTsdr_187.5", g.max_tsdr.b187500, 65535); num!("MaxTsdr_500", g.max_tsdr.b500000, 65535); num!("MaxTsdr_1.5M", g.max_tsdr.b1500000, 65535);
    num!("MaxTsdr_3M", g.max_tsdr.b3000000, 65535); num!("MaxTsdr_6M", g.max_tsdr.b6000000, 65535); num!("MaxTsdr_12M", g.max_tsdr.b12000000, 65535);
    st!("Implementation_Type", g.implementation_type);
    bl!("Freeze_Mode_supp", g.freeze_mode_supported); bl!("Sync_Mode_supp", g.sync_mode_supported); bl!("Auto_Baud_supp", g.auto_baud_supported); bl!("Set_Slave_Add_supp", g.set_slave_addr_supported);
    bl!("Modular_Station", g.modular_station);
    let mut max_module_set = false;
    if rng.coin() { let v = rng.below(245); g.max_modules = v as u8; o.set_num(rng, "Max_Module", v); max_module_set = true; }
    num!("Max_Input_Len", g.max_input_length, 255); num!("Max_Output_Len", g.max_output_length, 255); num!("Max_Data_Len", g.max_data_length, 65535); num!("Max_Diag_Data_Len", g.max_diag_data_length, 255);
    // PrmText
    let mut texts: BTreeMap<u16, Arc<BTreeMap<String, i64>>> = BTreeMap::new();
    for id in 1..=rng.below(3) as u16 {
        let l = format!("{}{}{}", o.kw(rng, "PrmText"), o.eq(rng), id); o.s.push_str(&l); o.eol(rng);
        let mut m = BTreeMap::new();
        for v in 0..1 + rng.below(4) as i64 {
            let t = format!("T{} {}", v, text(rng));
            let l = format!("{}({}){}\"{}\"", o.kw(rng, "Text"), v, o.eq(rng), t); o.s.push_str(&l); o.eol(rng);
            m.insert(t, v);
        }
        o.s.push_str(&o.kw(rng, "EndPrmText")); o.eol(rng);
        texts.insert(id, Arc::new(m));
    }
    // ExtUserPrmData
    let mut defs: BTreeMap<u32, Arc<UserPrmDataDefinition>> = BTreeMap::new();
    for id in 1..=rng.below(4) as u32 {
        let name = format!("P{} {}", id, text(rng));
        let (ty, tys) = match rng.below(8) { 0 => (UserPrmDataType::Unsigned8, "Unsigned8".to_string()), 1 => (UserPrmDataType::Unsigned16, "unsigned16".into()), 2 => (UserPrmDataType::Unsigned32, "UNSIGNED32".into()), 3 => (UserPrmDataType::Signed8, "Signed8".into()), 4 => (UserPrmDataType::Signed16, "Signed16".into()), 5 => (UserPrmDataType::Signed32, "Signed32".into()), 6 => { let b = rng.below(8) as u8; (UserPrmDataType::Bit(b), format!("{}({})", o.kw(rng, "Bit"), b)) } _ => { let f = rng.below(8) as u8; let l = f + rng.below(8 - f as u64) as u8; (UserPrmDataType::BitArea(f, l), format!("{}({}-{})", o.kw(rng, "BitArea"), f, l)) } };
        let signed = matches!(ty, UserPrmDataType::Signed8 | UserPrmDataType::Signed16 | UserPrmDataType::Signed32);
        let mut val = |rng: &mut Rng| -> i64 { let v = rng.below(100) as i64; if signed && rng.coin() { -v } else { v } };
        let default = val(rng);
        let (constraint, cs) = match rng.below(3) { 0 => (PrmValueConstraint::Unconstrained, String::new()), 1 => { let a = val(rng); let b = val(rng); (PrmValueConstraint::MinMax(a, b), format!(" {}-{}", a, b)) } _ => { let vs: Vec<i64> = (0..1 + rng.below(4)).map(|_| val(rng)).collect(); (PrmValueConstraint::Enum(vs.clone()), format!(" {}", vs.iter().map(|v| v.to_string()).collect::<Vec<_>>().join(","))) } };
        let l = format!("{}{}{} \"{}\"", o.kw(rng, "ExtUserPrmData"), o.eq(rng), id, name); o.s.push_str(&l); o.eol(rng);
        let l = format!("{} {}{}", tys, default, cs); o.s.push_str(&l); o.eol(rng);
        let mut text_ref = None;
        if !texts.is_empty() && rng.coin() { let tid = 1 + rng.below(texts.len() as u64) as u16; text_ref = Some(texts[&tid].clone()); let l = format!("{}{}{}", o.kw(rng, "Prm_Text_Ref"), o.eq(rng), tid); o.s.push_str(&l); o.eol(rng); }
        let (mut changeable, mut visible) = (true, true);
        if rng.below(3) == 0 { changeable = rng.coin(); let l = format!("{}{}{}", o.kw(rng, "Changeable"), o.eq(rng), changeable as u8); o.s.push_str(&l); o.eol(rng); }
        if rng.below(3) == 0 { visible = rng.coin(); let l = format!("{}{}{}", o.kw(rng, "Visible"), o.eq(rng), visible as u8); o.s.push_str(&l); o.eol(rng); }
        o.s.push_str(&o.kw(rng, "EndExtUserPrmData")); o.eol(rng);
        defs.insert(id, Arc::new(UserPrmDataDefinition { name, data_type: ty, default_value: default, constraint, text_ref, changeable, visible }));
    }
    // user prm: legacy or ext
    if rng.coin() {
        // legacy
        let vals: Vec<u8> = (0..1 + rng.below(6)).map(|_| rng.next() as u8).collect();
        let len = vals.len() as u64 + rng.below(3);
        if rng.coin() { o.set_num(rng, "User_Prm_Data_Len", len); let l = format!("{}{}{}", o.kw(rng, "User_Prm_Data"), o.eq(rng), o.list(rng, &vals)); o.s.push_str(&l); o.eol(rng); }
        else { let l = format!("{}{}{}", o.kw(rng, "User_Prm_Data"), o.eq(rng), o.list(rng, &vals)); o.s.push_str(&l); o.eol(rng); o.set_num(rng, "User_Prm_Data_Len", len); }
        g.user_prm_data = UserPrmData { length: len as u8, data_const: vec![(0, vals)], data_ref: vec![] };
    } else {
        let mut u = UserPrmData::default();
        if rng.coin() { o.set_num(rng, "Max_User_Prm_Data_Len", 20); }
        for _ in 0..rng.below(3) { let off = rng.below(5) as usize; let vals: Vec<u8> = (0..1 + rng.below(4)).map(|_| rng.next() as u8).collect(); let l = format!("{}({}){}{}", o.kw(rng, "Ext_User_Prm_Data_Const"), off, o.eq(rng), o.list(rng, &vals)); o.s.push_str(&l); o.eol(rng); u.data_const.push((off, vals)); }
        if !defs.is_empty() { for _ in 0..rng.below(3) { let off = rng.below(5) as usize; let id = 1 + rng.below(defs.len() as u64) as u32; let l = format!("{}({}){}{}", o.kw(rng, "Ext_User_Prm_Data_Ref"), off, o.eq(rng), id); o.s.push_str(&l); o.eol(rng); u.data_ref.push((off, defs[&id].clone())); } }
        if u.data_const.is_empty() && u.data_ref.is_empty() && !o.s.to_lowercase().contains("max_user_prm_data_len") { o.set_num(rng, "Max_User_Prm_Data_Len", 20); }
        g.user_prm_data = u;
    }
    // unit diag bits
    for _ in 0..rng.below(3) { let bit = rng.below(40) as u32; let t = text(rng); let l = format!("{}({}){}\"{}\"", o.kw(rng, "Unit_Diag_Bit"), bit, o.eq(rng), t); o.s.push_str(&l); o.eol(rng); g.unit_diag.bits.entry(bit).or_default().text = t; }
    // modules
    let nmod = rng.below(4) as u32;
    for r in 1..=nmod {
        let name = format!("M{} {}", r, text(rng));
        let cfg: Vec<u8> = (0..1 + rng.below(4)).map(|_| rng.next() as u8).collect();
        let l = format!("{}{}\"{}\" {}", o.kw(rng, "Module"), o.eq(rng), name, o.list(rng, &cfg)); o.s.push_str(&l); o.eol(rng);
        let mut m = Module { name, config: cfg, ..Default::default() };
        if rng.below(4) != 0 { o.s.push_str(&format!("{}", r)); o.eol(rng); m.reference = Some(r); }
        if rng.coin() { let v = rng.below(8); o.set_num(rng, "Ext_Module_Prm_Data_Len", v); m.module_prm_data.length = v as u8; }
        if rng.coin() { let off = rng.below(4) as usize; let vals: Vec<u8> = (0..1 + rng.below(3)).map(|_| rng.next() as u8).collect(); let l = format!("{}({}){}{}", o.kw(rng, "Ext_User_Prm_Data_Const"), off, o.eq(rng), o.list(rng, &vals)); o.s.push_str(&l); o.eol(rng); m.module_prm_data.data_const.push((off, vals)); }
        if !defs.is_empty() && rng.coin() { let off = rng.below(4) as usize; let id = 1 + rng.below(defs.len() as u64) as u32; let l = format!("{}({}){}{}", o.kw(rng, "Ext_User_Prm_Data_Ref"), off, o.eq(rng), id); o.s.push_str(&l); o.eol(rng); m.module_prm_data.data_ref.push((off, defs[&id].clone())); }
        if rng.coin() { let t = text(rng); o.set_str(rng, "Info_Text", &t); m.info_text = Some(t); }
        o.s.push_str(&o.kw(rng, "EndModule")); o.eol(rng);
        g.available_modules.push(Arc::new(m));
    }
    // slots
    let with_ref: Vec<Arc<Module>> = g.available_modules.iter().filter(|m| m.reference.is_some()).cloned().collect();
    if !with_ref.is_empty() && rng.coin() {
        o.s.push_str(&o.kw(rng, "SlotDefinition")); o.eol(rng);
        for n in 1..=rng.below(3) as u8 {
            let d = with_ref[rng.below(with_ref.len() as u64) as usize].clone();
            let name = format!("S{n}");
            let lo = 1u32; let hi = nmod;
            let l = format!("{}({}){}\"{}\" {} {}-{}", o.kw(rng, "Slot"), n, o.eq(rng), name, d.reference.unwrap(), lo, hi); o.s.push_str(&l); o.eol(rng);
            g.slots.push(Slot { name, number: n, default: d, allowed_modules: with_ref.clone() });
        }
        o.s.push_str(&o.kw(rng, "EndSlotDefinition")); o.eol(rng);
    }
    // normalisations documented by the parser
    if !max_module_set { g.max_modules = 1; }
    if !g.modular_station { g.max_modules = 1; }
    (o.s, g)
}

fn mutate(rng: &mut Rng, src: &str) -> String {
    // grammar-aware-ish token mutations
    let mut toks: Vec<String> = vec![];
    let mut cur = String::new();
    for ch in src.chars() {
        let delim = "=(),\n\r \t\"-".contains(ch);
        if delim { if !cur.is_empty() { toks.push(std::mem::take(&mut cur)); } toks.push(ch.to_string()); } else { cur.push(ch); }
    }
    if !cur.is_empty() { toks.push(cur); }
    let n = 1 + rng.below(3);
    for _ in 0..n {
        if toks.is_empty() { break; }
        let i = rng.below(toks.len() as u64) as usize;
        let repl = ["\"str\"", "5", "0x1F", "-3", "4294967296", "99999999999999999999", "1,2,3", "0@fam", "Float32", "Bit(9)", "BitArea(5-2)", "(", ")", "=", "", "\n", "Unsigned8", "EndModule", "Ext_User_Prm_Data_Ref", "Unit_Diag_Bit", "Slot", "1.5", "0x", "\"", "Prm_Text_Ref=77", "Module"];
        match rng.below(4) {
            0 => { toks[i] = repl[rng.below(repl.len() as u64) as usize].to_string(); }
            1 => { toks.remove(i); }
            2 => { let t = toks[rng.below(toks.len() as u64) as usize].clone(); toks.insert(i, t); }
            _ => { toks.insert(i, repl[rng.below(repl.len() as u64) as usize].to_string()); }
        }
    }
    toks.concat()
}

fn main() {
    let loc: &'static std::sync::Mutex<String> = Box::leak(Box::new(std::sync::Mutex::new(String::new())));
    std::panic::set_hook(Box::new(move |info| { *loc.lock().unwrap() = info.location().map(|l| format!("{}:{}", l.file().rsplit('/').next().unwrap(), l.line())).unwrap_or_default(); }));
    if std::env::var("MUT").is_ok() {
        let cases: u64 = std::env::args().nth(1).map(|s| s.parse().unwrap()).unwrap_or(20000);
        let mut rng = Rng(77);
        let mock = std::fs::read_to_string("/repo/gsd-parser/tests/data/mock.gsd").unwrap();
        let mut sites: BTreeMap<String, (u32, String)> = BTreeMap::new();
        let (mut okc, mut errc) = (0u32, 0u32);
        for i in 0..cases {
            let base = if i % 4 == 0 { mock.clone() } else { gen(&mut rng).0 };
            let m = mutate(&mut rng, &base);
            let m2 = m.clone();
            match std::panic::catch_unwind(move || parser::parse_with_warnings(std::path::Path::new("x.gsd"), &m2).0.is_ok()) {
                Ok(true) => okc += 1, Ok(false) => errc += 1,
                Err(_) => { let l = loc.lock().unwrap().clone(); let e = sites.entry(l).or_insert((0, String::new())); e.0 += 1; if e.1.is_empty() { e.1 = m.lines().filter(|l| !l.trim().is_empty()).take(400).collect::<Vec<_>>().join("\n"); } }
            }
        }
        for (k, (n, _)) in &sites { println!("{n:6} panics at {k}"); }
        println!("mutants={cases} parsed={okc} error-values={errc} panic sites={}", sites.len());
        return;
    }
    let cases: u64 = std::env::args().nth(1).map(|s| s.parse().unwrap()).unwrap_or(2000);
    let mut rng = Rng(2026);
    let mut kinds: BTreeMap<String, (u32, String)> = BTreeMap::new();
    let mut okc = 0;
    for _ in 0..cases {
        let (src, want) = gen(&mut rng);
        let s2 = src.clone();
        let r = std::panic::catch_unwind(move || parser::parse(std::path::Path::new("x.gsd"), &s2));
        let msg = match r {
            Err(e) => format!("PANIC {}", e.downcast_ref::<String>().cloned().or_else(|| e.downcast_ref::<&str>().map(|s| s.to_string())).unwrap_or_default()),
            Ok(Err(e)) => format!("parse error: {}", e.to_string().lines().rev().take(2).collect::<Vec<_>>().join(" | ")),
            Ok(Ok(got)) => { if got == want { okc += 1; continue; } let a = format!("{:#?}", got); let b = format!("{:#?}", want); let d = a.lines().zip(b.lines()).find(|(x, y)| x != y).map(|(x, y)| format!("got `{}` want `{}`", x.trim(), y.trim())).unwrap_or("length differs".into()); format!("MISMATCH {d}") }
        };
        let key: String = msg.chars().filter(|c| !c.is_ascii_digit()).take(50).collect();
        let e = kinds.entry(key).or_insert((0, format!("{msg}\n-----\n{src}\n-----")));
        e.0 += 1;
    }
    for (_, (n, ex)) in kinds.iter().take(6) { println!("{n:5}  {}", ex.chars().take(1800).collect::<String>()); }
    println!("cases={cases} ok={okc} failing classes={}", kinds.len());
}
