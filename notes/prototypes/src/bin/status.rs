// Throw-away prototype: C12 (second half) — truthfulness of FDL status replies.
#[path = "../sim.rs"]
mod sim;
use profirust::fdl::{DataTelegramHeader, FdlActiveStation, FrameCountBit, FunctionCode, ParametersBuilder, RequestType, Telegram, TelegramTx};
use profirust::time::Instant;
use profirust::Baudrate;
use sim::*;

struct FmtLogger;
impl log::Log for FmtLogger {
    fn enabled(&self, _: &log::Metadata) -> bool { true }
    fn log(&self, record: &log::Record) { let _ = format!("{}", record.args()); }
    fn flush(&self) {}
}
static LOGGER: FmtLogger = FmtLogger;

fn statreq(da: u8, sa: u8) -> Vec<u8> { let mut b = vec![0u8; 16]; let n = TelegramTx::new(&mut b).send_data_telegram(DataTelegramHeader { da, sa, dsap: None, ssap: None, fc: FunctionCode::Request { fcb: FrameCountBit::Inactive, req: RequestType::FdlStatus } }, 0, |_| ()).bytes_sent(); b.truncate(n); b }

fn run(seed: u64) -> Result<(u32, u32, u32), String> {
    let mut rng = Rng(seed);
    let hsa = 6 + rng.below(10) as u8;
    let ts = rng.below(hsa as u64) as u8;
    // ring of other stations
    let mut ring: Vec<u8> = vec![];
    while ring.len() < 1 + rng.below(3) as usize { let a = rng.below(hsa as u64) as u8; if a != ts && !ring.contains(&a) { ring.push(a); } }
    ring.sort();
    let bus = Bus::new(1_500_000, 2);
    let mut f = FdlActiveStation::new(ParametersBuilder::new(ts, Baudrate::B1500000).highest_station_address(hsa).slot_bits(300).build());
    f.set_online();
    let mut phy = bus.phy(0);
    let bit_us = |b: i64| b * 1_000_000 / 1_500_000 + 1;
    let mut now = 0i64;
    let (mut notready, mut ready, mut inring) = (0u32, 0u32, 0u32);
    let mut pos = 0usize;
    let steps = 20 + rng.below(60);
    for _ in 0..steps {
        // wait for idle bus (>= 40 bits since last activity)
        loop {
            let e = bus.0.borrow().trace.last().map(|t| (t.end_ns / 1000) as i64 + 1).unwrap_or(0);
            if now >= e + bit_us(40) { break; }
            now += 5; f.poll(Instant::from_micros(now), &mut phy, &mut ());
        }
        // if the station itself holds the token (it got one / claimed), stop this case: other rules apply
        let dbg = format!("{:?}", f);
        if dbg.contains(", state: UseToken") || dbg.contains(", state: PassToken") || dbg.contains(", state: ClaimToken") || dbg.contains(", state: Await") || dbg.contains(", state: CheckTokenPass") { break; }
        let act = rng.below(10);
        if act < 6 {
            // next token pass of the ring (keeps the bus alive so TS never claims)
            let sa = ring[pos % ring.len()]; let da = ring[(pos + 1) % ring.len()]; pos += 1;
            bus.inject(1, now, &[0xDC, da, sa]);
            let end = bus.0.borrow().trace.last().map(|t| (t.end_ns / 1000) as i64 + 1).unwrap();
            while now < end + bit_us(5) { now += 5; f.poll(Instant::from_micros(now), &mut phy, &mut ()); }
        } else {
            let requester = if rng.below(2) == 0 { ring[rng.below(ring.len() as u64) as usize] } else { f.inspect_token_ring().previous_station() };
            let target = if rng.below(4) == 0 { (ts + 1 + rng.below(hsa as u64 - 1) as u8) % hsa } else { ts };
            if requester == ts { continue; }
            let in_ring = f.is_in_ring();
            let is_ready = f.inspect_token_ring().ready_for_ring();
            let ps = f.inspect_token_ring().previous_station();
            let idx = bus.0.borrow().trace.len();
            bus.inject(1, now, &statreq(target, requester));
            let end = bus.0.borrow().trace.last().map(|t| (t.end_ns / 1000) as i64 + 1).unwrap();
            while now < end + bit_us(300) { now += 5; f.poll(Instant::from_micros(now), &mut phy, &mut ()); }
            let b = bus.0.borrow();
            let sent: Vec<&TxRecord> = b.trace[idx + 1..].iter().filter(|t| t.sender == 0).collect();
            if target != ts { if !sent.is_empty() { return Err(format!("answered a request for #{target} (own #{ts})")); } continue; }
            if sent.len() != 1 { return Err(format!("{} transmissions after a status request (in_ring={in_ring} ready={is_ready})", sent.len())); }
            let t = sent[0];
            let delay_bits = ((t.start_us - end) as i128 * 1_500_000 / 1_000_000) as i64;
            if delay_bits > 300 { return Err(format!("reply after {delay_bits} bits")); }
            let Some(Ok((Telegram::Data(d), _))) = Telegram::deserialize(&t.bytes) else { return Err("undecodable reply".into()) };
            if d.h.da != requester || d.h.sa != ts { return Err(format!("reply addressed {}<-{}", d.h.da, d.h.sa)); }
            let st = d.h.fc.to_byte();
            let want = if in_ring { 0x30 } else if is_ready && requester == ps { 0x20 } else { 0x10 };
            if st != want { return Err(format!("reply state {st:#x} want {want:#x} (in_ring={in_ring} ready={is_ready} requester={requester} ps={ps} ring={ring:?} ts={ts})")); }
            match want { 0x10 => notready += 1, 0x20 => ready += 1, _ => inring += 1 }
        }
    }
    Ok((notready, ready, inring))
}

fn main() {
    log::set_logger(&LOGGER).unwrap();
    log::set_max_level(log::LevelFilter::Trace);
    let cases: u64 = std::env::args().nth(1).map(|s| s.parse().unwrap()).unwrap_or(2000);
    let (mut a, mut b, mut c, mut fails) = (0u64, 0u64, 0u64, 0);
    for i in 0..cases { match run(70000 + i) { Ok((x, y, z)) => { a += x as u64; b += y as u64; c += z as u64; } Err(e) => { fails += 1; if fails < 6 { println!("seed {}: {e}", 70000 + i); } } } }
    println!("cases={cases} fails={fails} replies: not-ready={a} ready={b} in-ring={c}");
}
