// Throw-away prototype: full stack (FdlActiveStation + DpMaster on the sim bus) against reference slaves with faults.
#[path = "../sim.rs"]
mod sim;
use profirust::dp;
use profirust::fdl::{DataTelegramHeader, FdlActiveStation, FunctionCode, ParametersBuilder, Telegram, TelegramTx};
use profirust::time::Instant;
use profirust::Baudrate;
use sim::*;
use std::panic::{catch_unwind, AssertUnwindSafe};

struct FmtLogger;
impl log::Log for FmtLogger {
    fn enabled(&self, _: &log::Metadata) -> bool { true }
    fn log(&self, record: &log::Record) { let _ = format!("{}", record.args()); }
    fn flush(&self) {}
}
static LOGGER: FmtLogger = FmtLogger;

#[derive(Clone, Copy, PartialEq, Debug)]
enum SlaveState { WaitPrm, WaitCfg, DataExch }
struct Slave { addr: u8, ident: u16, cfg: Vec<u8>, in_len: usize, out_len: usize, state: SlaveState, stored: Option<(u8, bool)>, last_resp: Vec<u8>, counter: u8 }

fn enc(h: DataTelegramHeader, pdu: &[u8]) -> Vec<u8> { let mut b = vec![0u8; 300]; let n = TelegramTx::new(&mut b).send_data_telegram(h, pdu.len(), |p| p.copy_from_slice(pdu)).bytes_sent(); b.truncate(n); b }

impl Slave {
    fn power_cycle(&mut self) { self.state = SlaveState::WaitPrm; self.stored = None; self.last_resp.clear(); }
    fn handle(&mut self, req: &[u8]) -> Vec<u8> {
        let Some(Ok((Telegram::Data(d), _))) = Telegram::deserialize(req) else { return vec![] };
        if d.h.da != self.addr { return vec![]; }
        let FunctionCode::Request { fcb, .. } = d.h.fc else { return vec![] };
        if d.is_fdl_status_request().is_some() { return enc(DataTelegramHeader { da: d.h.sa, sa: self.addr, dsap: None, ssap: None, fc: FunctionCode::from_byte(0x00).unwrap() }, &[]); }
        if fcb.fcv() { if self.stored == Some((d.h.sa, fcb.fcb())) { return self.last_resp.clone(); } self.stored = Some((d.h.sa, fcb.fcb())); } else if fcb.fcb() { self.stored = Some((d.h.sa, true)); }
        let master = d.h.sa;
        let rs = enc(DataTelegramHeader { da: master, sa: self.addr, dsap: None, ssap: None, fc: FunctionCode::from_byte(0x03).unwrap() }, &[]);
        let resp = match d.h.dsap {
            Some(60) => { let mut b0 = 0u8; let mut b1 = 0x04u8; if self.state != SlaveState::DataExch { b0 |= 0x02; } if self.state == SlaveState::WaitPrm { b1 |= 0x01; } enc(DataTelegramHeader { da: master, sa: self.addr, dsap: Some(62), ssap: Some(60), fc: FunctionCode::from_byte(0x08).unwrap() }, &[b0, b1, 0, if self.state == SlaveState::WaitPrm { 255 } else { master }, (self.ident >> 8) as u8, self.ident as u8]) }
            Some(61) => { self.state = if d.pdu.len() >= 7 && u16::from_be_bytes([d.pdu[4], d.pdu[5]]) == self.ident { SlaveState::WaitCfg } else { SlaveState::WaitPrm }; vec![0xE5] }
            Some(62) => { self.state = if self.state != SlaveState::WaitPrm && d.pdu == &self.cfg[..] { SlaveState::DataExch } else { SlaveState::WaitPrm }; vec![0xE5] }
            None => if self.state == SlaveState::DataExch && d.pdu.len() == self.out_len { self.counter = self.counter.wrapping_add(1); if self.in_len == 0 { vec![0xE5] } else { let pdu: Vec<u8> = (0..self.in_len).map(|i| self.counter.wrapping_add(i as u8)).collect(); enc(DataTelegramHeader { da: master, sa: self.addr, dsap: None, ssap: None, fc: FunctionCode::from_byte(0x08).unwrap() }, &pdu) } } else { rs },
            _ => rs,
        };
        self.last_resp = resp.clone();
        resp
    }
}

fn run(seed: u64) -> Result<(u32, u32), String> {
    let mut rng = Rng(seed);
    let bauds = [Baudrate::B19200, Baudrate::B500000, Baudrate::B1500000, Baudrate::B12000000];
    let baud = bauds[rng.below(4) as usize];
    let slot_bits: u16 = match baud { Baudrate::B500000 => 200, Baudrate::B1500000 => 300, Baudrate::B12000000 => 1000, _ => 100 } + rng.below(300) as u16;
    let ts = rng.below(6) as u8;
    let hsa = ts + 1 + rng.below(4) as u8;
    let max_retry = 1 + rng.below(3) as u8;
    let ttr = 2000 + rng.below(40000) as u32;
    let n = 1 + rng.below(3) as usize;
    let bus = Bus::new(baud.to_rate(), 2);
    let mut f = FdlActiveStation::new(ParametersBuilder::new(ts, baud).highest_station_address(hsa).slot_bits(slot_bits).max_retry_limit(max_retry).token_rotation_bits(ttr).gap_wait_rotations(1 + rng.below(10) as u8).build());
    f.set_online();
    let mut phy = bus.phy(0);
    let mut slaves: Vec<Slave> = (0..n).map(|i| Slave { addr: 20 + 7 * i as u8, ident: 0x2000 + i as u16, cfg: vec![0x31 + i as u8], in_len: rng.below(5) as usize, out_len: rng.below(5) as usize, state: SlaveState::WaitPrm, stored: None, last_resp: vec![], counter: 0 }).collect();
    let up = [9u8, 8, 7];
    let cfgs: Vec<Vec<u8>> = slaves.iter().map(|s| s.cfg.clone()).collect();
    let mut m = dp::DpMaster::new(vec![]);
    let mut handles = vec![];
    for (i, s) in slaves.iter().enumerate() { handles.push(m.add(dp::Peripheral::new(s.addr, dp::PeripheralOptions { ident_number: s.ident, user_parameters: Some(&up), config: Some(&cfgs[i]), max_tsdr: 60, ..Default::default() }, vec![0u8; s.in_len], vec![0u8; s.out_len]))); }
    m.enter_operate();
    let slot_us = baud.bits_to_time(slot_bits as u32).total_micros() as i64;
    let bit_ns = 1_000_000_000i128 / baud.to_rate() as i128;
    let bits_us = |b: i128| ((b * bit_ns) / 1000) as i64 + 1;
    let period = ((slot_us - bits_us(50)) / 3).min(slot_us / 4).max(1);
    let fault_end = slot_us * (400 + rng.below(1500) as i64);
    let t_end = fault_end + slot_us * 3000;
    let mut now = 0i64;
    let mut handled = 0usize;
    let mut pending: Vec<(i64, Vec<u8>)> = vec![];
    let mut model_pi: Vec<Vec<u8>> = slaves.iter().map(|s| vec![0u8; s.in_len]).collect();
    let mut sent_dx: Vec<Vec<Vec<u8>>> = vec![vec![]; n]; // payloads of DX replies the slave put on the wire, oldest first
    let (mut dx_events, mut offline_events) = (0u32, 0u32);
    let mut running_since: Option<i64> = None;
    let mut late_collisions = 0u32;
    let mut last_collision_slots = 0i64;
    while now < t_end {
        now += 1 + rng.below(period as u64) as i64;
        let faulty = now < fault_end;
        { let mut due = vec![]; pending.retain(|(t, d)| if *t <= now { due.push((*t, d.clone())); false } else { true }); for (t, d) in due { let free = bus.0.borrow().trace.last().map(|x| (x.end_ns / 1000) as i64 + 1).unwrap_or(0); bus.inject(1, t.max(free), &d); } }
        if faulty && rng.below(3000) == 0 { let k = rng.below(n as u64) as usize; slaves[k].power_cycle(); }
        if faulty && rng.below(2000) == 0 { let k = rng.below(n as u64) as usize; m.get_mut(handles[k]).request_diagnostics(); }
        if rng.below(50) == 0 { let k = rng.below(n as u64) as usize; let v = rng.next() as u8; for b in m.get_mut(handles[k]).pi_q_mut() { *b = v; } }
        let pq: Vec<Vec<u8>> = handles.iter().map(|h| m.get_mut(*h).pi_q().to_vec()).collect();
        f.poll(Instant::from_micros(now), &mut phy, &mut m);
        let ev = m.take_last_events();
        if let Some((h, e)) = ev.peripheral {
            let k = handles.iter().position(|x| *x == h).unwrap();
            match e {
                dp::PeripheralEvent::DataExchanged => { dx_events += 1; if slaves[k].in_len > 0 {
                    let cur = m.get_mut(h).pi_i().to_vec();
                    match sent_dx[k].iter().position(|p| *p == cur) { Some(_) => { model_pi[k] = cur; } None => return Err(format!("DataExchanged for #{} but pi_i {:02x?} is none of the payloads sent {:02x?}", slaves[k].addr, cur, sent_dx[k])) } } }
                dp::PeripheralEvent::Offline => offline_events += 1,
                _ => {}
            }
        }
        for (k, h) in handles.iter().enumerate() { if m.get_mut(*h).pi_i() != &model_pi[k][..] { return Err(format!("C04: pi_i of #{} = {:02x?} model {:02x?}", slaves[k].addr, m.get_mut(*h).pi_i(), model_pi[k])); } }
        // react to new transmissions of the master
        let b = bus.0.borrow();
        let mut new_pending = vec![];
        while handled < b.trace.len() {
            let t = &b.trace[handled];
            handled += 1;
            if t.sender != 0 { continue; }
            if t.collided && !faulty { late_collisions += 1; last_collision_slots = (t.start_us - fault_end) / slot_us; }
            let end = (t.end_ns / 1000) as i64 + 1;
            if let Some(Ok((Telegram::Data(d), _))) = Telegram::deserialize(&t.bytes) {
                if let Some(k) = slaves.iter().position(|s| s.addr == d.h.da) {
                    if d.h.dsap.is_none() && d.h.ssap.is_none() && d.is_fdl_status_request().is_none() {
                        if d.pdu != &pq[k][..] { return Err(format!("C04: DX request pdu {:02x?} != pi_q {:02x?}", d.pdu, pq[k])); }
                    }
                    let fault = if faulty { rng.below(12) } else { 99 };
                    if fault == 0 { continue; } // request lost
                    let reply = slaves[k].handle(&t.bytes);
                    if reply.is_empty() || fault == 1 { continue; } // reply lost
                    let delay = if fault == 2 && std::env::var("LATE").is_ok() { bits_us(slot_bits as i128 + 20 + rng.below(200) as i128) } else { bits_us(11 + rng.below(49) as i128) };
                    if d.h.dsap.is_none() && d.is_fdl_status_request().is_none() { if let Some(Ok((Telegram::Data(r), _))) = Telegram::deserialize(&reply) { if r.h.fc.to_byte() & 0x0f == 8 && r.h.dsap.is_none() { sent_dx[k].push(r.pdu.to_vec()); } } }
                    new_pending.push((end + delay, reply));
                }
            }
        }
        drop(b);
        pending.extend(new_pending);
        // C07: bounded liveness after faults
        if !faulty {
            let all = handles.iter().all(|h| m.get_mut(*h).is_running());
            if all { running_since.get_or_insert(now); }
            if now > fault_end + slot_us * 2500 && !all {
                if std::env::var("DUMP").is_ok() {
                    let b = bus.0.borrow();
                    println!("slot_us={slot_us} slot_bits={slot_bits} baud={:?} ts={ts} hsa={hsa} max_retry={max_retry} ttr={ttr} fault_end={fault_end}", baud);
                    for t in b.trace.iter().rev().take(70).rev() {
                        let d = match Telegram::deserialize(&t.bytes) { Some(Ok((t, _))) => format!("{:?}", t), _ => format!("RAW {:02x?}", t.bytes) };
                        println!("  {:>10} {} {}{}", t.start_us, if t.sender == 0 { "M" } else { "s" }, d.chars().take(170).collect::<String>(), if t.collided { " <== COLLISION" } else { "" });
                    }
                    println!("{:?}", f);
                } return Err(format!("C07: not all peripherals running 2500 slot times after the last fault: {:?} slaves {:?}", handles.iter().map(|h| m.get_mut(*h).is_running()).collect::<Vec<_>>(), slaves.iter().map(|s| s.state).collect::<Vec<_>>())); }
        }
    }
    if late_collisions > 0 && std::env::var("SHOWCOLL").is_ok() { println!("seed {seed}: {late_collisions} collisions after the fault window, last one {last_collision_slots} slot times after it (sim ends at 3000)"); }
    Ok((dx_events, offline_events))
}

fn main() {
    log::set_logger(&LOGGER).unwrap();
    log::set_max_level(log::LevelFilter::Trace);
    std::panic::set_hook(Box::new(|_| {}));
    let cases: u64 = std::env::args().nth(1).map(|s| s.parse().unwrap()).unwrap_or(200);
    let mut kinds: std::collections::BTreeMap<String, (u32, u64)> = Default::default();
    let (mut dx, mut off) = (0u64, 0u64);
    for c in 0..cases {
        let seed = std::env::var("SEED0").map(|s| s.parse().unwrap()).unwrap_or(9000) + c;
        let r = catch_unwind(AssertUnwindSafe(|| run(seed)));
        let msg = match r { Ok(Ok((a, b))) => { dx += a as u64; off += b as u64; continue; } Ok(Err(e)) => e, Err(e) => format!("PANIC {}", e.downcast_ref::<String>().cloned().or_else(|| e.downcast_ref::<&str>().map(|s| s.to_string())).unwrap_or_default()) };
        let key: String = msg.chars().filter(|c| !c.is_ascii_digit()).take(70).collect();
        kinds.entry(key).or_insert((0, seed)).0 += 1;
    }
    for (k, (n, s)) in &kinds { println!("{n:5} first seed {s}: {k}"); }
    println!("cases={cases} failing classes={} data-exchange events={dx} offline events={off}", kinds.len());
}
