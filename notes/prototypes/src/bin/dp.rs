use profirust::fdl::{FdlActiveStation, FdlApplication, HighPrioOnly, ParametersBuilder, Telegram, TelegramTx};
use profirust::time::Instant;
use profirust::{dp, Baudrate};
use std::panic::{catch_unwind, AssertUnwindSafe};

struct FmtLogger;
impl log::Log for FmtLogger {
    fn enabled(&self, _: &log::Metadata) -> bool { true }
    fn log(&self, record: &log::Record) { let _ = format!("{}", record.args()); }
    fn flush(&self) {}
}
static LOGGER: FmtLogger = FmtLogger;

fn report(name: &str, r: std::thread::Result<()>) {
    match r { Ok(()) => println!("{name}: ok"), Err(e) => println!("{name}: PANIC {}", e.downcast_ref::<String>().cloned().or_else(|| e.downcast_ref::<&str>().map(|s| s.to_string())).unwrap_or_default()) }
}

fn hex(b: &[u8]) -> String { b.iter().map(|x| format!("{:02x}", x)).collect::<Vec<_>>().join(" ") }

fn main() {
    log::set_logger(&LOGGER).unwrap();
    log::set_max_level(log::LevelFilter::Trace);
    std::panic::set_hook(Box::new(|_| {}));
    let fdl = FdlActiveStation::new(ParametersBuilder::new(2, Baudrate::B500000).build());

    // F7: SD2 with corrupted repeated start delimiter
    {
        let mut buf = [0u8; 32];
        let n = TelegramTx::new(&mut buf).send_data_telegram(profirust::fdl::DataTelegramHeader{da: 5, sa: 2, dsap: None, ssap: None, fc: profirust::fdl::FunctionCode::from_byte(0x08).unwrap()}, 2, |p| p.copy_from_slice(&[1,2])).bytes_sent();
        println!("frame: {}", hex(&buf[..n]));
        buf[3] ^= 0x01;
        println!("F7 decode with SD2' corrupted -> {:?}", Telegram::deserialize(&buf[..n]));
    }

    // F5: ext diag with zero-length block through the public DP path
    report("F5 zero-length ext diag block", catch_unwind(AssertUnwindSafe(|| {
        let mut m = dp::DpMaster::new(vec![]);
        let opts = dp::PeripheralOptions { user_parameters: Some(&[]), config: Some(&[0x10]), ..Default::default() };
        let h = m.add(dp::Peripheral::new(9, opts, vec![0u8; 1], vec![0u8; 0]).with_diag_buffer(vec![0u8; 16]));
        m.enter_operate();
        let mut buf = [0u8; 256];
        let now = Instant::ZERO;
        // skip global control
        let r = m.transmit_telegram(now, &fdl, TelegramTx::new(&mut buf), HighPrioOnly::No).unwrap();
        println!("  first tx: {}", hex(&buf[..r.bytes_sent()]));
        let r = m.transmit_telegram(now, &fdl, TelegramTx::new(&mut buf), HighPrioOnly::No).unwrap();
        println!("  second tx: {} expects_reply={:?}", hex(&buf[..r.bytes_sent()]), r.expects_reply());
        // diag reply with EXT_DIAG flag and block header 0x00
        let mut rb = [0u8; 64];
        let n = TelegramTx::new(&mut rb).send_data_telegram(profirust::fdl::DataTelegramHeader{da: 2, sa: 9, dsap: Some(62), ssap: Some(60), fc: profirust::fdl::FunctionCode::from_byte(0x08).unwrap()}, 7, |p| p.copy_from_slice(&[0x0a, 0x05, 0x00, 0xff, 0x12, 0x34, 0x00])).bytes_sent();
        let (t, _) = Telegram::deserialize(&rb[..n]).unwrap().unwrap();
        m.receive_reply(now, &fdl, 9, t);
        println!("  events: {:?}", m.take_last_events());
        let _ = h;
    })));

    // F11: two peripherals NAK Set_Prm with a response telegram in the same cycles
    report("F11 two peripherals rejected in one cycle", catch_unwind(AssertUnwindSafe(|| {
        let mut m = dp::DpMaster::new(vec![]);
        for a in [9u8, 10u8] {
            let opts = dp::PeripheralOptions { user_parameters: Some(&[]), config: Some(&[0x10]), ..Default::default() };
            m.add(dp::Peripheral::new(a, opts, vec![0u8; 1], vec![0u8; 0]));
        }
        m.enter_operate();
        let mut buf = [0u8; 256];
        let mut now = 0i64;
        let mut log = vec![];
        for _step in 0..60 {
            now += 1000;
            let r = m.transmit_telegram(Instant::from_micros(now), &fdl, TelegramTx::new(&mut buf), HighPrioOnly::No);
            let ev = m.take_last_events();
            if ev != Default::default() { log.push(format!("ev {:?}", ev)); }
            let Some(r) = r else { continue };
            let req = buf[..r.bytes_sent()].to_vec();
            log.push(format!("tx {}", hex(&req)));
            let Some(addr) = r.expects_reply() else { continue };
            // decode request enough: SD2 => dsap at [7] if ext bits
            let (da, dsap) = if req[0] == 0x68 { (req[4] & 0x7f, if req[4] & 0x80 != 0 { Some(req[7]) } else { None }) } else { (req[1] & 0x7f, None) };
            assert_eq!(da, addr);
            let mut rb = [0u8; 64];
            let n = match dsap {
                Some(60) => TelegramTx::new(&mut rb).send_data_telegram(profirust::fdl::DataTelegramHeader{da: 2, sa: addr, dsap: Some(62), ssap: Some(60), fc: profirust::fdl::FunctionCode::from_byte(0x08).unwrap()}, 6, |p| p.copy_from_slice(&[0x02, 0x05, 0x00, 0xff, 0x00, 0x00])).bytes_sent(),
                // NAK Set_Prm with "RS" response (SD1 frame)
                Some(61) => TelegramTx::new(&mut rb).send_data_telegram(profirust::fdl::DataTelegramHeader{da: 2, sa: addr, dsap: None, ssap: None, fc: profirust::fdl::FunctionCode::from_byte(0x03).unwrap()}, 0, |_| ()).bytes_sent(),
                _ => TelegramTx::new(&mut rb).send_short_confirmation().bytes_sent(),
            };
            let (t, _) = Telegram::deserialize(&rb[..n]).unwrap().unwrap();
            m.receive_reply(Instant::from_micros(now), &fdl, addr, t);
            let ev = m.take_last_events();
            if ev != Default::default() { log.push(format!("ev {:?}", ev)); }
        }
        for l in log.iter().take(40) { println!("  {l}"); }
    })));
}
