// Throw-away prototype: instrumented applications in a ring, hold-time / round-robin oracles.
#[path = "../sim.rs"]
mod sim;
use profirust::fdl::{
    DataTelegramHeader, FdlActiveStation, FdlApplication, FrameCountBit, FunctionCode,
    HighPrioOnly, ParametersBuilder, RequestType, Telegram, TelegramTx, TelegramTxResponse,
};
use profirust::time::Instant;
use profirust::Baudrate;
use sim::*;
use std::cell::RefCell;
use std::rc::Rc;

struct FmtLogger;
impl log::Log for FmtLogger {
    fn enabled(&self, _: &log::Metadata) -> bool { true }
    fn log(&self, record: &log::Record) { let _ = format!("{}", record.args()); }
    fn flush(&self) {}
}
static LOGGER: FmtLogger = FmtLogger;

#[derive(Debug, Clone)]
enum Cb {
    Tx { t: i64, app: usize, sent: Option<u8>, hp: bool },
    Reply { t: i64, app: usize, addr: u8, ok: bool },
    Timeout { t: i64, app: usize, addr: u8 },
}

struct App {
    idx: usize,
    log: Rc<RefCell<Vec<Cb>>>,
    burst: u32, // telegrams per turn before declining (u32::MAX = always)
    left: u32,
    target: u8,
    pdu: usize,
    own: u8,
}

impl FdlApplication for App {
    fn transmit_telegram(&mut self, now: Instant, fdl: &FdlActiveStation, tx: TelegramTx, hp: HighPrioOnly) -> Option<TelegramTxResponse> {
        let _ = fdl;
        if self.left == 0 {
            self.left = self.burst;
            self.log.borrow_mut().push(Cb::Tx { t: now.total_micros(), app: self.idx, sent: None, hp: hp == HighPrioOnly::Yes });
            return None;
        }
        if self.burst != u32::MAX { self.left -= 1; }
        self.log.borrow_mut().push(Cb::Tx { t: now.total_micros(), app: self.idx, sent: Some(self.target), hp: hp == HighPrioOnly::Yes });
        Some(tx.send_data_telegram(
            DataTelegramHeader { da: self.target, sa: self.own, dsap: Some(40), ssap: Some(41), fc: FunctionCode::Request { fcb: FrameCountBit::First, req: RequestType::SrdLow } },
            self.pdu, |b| b.fill(0x55)))
    }
    fn receive_reply(&mut self, now: Instant, _fdl: &FdlActiveStation, addr: u8, telegram: Telegram) {
        let ok = match &telegram { Telegram::ShortConfirmation(_) => true, Telegram::Data(d) => d.h.sa == addr && d.h.da == self.own && matches!(d.h.fc, FunctionCode::Response { .. }), _ => false };
        self.log.borrow_mut().push(Cb::Reply { t: now.total_micros(), app: self.idx, addr, ok });
    }
    fn handle_timeout(&mut self, now: Instant, _fdl: &FdlActiveStation, addr: u8) {
        self.log.borrow_mut().push(Cb::Timeout { t: now.total_micros(), app: self.idx, addr });
    }
}

fn run(seed: u64, verbose: bool) -> Result<(u32, u32), String> {
    let mut rng = Rng(seed);
    let bauds = [Baudrate::B19200, Baudrate::B187500, Baudrate::B1500000, Baudrate::B12000000];
    let baud = bauds[rng.below(4) as usize];
    let n = 1 + rng.below(3) as usize;
    let hsa = 12u8;
    let mut addrs = vec![];
    while addrs.len() < n { let a = rng.below(8) as u8; if !addrs.contains(&a) { addrs.push(a); } }
    let responders = [9u8, 10u8]; // 9 answers, 10 silent
    let slot_bits: u16 = match baud { Baudrate::B1500000 => 300, Baudrate::B12000000 => 1000, _ => 100 } + rng.below(200) as u16;
    let ttr: u32 = 256 + (rng.below(4) * rng.below(8000)) as u32;
    let bus = Bus::new(baud.to_rate(), n + 1);
    let slot_us = baud.bits_to_time(slot_bits as u32).total_micros() as i64;
    let bit_ns = 1_000_000_000i128 / baud.to_rate() as i128;
    let ttr_us = baud.bits_to_time(ttr).total_micros() as i64;
    let period = ((slot_us - (50 * bit_ns / 1000) as i64) / 3).min(slot_us / 4).max(1);
    let mut st = vec![];
    for (i, a) in addrs.iter().enumerate() {
        let mut f = FdlActiveStation::new(ParametersBuilder::new(*a, baud).highest_station_address(hsa).slot_bits(slot_bits).token_rotation_bits(ttr).gap_wait_rotations(1 + rng.below(5) as u8).build());
        f.set_online();
        let napps = rng.below(4) as usize;
        let log = Rc::new(RefCell::new(vec![]));
        let apps: Vec<App> = (0..napps).map(|j| { let burst = match rng.below(4) { 0 => 0, 1 => u32::MAX, _ => 1 + rng.below(4) as u32 }; App { idx: j, log: log.clone(), burst, left: burst, target: responders[rng.below(2) as usize], pdu: rng.below(60) as usize, own: *a } }).collect();
        st.push((f, bus.phy(i), rng.below(30) as i64, apps, log));
    }
    let t_end = slot_us * 4000;
    let mut handled = 0usize;
    let mut pending: Vec<(i64, Vec<u8>)> = vec![];
    // poll log for token receipt times
    let mut receipts: Vec<Vec<i64>> = vec![vec![]; n];
    let mut token_arrival: Vec<Option<i128>> = vec![None; n];
    loop {
        let (idx, _) = st.iter().enumerate().min_by_key(|(_, s)| s.2).unwrap();
        let now = st[idx].2;
        if now > t_end { break; }
        // scheduled virtual replies
        pending.retain(|(t, data)| { if *t <= now { bus.inject(n, *t, data); false } else { true } });
        {
            let (f, phy, next, apps, _) = &mut st[idx];
            if let Some(arr) = token_arrival[idx] { if arr <= (now as i128) * 1000 { receipts[idx].push(now); token_arrival[idx] = None; } }
            let mut refs: Vec<&mut dyn FdlApplication> = apps.iter_mut().map(|a| a as &mut dyn FdlApplication).collect();
            f.poll_multi(Instant::from_micros(now), phy, &mut refs[..]);
            *next = now + 1 + rng.below(period as u64) as i64;
        }
        // react to new trace entries
        let b = bus.0.borrow();
        while handled < b.trace.len() {
            let t = &b.trace[handled];
            handled += 1;
            if t.sender >= n { continue; }
            if t.collided { return Err(format!("collision at {}", t.start_us)); }
            if let Some(Ok((Telegram::Data(d), _))) = Telegram::deserialize(&t.bytes) {
                if d.h.da == 9 && matches!(d.h.fc, FunctionCode::Request { .. }) {
                    let mut rb = vec![0u8; 300];
                    let k = TelegramTx::new(&mut rb).send_data_telegram(DataTelegramHeader { da: d.h.sa, sa: 9, dsap: d.h.ssap, ssap: d.h.dsap, fc: FunctionCode::from_byte(0x08).unwrap() }, 3, |p| p.fill(7)).bytes_sent();
                    rb.truncate(k);
                    let at = (t.end_ns / 1000) as i64 + 1 + (15 * bit_ns / 1000) as i64;
                    pending.push((at, rb));
                }
            }
            if let Some(Ok((Telegram::Token(tok), _))) = Telegram::deserialize(&t.bytes) {
                if let Some(k) = addrs.iter().position(|a| *a == tok.da) {
                    if tok.da != tok.sa { token_arrival[k] = Some(t.end_ns); } else { receipts[k].push(t.start_us); }
                }
            }
        }
    }
    // Oracle: hold time. For each station, for each visit k>=1: app requests with index>=2 in the visit must start before receipt(k-1)+TTR
    let (mut cut, mut late) = (0, 0);
    for i in 0..n {
        let log = st[i].4.borrow();
        let rec = &receipts[i];
        for k in 1..rec.len() {
            let (start, end) = (rec[k], if k + 1 < rec.len() { rec[k + 1] } else { i64::MAX });
            let deadline = rec[k - 1] + ttr_us;
            let sends: Vec<(i64, bool)> = log.iter().filter_map(|c| if let Cb::Tx { t, sent: Some(_), hp, .. } = c { if *t >= start && *t < end { Some((*t, *hp)) } else { None } } else { None }).collect();
            for (j, (t, hp)) in sends.iter().enumerate() {
                if j >= 1 && *t >= deadline { return Err(format!("C13: station {} visit {} request #{} at {} after deadline {} (hp={})", addrs[i], k, j, t, deadline, hp)); }
            }
            if sends.first().map(|s| s.0 >= deadline).unwrap_or(false) { late += 1; if sends.len() != 1 { return Err(format!("C13: late visit with {} requests", sends.len())); } }
            if sends.len() >= 1 && sends.last().unwrap().0 < deadline { cut += 0; }
        }
        // C15: reply/timeout pairing and round robin
        let mut outstanding: Option<(usize, u8)> = None;
        let mut last_app: Option<usize> = None;
        let mut last_declined = true;
        let napps = st[i].3.len();
        for c in log.iter() {
            match c {
                Cb::Tx { app, sent, .. } => {
                    if outstanding.is_some() { return Err(format!("C15: transmit while reply outstanding: {:?}", c)); }
                    if let Some(la) = last_app { if *app != la { if !last_declined { return Err(format!("C15: app switched without decline")); } if *app != (la + 1) % napps { return Err(format!("C15: not round robin {la} -> {app}")); } } }
                    last_app = Some(*app);
                    last_declined = sent.is_none();
                    if let Some(a) = sent { outstanding = Some((*app, *a)); }
                }
                Cb::Reply { app, addr, ok, .. } => {
                    if outstanding != Some((*app, *addr)) { return Err(format!("C15: unmatched reply {:?} outstanding {:?}", c, outstanding)); }
                    if !ok { return Err(format!("C15: invalid reply delivered")); }
                    outstanding = None;
                }
                Cb::Timeout { app, addr, .. } => {
                    if outstanding != Some((*app, *addr)) { return Err(format!("C15: unmatched timeout {:?} outstanding {:?}", c, outstanding)); }
                    outstanding = None;
                }
            }
        }
        if verbose { println!("station {} receipts {} callbacks {}", addrs[i], rec.len(), log.len()); }
    }
    let _ = cut;
    Ok((late, receipts.iter().map(|r| r.len() as u32).sum()))
}

fn main() {
    log::set_logger(&LOGGER).unwrap();
    log::set_max_level(log::LevelFilter::Trace);
    let cases: u64 = std::env::args().nth(1).map(|s| s.parse().unwrap()).unwrap_or(100);
    let mut fails = 0;
    let (mut late, mut visits) = (0u64, 0u64);
    for c in 0..cases {
        match run(500 + c, false) {
            Ok((l, v)) => { late += l as u64; visits += v as u64; }
            Err(e) => { fails += 1; if fails <= 8 { println!("seed {}: {e}", 500 + c); } }
        }
    }
    println!("cases={cases} fails={fails} late_visits={late} visits={visits}");
}
