// Throw-away prototype: reference FDL decoder/encoder vs profirust (C09/C10 oracles).
use profirust::fdl::{DataTelegram, Telegram};

#[derive(Debug, PartialEq, Clone)]
enum RefT {
    Sc,
    Token { da: u8, sa: u8 },
    Data { da: u8, sa: u8, dsap: Option<u8>, ssap: Option<u8>, fc: u8, pdu: Vec<u8> },
}
#[derive(Debug, PartialEq, Clone)]
enum Verdict {
    More,
    Reject,
    Accept(RefT, usize),
}

fn fc_valid(b: u8) -> bool {
    if b & 0x40 != 0 {
        matches!(b & 0x8f, 0x80 | 0 | 3 | 4 | 5 | 6 | 7 | 9 | 12 | 13 | 14 | 15)
    } else {
        // bit 7 must be... profirust ignores bit 7 for responses; reference: b7 reserved
        matches!(b & 0x0f, 0 | 1 | 2 | 3 | 8 | 9 | 10 | 12 | 13)
    }
}

fn ref_decode(b: &[u8], check_sd2_repeat: bool) -> Verdict {
    if b.is_empty() {
        return Verdict::More;
    }
    match b[0] {
        0xE5 => Verdict::Accept(RefT::Sc, 1),
        0xDC => {
            if b.len() < 3 { Verdict::More } else { Verdict::Accept(RefT::Token { da: b[1], sa: b[2] }, 3) }
        }
        0x10 | 0xA2 | 0x68 => {
            let (hdr, body_len) = match b[0] {
                0x10 => (1usize, 3usize),
                0xA2 => (1, 11),
                _ => {
                    if b.len() < 6 { return Verdict::More; } // profirust looks at the header only with >= 6 bytes
                    if b[1] != b[2] || b[1] < 3 { return Verdict::Reject; }
                    if check_sd2_repeat && b[3] != 0x68 { return Verdict::Reject; }
                    (4, b[1] as usize)
                }
            };
            let total = hdr + body_len + 2;
            if b.len() < total.max(6) { return Verdict::More; }
            let body = &b[hdr..hdr + body_len];
            let (da, sa, fc) = (body[0], body[1], body[2]);
            if !fc_valid(fc) { return Verdict::Reject; }
            let mut rest = &body[3..];
            let dsap = if da & 0x80 != 0 { if rest.is_empty() { return Verdict::Reject; } let v = rest[0]; rest = &rest[1..]; Some(v) } else { None };
            let ssap = if sa & 0x80 != 0 { if rest.is_empty() { return Verdict::Reject; } let v = rest[0]; rest = &rest[1..]; Some(v) } else { None };
            let fcs = body.iter().fold(0u8, |a, x| a.wrapping_add(*x));
            if b[hdr + body_len] != fcs { return Verdict::Reject; }
            if b[hdr + body_len + 1] != 0x16 { return Verdict::Reject; }
            Verdict::Accept(RefT::Data { da: da & 0x7f, sa: sa & 0x7f, dsap, ssap, fc, pdu: rest.to_vec() }, total)
        }
        _ => Verdict::Reject,
    }
}

fn impl_decode(b: &[u8]) -> Verdict {
    match Telegram::deserialize(b) {
        None => Verdict::More,
        Some(Err(())) => Verdict::Reject,
        Some(Ok((t, n))) => Verdict::Accept(
            match t {
                Telegram::ShortConfirmation(_) => RefT::Sc,
                Telegram::Token(t) => RefT::Token { da: t.da, sa: t.sa },
                Telegram::Data(DataTelegram { h, pdu }) => RefT::Data { da: h.da, sa: h.sa, dsap: h.dsap, ssap: h.ssap, fc: h.fc.to_byte(), pdu: pdu.to_vec() },
            },
            n,
        ),
    }
}

struct Rng(u64);
impl Rng {
    fn next(&mut self) -> u64 { self.0 = self.0.wrapping_add(0x9E3779B97F4A7C15); let mut z = self.0; z = (z ^ (z >> 30)).wrapping_mul(0xBF58476D1CE4E5B9); z = (z ^ (z >> 27)).wrapping_mul(0x94D049BB133111EB); z ^ (z >> 31) }
    fn below(&mut self, n: u64) -> u64 { self.next() % n }
}

fn main() {
    let strict = std::env::args().nth(1).is_some();
    let mut diffs: std::collections::BTreeMap<String, (u64, Vec<u8>)> = Default::default();
    let mut n = 0u64;
    let mut check = |b: &[u8], diffs: &mut std::collections::BTreeMap<String, (u64, Vec<u8>)>| {
        n += 1;
        let r = ref_decode(b, strict);
        let i = impl_decode(b);
        if r != i {
            let key = format!("ref={} impl={}", match &r { Verdict::More => "More", Verdict::Reject => "Reject", Verdict::Accept(..) => "Accept" }, match &i { Verdict::More => "More", Verdict::Reject => "Reject", Verdict::Accept(..) => "Accept" });
            let e = diffs.entry(key).or_insert((0, b.to_vec()));
            e.0 += 1;
        }
    };
    // exhaustive short strings
    for a in 0..=255u8 { check(&[a], &mut diffs); for b in 0..=255u8 { check(&[a, b], &mut diffs); } }
    for s in [0x10u8, 0x68, 0xA2, 0xDC, 0xE5] { for a in 0..=255u8 { for b in 0..=255u8 { check(&[s, a, b], &mut diffs); } } }
    // SD2 headers with structured bodies
    let mut rng = Rng(7);
    for le in 0..=255u8 { for ler in [le, le.wrapping_add(1), 0, 255] { for x in [0x68u8, 0x69, 0x00, 0x10] {
        let mut v = vec![0x68, le, ler, x];
        let body_len = le as usize;
        let mut body: Vec<u8> = (0..body_len).map(|_| rng.next() as u8).collect();
        if body_len >= 3 { body[2] = [0x08u8, 0x6c, 0x49, 0x03, 0xff, 0x00][rng.below(6) as usize]; if rng.below(2) == 0 { body[0] &= 0x7f; } if rng.below(2) == 0 { body[1] &= 0x7f; } }
        let fcs = body.iter().fold(0u8, |a, x| a.wrapping_add(*x));
        v.extend_from_slice(&body);
        v.push(if rng.below(8) == 0 { fcs.wrapping_add(1) } else { fcs });
        v.push(if rng.below(8) == 0 { 0x17 } else { 0x16 });
        for cut in 0..=v.len() { check(&v[..cut], &mut diffs); }
        let mut ext = v.clone(); ext.extend_from_slice(&[0xDC, 1, 2]); check(&ext, &mut diffs);
    } } }
    // random strings
    for _ in 0..2_000_000 {
        let len = rng.below(20) as usize;
        let mut v: Vec<u8> = (0..len).map(|_| rng.next() as u8).collect();
        if !v.is_empty() && rng.below(2) == 0 { v[0] = [0x10u8, 0x68, 0xA2, 0xDC, 0xE5][rng.below(5) as usize]; }
        if v.len() > 3 && v[0] == 0x68 && rng.below(2) == 0 { v[1] = 3 + rng.below(10) as u8; v[2] = v[1]; v[3] = 0x68; }
        check(&v, &mut diffs);
    }
    for (k, (c, ex)) in &diffs { println!("{c:8} {k}  e.g. {:02x?}", ex); }
    println!("cases={n} distinct diff classes={}", diffs.len());
}
