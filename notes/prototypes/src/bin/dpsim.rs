// Throw-away prototype: DpMaster driven at the FdlApplication interface against a reference slave.
#[path = "../sim.rs"]
mod sim;
use profirust::dp;
use profirust::fdl::{
    DataTelegramHeader, FdlActiveStation, FdlApplication, FunctionCode, HighPrioOnly,
    ParametersBuilder, Telegram, TelegramTx,
};
use profirust::time::Instant;
use profirust::Baudrate;
use sim::Rng;
use std::panic::{catch_unwind, AssertUnwindSafe};

struct FmtLogger;
impl log::Log for FmtLogger {
    fn enabled(&self, _: &log::Metadata) -> bool {
        true
    }
    fn log(&self, record: &log::Record) {
        let _ = format!("{}", record.args());
    }
    fn flush(&self) {}
}
static LOGGER: FmtLogger = FmtLogger;

#[derive(Clone, Copy, PartialEq, Debug)]
enum SlaveState {
    WaitPrm,
    WaitCfg,
    DataExch,
}

struct Slave {
    addr: u8,
    ident: u16,
    cfg: Vec<u8>,
    in_len: usize,
    out_len: usize,
    state: SlaveState,
    stored: Option<(u8, bool)>,
    last_resp: Vec<u8>,
    counter: u8,
    outputs: Vec<u8>,
}

fn enc(h: DataTelegramHeader, pdu: &[u8]) -> Vec<u8> {
    let mut b = vec![0u8; 300];
    let n = TelegramTx::new(&mut b)
        .send_data_telegram(h, pdu.len(), |p| p.copy_from_slice(pdu))
        .bytes_sent();
    b.truncate(n);
    b
}

impl Slave {
    fn power_cycle(&mut self) {
        self.state = SlaveState::WaitPrm;
        self.stored = None;
        self.last_resp.clear();
    }
    fn handle(&mut self, req: &[u8]) -> Vec<u8> {
        let (t, _) = match Telegram::deserialize(req) {
            Some(Ok(x)) => x,
            _ => return vec![],
        };
        let Telegram::Data(d) = t else { return vec![] };
        if d.h.da != self.addr {
            return vec![];
        }
        let FunctionCode::Request { fcb, req: _ } = d.h.fc else {
            return vec![];
        };
        if fcb.fcv() {
            if self.stored == Some((d.h.sa, fcb.fcb())) {
                return self.last_resp.clone(); // retransmission
            }
            self.stored = Some((d.h.sa, fcb.fcb()));
        } else if fcb.fcb() {
            self.stored = Some((d.h.sa, true));
        }
        let master = d.h.sa;
        let resp = match d.h.dsap {
            Some(60) => {
                let mut b0 = 0u8;
                let mut b1 = 0x04u8;
                if self.state != SlaveState::DataExch {
                    b0 |= 0x02;
                }
                if self.state == SlaveState::WaitPrm {
                    b1 |= 0x01;
                }
                let pdu = [b0, b1, 0, if self.state == SlaveState::WaitPrm { 255 } else { master }, (self.ident >> 8) as u8, self.ident as u8];
                enc(
                    DataTelegramHeader { da: master, sa: self.addr, dsap: Some(62), ssap: Some(60), fc: FunctionCode::from_byte(0x08).unwrap() },
                    &pdu,
                )
            }
            Some(61) => {
                if d.pdu.len() >= 7 && u16::from_be_bytes([d.pdu[4], d.pdu[5]]) == self.ident {
                    self.state = SlaveState::WaitCfg;
                } else {
                    self.state = SlaveState::WaitPrm;
                }
                vec![0xE5]
            }
            Some(62) => {
                if self.state != SlaveState::WaitPrm && d.pdu == &self.cfg[..] {
                    self.state = SlaveState::DataExch;
                } else {
                    self.state = SlaveState::WaitPrm;
                }
                vec![0xE5]
            }
            None => {
                if self.state == SlaveState::DataExch && d.pdu.len() == self.out_len {
                    self.outputs = d.pdu.to_vec();
                    self.counter = self.counter.wrapping_add(1);
                    if self.in_len == 0 {
                        vec![0xE5]
                    } else {
                        let pdu: Vec<u8> = (0..self.in_len).map(|i| self.counter.wrapping_add(i as u8)).collect();
                        enc(DataTelegramHeader { da: master, sa: self.addr, dsap: None, ssap: None, fc: FunctionCode::from_byte(0x08).unwrap() }, &pdu)
                    }
                } else {
                    enc(DataTelegramHeader { da: master, sa: self.addr, dsap: None, ssap: None, fc: FunctionCode::from_byte(0x03).unwrap() }, &[])
                }
            }
            _ => enc(DataTelegramHeader { da: master, sa: self.addr, dsap: None, ssap: None, fc: FunctionCode::from_byte(0x03).unwrap() }, &[]),
        };
        self.last_resp = resp.clone();
        resp
    }
}

#[derive(Default, Clone, Debug)]
struct PerOracle {
    // FCB oracle
    last_req: Option<(u8, Option<u8>, bool)>, // (fc byte, dsap, good_reply_delivered)
    expect_first: bool,
    run_len: u32,
    last_answered: bool,
    // admission automaton
    adm: u8,
    // lifecycle
    live: bool,
    configured: bool,
}

fn run_case(seed: u64, verbose: bool, script: Option<&[u8]>) -> Result<(), String> {
    let mut script_pos = 0usize;
    let mut rng = Rng(seed);
    let max_retry = 1 + rng.below(3) as u8;
    let fdl = FdlActiveStation::new(ParametersBuilder::new(2, Baudrate::B500000).max_retry_limit(max_retry).build());
    let n = 1 + rng.below(3) as usize;
    let mut slaves: Vec<Slave> = (0..n)
        .map(|i| {
            let in_len = rng.below(4) as usize;
            let out_len = rng.below(4) as usize;
            Slave {
                addr: 10 + i as u8 * 3,
                ident: 0x1000 + i as u16,
                cfg: vec![0x11 + i as u8, 0x22],
                in_len,
                out_len,
                state: SlaveState::WaitPrm,
                stored: None,
                last_resp: vec![],
                counter: 0,
                outputs: vec![],
            }
        })
        .collect();
    let user_prm = [1u8, 2, 3];
    let cfgs: Vec<Vec<u8>> = slaves.iter().map(|s| s.cfg.clone()).collect();
    let mut m = dp::DpMaster::new(vec![]);
    let mut handles = vec![];
    for (i, s) in slaves.iter().enumerate() {
        let opts = dp::PeripheralOptions { ident_number: s.ident, user_parameters: Some(&user_prm), config: Some(&cfgs[i]), ..Default::default() };
        handles.push(m.add(dp::Peripheral::new(s.addr, opts, vec![0u8; s.in_len], vec![0u8; s.out_len])));
    }
    m.enter_operate();
    let mut orc: Vec<PerOracle> = vec![PerOracle { expect_first: true, ..Default::default() }; n];
    let mut buf = [0u8; 300];
    let mut now = 0i64;
    let fault_steps = 300 + rng.below(400);
    let total_steps = fault_steps + 400;
    let mut trace: Vec<String> = vec![];
    let mut cycles_after = 0;
    let mut cycle_runs: Vec<usize> = vec![]; // slot indices of runs in the current DP cycle
    let mut total_cycles = 0u32;
    let mut idle_cycles: Vec<u32> = vec![0; n];
    macro_rules! fail {
        ($($a:tt)*) => {{
            let msg = format!($($a)*);
            if verbose { for l in trace.iter().rev().take(40).rev() { println!("    {l}"); } }
            return Err(msg);
        }};
    }
    for step in 0..total_steps {
        now += 200;
        let faulty = if let Some(sc) = script { script_pos < sc.len() } else { step < fault_steps };
        // user actions
        if script.is_none() && faulty && rng.below(10) == 0 {
            let k = rng.below(n as u64) as usize;
            m.get_mut(handles[k]).request_diagnostics();
            trace.push(format!("user request_diagnostics #{}", slaves[k].addr));
        }
        if rng.below(3) == 0 {
            let k = rng.below(n as u64) as usize;
            let v = rng.next() as u8;
            for b in m.get_mut(handles[k]).pi_q_mut() {
                *b = v;
            }
        }
        if script.is_none() && faulty && rng.below(60) == 0 {
            let k = rng.below(n as u64) as usize;
            slaves[k].power_cycle();
            trace.push(format!("power cycle #{}", slaves[k].addr));
        }
        let r = m.transmit_telegram(Instant::from_micros(now), &fdl, TelegramTx::new(&mut buf), HighPrioOnly::No);
        let ev = m.take_last_events();
        let mut handle_ev = |ev: &dp::DpEvents, orc: &mut Vec<PerOracle>, trace: &mut Vec<String>| -> Result<(), String> {
            if let Some((h, e)) = ev.peripheral {
                let k = handles.iter().position(|x| *x == h).unwrap();
                trace.push(format!("event #{} {:?}", h.address(), e));
                let o = &mut orc[k];
                use dp::PeripheralEvent::*;
                match e {
                    Online => { if o.live { return Err(format!("Online while live")); } o.live = true; o.configured = false; }
                    Offline => { if !o.live { return Err(format!("Offline while not live")); } o.live = false; o.configured = false; o.expect_first = true; o.adm = 0; o.last_req = None; }
                    ParameterError | ConfigError => { if !o.live { return Err(format!("error event while not live")); } o.live = false; o.configured = false; o.adm = 0; }
                    Configured => { if !o.live { return Err(format!("Configured while not live")); } o.configured = true; }
                    DataExchanged | Diagnostics => { if !o.live || !o.configured { return Err(format!("{:?} before Configured", e)); } }
                }
            }
            Ok(())
        };
        if let Err(e) = handle_ev(&ev, &mut orc, &mut trace) { fail!("{e}"); }
        if ev.cycle_completed && !faulty { cycles_after += 1; }
        macro_rules! on_cycle { () => {{
            total_cycles += 1;
            for j in 0..n { if cycle_runs.contains(&j) { idle_cycles[j] = 0; } else { idle_cycles[j] += 1; if idle_cycles[j] > 2 { fail!("C14: peripheral slot {j} got no request for {} cycles", idle_cycles[j]); } } }
            cycle_runs.clear();
        }}; }
        if ev.cycle_completed { on_cycle!(); }
        let Some(r) = r else { continue };
        let req = buf[..r.bytes_sent()].to_vec();
        let Some(addr) = r.expects_reply() else { trace.push(format!("tx GC")); continue };
        let k = slaves.iter().position(|s| s.addr == addr).unwrap();
        if cycle_runs.last() != Some(&k) {
            if cycle_runs.contains(&k) { fail!("C14: second run for slot {k} within one cycle: {:?}", cycle_runs); }
            if let Some(l) = cycle_runs.last() { if *l > k { fail!("C14: runs out of slot order: {:?} then {k}", cycle_runs); } }
            cycle_runs.push(k);
        }
        // decode request
        let (t, _) = Telegram::deserialize(&req).unwrap().unwrap();
        let Telegram::Data(d) = t else { unreachable!() };
        let fcbyte = d.h.fc.to_byte();
        let (fcv, fcb) = (fcbyte & 0x10 != 0, fcbyte & 0x20 != 0);
        let dsap = d.h.dsap;
        trace.push(format!("tx #{} dsap={:?} fcv={} fcb={} pdu={:02x?}", addr, dsap, fcv as u8, fcb as u8, d.pdu));
        {
            let o = &mut orc[k];
            // C08 oracle
            if o.expect_first {
                if fcv || !fcb { fail!("C08: first request after start/offline has fcv={fcv} fcb={fcb}"); }
                o.expect_first = false;
                o.run_len = 1;
            } else if let Some((pfc, pdsap, good)) = o.last_req {
                let (pfcv, pfcb) = (pfc & 0x10 != 0, pfc & 0x20 != 0);
                let same = (fcv == pfcv && fcb == pfcb) || (!pfcv && pfcb && !fcv && fcb);
                if same {
                    if good { fail!("C08: good reply delivered but FCB not toggled (prev dsap {:?} now {:?})", pdsap, dsap); }
                    if pdsap != dsap { fail!("C08: same FCB reused for different service {:?} -> {:?}", pdsap, dsap); }
                    // the retry limit only applies to unanswered requests to a live peripheral
                    let answered = o.last_answered;
                    if o.live && !answered { o.run_len += 1; } else { o.run_len = 1; }
                    if o.run_len > 1 + max_retry as u32 { fail!("C08: more than 1+max_retry transmissions"); }
                } else {
                    if !fcv { fail!("C08: unexpected FCV=0 request"); }
                    if fcb == pfcb { fail!("C08: not toggled"); }
                    o.run_len = 1;
                }
            }
            // C03 admission
            if dsap.is_none() && o.adm != 4 { fail!("C03: Data_Exchange sent in admission state {}", o.adm); }
            if dsap.is_none() {
                // C04: outputs
                let pq = m.get_mut(handles[k]).pi_q().to_vec();
                if d.pdu != &pq[..] { fail!("C04: DX request pdu != pi_q"); }
            }
        }
        // faults
        let mut reply: Vec<u8> = vec![];
        let f = if let Some(sc) = script { if script_pos < sc.len() { let c = sc[script_pos]; script_pos += 1; match c { 0 => 99, 1 => 0, 2 => 1, 3 => 2, 4 => { slaves[k].power_cycle(); trace.push(format!("power cycle #{}", slaves[k].addr)); 99 } _ => { m.get_mut(handles[k]).request_diagnostics(); trace.push("user request_diagnostics (reply in flight)".into()); 99 } } } else { 99 } } else if faulty { rng.below(10) } else { 99 };
        if f == 0 {
            trace.push("  request lost".into());
        } else {
            reply = slaves[k].handle(&req);
            if f == 1 { trace.push("  reply lost".into()); reply.clear(); }
            if f == 2 { trace.push("  reply replaced by RS".into()); reply = enc(DataTelegramHeader { da: 2, sa: addr, dsap: None, ssap: None, fc: FunctionCode::from_byte(0x03).unwrap() }, &[]); }
        }
        let pi_before: Vec<Vec<u8>> = handles.iter().map(|h| m.get_mut(*h).pi_i().to_vec()).collect();
        let mut good = false;
        if reply.is_empty() {
            m.handle_timeout(Instant::from_micros(now), &fdl, addr);
        } else {
            let (t, _) = Telegram::deserialize(&reply).unwrap().unwrap();
            // classify
            let o = &mut orc[k];
            match (&t, dsap) {
                (Telegram::ShortConfirmation(_), Some(61)) => { good = true; if o.adm == 1 { o.adm = 2; } }
                (Telegram::ShortConfirmation(_), Some(62)) => { good = true; if o.adm == 2 { o.adm = 3; } }
                (Telegram::ShortConfirmation(_), None) => { good = slaves[k].in_len == 0; }
                (Telegram::Data(r), Some(60)) if r.h.dsap == Some(62) && r.h.ssap == Some(60) && r.pdu.len() >= 6 => {
                    good = true;
                    let notready = r.pdu[0] & 0x02 != 0; let prmreq = r.pdu[1] & 0x01 != 0; let fault = r.pdu[0] & 0x44 != 0;
                    if o.adm == 0 { o.adm = 1; } else if o.adm == 3 { if prmreq { o.adm = 1; } else if !notready && !fault { o.adm = 4; } }
                }
                (Telegram::Data(r), None) if r.h.dsap.is_none() => {
                    let st = r.h.fc.to_byte() & 0x0f;
                    if st == 3 { if o.adm == 4 { o.adm = 3; } good = true; } else { good = true; }
                }
                _ => {}
            }
            trace.push(format!("  rx {:02x?} good={good}", reply));
            m.receive_reply(Instant::from_micros(now), &fdl, addr, t);
        }
        orc[k].last_req = Some((fcbyte, dsap, good));
        orc[k].last_answered = !reply.is_empty();
        let ev = m.take_last_events();
        if let Err(e) = handle_ev(&ev, &mut orc, &mut trace) { fail!("{e}"); }
        if ev.cycle_completed && !faulty { cycles_after += 1; }
        if ev.cycle_completed { on_cycle!(); }
        // C04 inputs
        for (j, h) in handles.iter().enumerate() {
            let now_pi = m.get_mut(*h).pi_i().to_vec();
            if now_pi != pi_before[j] {
                let ok = j == k && dsap.is_none() && !reply.is_empty() && matches!(Telegram::deserialize(&reply), Some(Ok((Telegram::Data(ref r), _))) if r.pdu == &now_pi[..]);
                if !ok { fail!("C04: pi_i of #{} changed unexpectedly", slaves[j].addr); }
            }
        }
        for (j, h) in handles.iter().enumerate() {
            let p = m.get_mut(*h);
            if p.is_live() != orc[j].live { fail!("C14: is_live mismatch for #{}", slaves[j].addr); }
        }
        if !faulty && cycles_after > 30 + 6 * max_retry as u32 {
            for (j, h) in handles.iter().enumerate() {
                if !m.get_mut(*h).is_running() { fail!("C07: #{} not running {} cycles after faults stopped (slave state {:?})", slaves[j].addr, cycles_after, slaves[j].state); }
            }
        }
    }
    Ok(())
}

fn main() {
    log::set_logger(&LOGGER).unwrap();
    log::set_max_level(log::LevelFilter::Trace);
    std::panic::set_hook(Box::new(|_| {}));
    if let Ok(d) = std::env::var("EXH") {
        let depth: usize = d.parse().unwrap();
        let mut tally: std::collections::BTreeMap<String, (u32, Vec<u8>)> = Default::default();
        let mut count = 0u64;
        let mut script = vec![0u8; depth];
        'outer: loop {
            for seed in [1u64, 2, 3] {
                count += 1;
                let sc = script.clone();
                let r = catch_unwind(AssertUnwindSafe(|| run_case(seed, false, Some(&sc))));
                let msg = match r { Ok(Ok(())) => continue, Ok(Err(e)) => e, Err(e) => format!("PANIC {}", e.downcast_ref::<String>().cloned().or_else(|| e.downcast_ref::<&str>().map(|s| s.to_string())).unwrap_or_default()) };
                let key: String = msg.split(" (").next().unwrap().chars().filter(|c| !c.is_ascii_digit()).collect();
                tally.entry(key).or_insert((0, script.clone())).0 += 1;
            }
            let mut i = 0;
            loop { if i == depth { break 'outer; } script[i] += 1; if script[i] < 6 { break; } script[i] = 0; i += 1; }
        }
        for (k, (n, sc)) in &tally { println!("{n:6} first script {:?}: {k}", sc); }
        println!("exhaustive depth {depth}: runs={count} failing={}", tally.values().map(|v| v.0).sum::<u32>());
        return;
    }
    let cases: u64 = std::env::args().nth(1).map(|s| s.parse().unwrap()).unwrap_or(200);
    let verbose = std::env::args().nth(2).is_some();
    let mut tally: std::collections::BTreeMap<String, (u32, u64)> = Default::default();
    for c in 0..cases {
        let seed = std::env::var("SEED0").map(|s| s.parse().unwrap()).unwrap_or(1000) + c;
        let r = catch_unwind(AssertUnwindSafe(|| run_case(seed, false, None)));
        let msg = match r {
            Ok(Ok(())) => continue,
            Ok(Err(e)) => e,
            Err(e) => format!("PANIC {}", e.downcast_ref::<String>().cloned().or_else(|| e.downcast_ref::<&str>().map(|s| s.to_string())).unwrap_or_default()),
        };
        let key: String = msg.split(" (").next().unwrap().chars().filter(|c| !c.is_ascii_digit()).collect();
        let e = tally.entry(key).or_insert((0, seed));
        e.0 += 1;
    }
    for (k, (n, seed)) in &tally {
        println!("{n:5}  first seed {seed}: {k}");
        if verbose { let _ = run_case(*seed, true, None); }
    }
    println!("cases={cases} failing={}", tally.values().map(|v| v.0).sum::<u32>());
}
