use proptest::prelude::*;
use proptest::test_runner::{Config, RngAlgorithm, TestRng, TestRunner, TestError};
fn main() {
    let mut seed = [0u8; 32];
    seed[..8].copy_from_slice(&42u64.to_le_bytes());
    let cfg = Config { cases: 2000, failure_persistence: None, max_shrink_iters: 100000, ..Config::default() };
    let mut runner = TestRunner::new_with_rng(cfg, TestRng::from_seed(RngAlgorithm::ChaCha, &seed));
    let strat = (0u8..128, proptest::collection::vec(any::<u8>(), 0..40));
    let n = std::cell::Cell::new(0u32);
    let r = runner.run(&strat, |(a, v)| { n.set(n.get() + 1); if v.len() > 7 && a > 100 && v.iter().any(|x| *x > 200) { return Err(TestCaseError::fail("found")); } Ok(()) });
    match r { Ok(()) => println!("ok after {}", n.get()), Err(TestError::Fail(reason, case)) => println!("fail {reason}: minimal case {:?} (closure ran {} times)", case, n.get()), Err(e) => println!("{e:?}") }
    let j = serde_json::json!({"a": 1, "samples": [[1,2],[3]]});
    println!("{}", j);
}
