// Throw-away prototype: C05 — random environment programs against one station with applications; no panic, no hang.
#[path = "../sim.rs"]
mod sim;
use profirust::dp;
use profirust::fdl::live_list::LiveList;
use profirust::fdl::{DataTelegramHeader, FdlActiveStation, FdlApplication, FunctionCode, ParametersBuilder, Telegram, TelegramTx};
use profirust::time::Instant;
use profirust::Baudrate;
use sim::*;
use std::panic::{catch_unwind, AssertUnwindSafe};

struct FmtLogger;
impl log::Log for FmtLogger {
    fn enabled(&self, _: &log::Metadata) -> bool { true }
    fn log(&self, record: &log::Record) { let _ = format!("{}", record.args()); }
    fn flush(&self) {}
}
static LOGGER: FmtLogger = FmtLogger;

fn enc(h: DataTelegramHeader, pdu: &[u8]) -> Vec<u8> {
    let mut b = vec![0u8; 300];
    let n = TelegramTx::new(&mut b).send_data_telegram(h, pdu.len(), |p| p.copy_from_slice(pdu)).bytes_sent();
    b.truncate(n);
    b
}

fn run(seed: u64) -> Result<String, String> {
    let mut rng = Rng(seed);
    let bauds = [Baudrate::B9600, Baudrate::B500000, Baudrate::B1500000, Baudrate::B12000000];
    let baud = bauds[rng.below(4) as usize];
    let hsa = 2 + rng.below(12) as u8;
    let ts = rng.below(hsa as u64) as u8;
    let slot_bits: u16 = match baud { Baudrate::B500000 => 200, Baudrate::B1500000 => 300, Baudrate::B12000000 => 1000, _ => 100 };
    let bus = Bus::new(baud.to_rate(), 2);
    let mut f = FdlActiveStation::new(ParametersBuilder::new(ts, baud).highest_station_address(hsa).slot_bits(slot_bits).gap_wait_rotations(1 + rng.below(3) as u8).max_retry_limit(1 + rng.below(3) as u8).build());
    f.set_online();
    let mut phy = bus.phy(0);
    // applications
    let nper = rng.below(4) as usize;
    let up = [1u8, 2, 3];
    let cfg = [0x11u8, 0x22];
    let mut m = dp::DpMaster::new(vec![]);
    let mut handles = vec![];
    let paddr: Vec<u8> = (0..nper).map(|i| 20 + i as u8 * 5).collect();
    for a in &paddr {
        let opts = dp::PeripheralOptions { ident_number: 0x1234, user_parameters: if rng.below(8) == 0 { None } else { Some(&up) }, config: if rng.below(8) == 0 { None } else { Some(&cfg) }, ..Default::default() };
        let inl = rng.below(4) as usize; let outl = rng.below(4) as usize;
        let p = dp::Peripheral::new(*a, opts, vec![0u8; inl], vec![0u8; outl]);
        handles.push(m.add(if rng.coin_flip() { p.with_diag_buffer(vec![0u8; 1 + rng.below(20) as usize]) } else { p }));
    }
    m.enter_operate();
    let mut ll = LiveList::new();
    let mut sc = dp::scan::DpScanner::new();
    let app_mode = rng.below(5);
    let slot_us = baud.bits_to_time(slot_bits as u32).total_micros() as i64;
    let bit_ns = 1_000_000_000i128 / baud.to_rate() as i128;
    let mut now = 0i64;
    let mut last_own: Option<Vec<u8>> = None;
    let mut handled = 0usize;
    let steps = 3000 + rng.below(3000);
    let adv_pct = [0u64, 1, 3, 10, 40][rng.below(5) as usize];
    let mut pending: Vec<(i64, Vec<u8>)> = vec![];
    let mut states = std::collections::BTreeSet::new();
    for _ in 0..steps {
        // advance time
        now += match rng.below(200) { 0 => slot_us * (1 + rng.below(3) as i64), 1 => slot_us * (6 + 2 * ts as i64 + 1), 2 => 0, _ => 1 + rng.below((slot_us as u64 / 6).max(2)) as i64 };
        { let mut due = vec![]; pending.retain(|(t, d)| if *t <= now { due.push(d.clone()); false } else { true }); for d in due { bus.inject(1, now, &d); } }
        // environment action
        let other = |rng: &mut Rng| -> u8 { match rng.below(6) { 0 => ts, 1 => (ts + 1) % hsa, 2 => (ts + hsa - 1) % hsa, 3 => 200, 4 => paddr.get(rng.below(3) as usize).copied().unwrap_or(9), _ => rng.below(127) as u8 } };
        let act = if rng.below(100) < adv_pct { rng.below(12) } else { 15 };
        let data: Option<Vec<u8>> = match act {
            0 | 1 => { let (a, b) = (other(&mut rng), other(&mut rng)); Some(vec![0xDC, a, b]) }
            2 => Some(vec![0xDC, ts, other(&mut rng)]),
            3 => Some(vec![0xE5]),
            4 => Some(enc(DataTelegramHeader { da: ts, sa: other(&mut rng) & 0x7f, dsap: None, ssap: None, fc: FunctionCode::from_byte(0x49).unwrap() }, &[])),
            5 => Some(enc(DataTelegramHeader { da: ts, sa: other(&mut rng) & 0x7f, dsap: None, ssap: None, fc: FunctionCode::from_byte([0x00u8, 0x10, 0x20, 0x30, 0x03, 0x08][rng.below(6) as usize]).unwrap() }, &[])),
            6 => { // diagnostics reply with random ext diag
                let mut pdu = vec![rng.next() as u8 | 0x08, rng.next() as u8, 0, rng.next() as u8, 0x12, 0x34];
                for _ in 0..rng.below(8) { pdu.push(match rng.below(4) { 0 => 0x00, 1 => 0x40, 2 => 0x80, _ => rng.next() as u8 }); }
                Some(enc(DataTelegramHeader { da: ts, sa: other(&mut rng) & 0x7f, dsap: Some(62), ssap: Some(60), fc: FunctionCode::from_byte(0x08).unwrap() }, &pdu))
            }
            7 => { let len = rng.below(6) as usize; let pdu: Vec<u8> = (0..len).map(|_| rng.next() as u8).collect(); let st = [0x08u8, 0x00, 0x0a, 0x03, 0x01, 0x02, 0x09, 0x0c][rng.below(8) as usize]; Some(enc(DataTelegramHeader { da: ts, sa: other(&mut rng) & 0x7f, dsap: None, ssap: None, fc: FunctionCode::from_byte(st).unwrap() }, &pdu)) }
            8 => Some((0..1 + rng.below(8)).map(|_| rng.next() as u8).collect()),
            9 => last_own.clone().map(|mut v| { let i = rng.below(v.len() as u64) as usize; v[i] ^= 1 << rng.below(8); v }),
            10 => { f.set_offline(); f.set_online(); None }
            11 => { if let Some(h) = handles.get(rng.below(3) as usize) { m.get_mut(*h).request_diagnostics(); } None }
            _ => None,
        };
        if let Some(d) = data {
            // only inject when the station is not transmitting (the bus model records overlaps anyway)
            bus.inject(1, now, &d);
        }
        let t = Instant::from_micros(now);
        match app_mode {
            0 => f.poll(t, &mut phy, &mut ()),
            1 => f.poll(t, &mut phy, &mut m),
            2 => f.poll(t, &mut phy, &mut ll),
            3 => f.poll(t, &mut phy, &mut sc),
            _ => { let mut apps: [&mut dyn FdlApplication; 2] = [&mut m, &mut sc]; f.poll_multi(t, &mut phy, &mut apps) }
        }
        let _ = m.take_last_events();
        let d = format!("{:?}", f);
        if let Some(i) = d.find(", state: ") { states.insert(d[i + 9..].split(|c| c == ' ' || c == ',' || c == '{').next().unwrap().to_string()); }
        let b = bus.0.borrow();
        let mut reactions: Vec<(i64, Vec<u8>)> = vec![];
        while handled < b.trace.len() {
            if b.trace[handled].sender == 0 {
                let t = &b.trace[handled];
                last_own = Some(t.bytes.clone());
                let end = (t.end_ns / 1000) as i64 + 1 + (12 * bit_ns / 1000) as i64;
                match Telegram::deserialize(&t.bytes) {
                    Some(Ok((Telegram::Data(d), _))) => {
                        let coop = rng.below(10) < 8;
                        if let FunctionCode::Request { .. } = d.h.fc {
                            if coop && d.h.da != 0x7f {
                                let r = match (d.h.dsap, d.is_fdl_status_request().is_some()) {
                                    (_, true) => if rng.below(4) == 0 { Some(enc(DataTelegramHeader { da: ts, sa: d.h.da, dsap: None, ssap: None, fc: FunctionCode::from_byte([0x00u8, 0x10, 0x20, 0x30][rng.below(4) as usize]).unwrap() }, &[])) } else { None },
                                    (Some(60), _) => { let mut pdu = vec![if rng.below(4) == 0 { 0x02 } else { 0x00 } | if rng.below(6) == 0 { 0x08 } else { 0 }, 0x04 | if rng.below(8) == 0 { 1 } else { 0 }, 0, ts, 0x12, 0x34]; if pdu[0] & 8 != 0 { for _ in 0..rng.below(6) { pdu.push(rng.next() as u8); } } Some(enc(DataTelegramHeader { da: ts, sa: d.h.da, dsap: Some(62), ssap: Some(60), fc: FunctionCode::from_byte(0x08).unwrap() }, &pdu)) }
                                    (Some(61), _) | (Some(62), _) => Some(if rng.below(8) == 0 { enc(DataTelegramHeader { da: ts, sa: d.h.da, dsap: None, ssap: None, fc: FunctionCode::from_byte(0x03).unwrap() }, &[]) } else { vec![0xE5] }),
                                    (None, _) => { let len = rng.below(4) as usize; Some(if rng.below(6) == 0 { vec![0xE5] } else { enc(DataTelegramHeader { da: ts, sa: d.h.da, dsap: None, ssap: None, fc: FunctionCode::from_byte([0x08u8, 0x08, 0x08, 0x0a, 0x03, 0x00][rng.below(6) as usize]).unwrap() }, &vec![7u8; len]) }) }
                                    _ => None,
                                };
                                if let Some(r) = r { reactions.push((end, r)); }
                            }
                        }
                    }
                    Some(Ok((Telegram::Token(tok), _))) => { if tok.da != ts && rng.below(10) < 6 { reactions.push((end + (40 * bit_ns / 1000) as i64 + rng.below(300) as i64, vec![0xDC, ts, tok.da])); } }
                    _ => {}
                }
            }
            handled += 1;
        }
        drop(b);
        pending.extend(reactions);
        let _ = bit_ns;
    }
    Ok(format!("{}", states.len()))
}

trait Coin { fn coin_flip(&mut self) -> bool; }
impl Coin for Rng { fn coin_flip(&mut self) -> bool { self.next() & 1 == 0 } }

fn main() {
    log::set_logger(&LOGGER).unwrap();
    log::set_max_level(log::LevelFilter::Trace);
    let loc: &'static std::sync::Mutex<String> = Box::leak(Box::new(std::sync::Mutex::new(String::new())));
    std::panic::set_hook(Box::new(move |info| { *loc.lock().unwrap() = info.location().map(|l| format!("{}:{}", l.file(), l.line())).unwrap_or_default(); }));
    let cases: u64 = std::env::args().nth(1).map(|s| s.parse().unwrap()).unwrap_or(2000);
    let seed0: u64 = std::env::args().nth(2).map(|s| s.parse().unwrap()).unwrap_or(1);
    let mut kinds: std::collections::BTreeMap<String, (u32, u64)> = Default::default();
    let mut st_hist = [0u32; 12];
    for c in 0..cases {
        let seed = seed0 * 1_000_000 + c;
        let (tx, rx) = std::sync::mpsc::channel();
        std::thread::spawn(move || { let r = catch_unwind(AssertUnwindSafe(|| run(seed))); let _ = tx.send(r.map_err(|e| e.downcast_ref::<String>().cloned().or_else(|| e.downcast_ref::<&str>().map(|s| s.to_string())).unwrap_or_default())); });
        match rx.recv_timeout(std::time::Duration::from_secs(10)) {
            Ok(Ok(Ok(n))) => { st_hist[n.parse::<usize>().unwrap().min(11)] += 1; }
            Ok(Ok(Err(e))) => { kinds.entry(e).or_insert((0, seed)).0 += 1; }
            Ok(Err(p)) => { let k = format!("PANIC at {}: {}", loc.lock().unwrap(), p.chars().take(120).collect::<String>()); kinds.entry(k).or_insert((0, seed)).0 += 1; }
            Err(_) => { kinds.entry("HANG".into()).or_insert((0, seed)).0 += 1; }
        }
    }
    for (k, (n, s)) in &kinds { println!("{n:6} seed {s}: {k}"); }
    println!("cases={cases} failing classes={} distinct-FDL-states histogram={:?}", kinds.len(), st_hist);
}
