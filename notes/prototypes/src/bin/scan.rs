// Throw-away prototype: C18 oracle — LiveList / DpScanner converge to the responders on the bus.
#[path = "../sim.rs"]
mod sim;
use profirust::dp::scan::{DpScanEvent, DpScanner};
use profirust::fdl::live_list::{LiveList, StationEvent};
use profirust::fdl::{DataTelegramHeader, FdlActiveStation, FunctionCode, ParametersBuilder, Telegram, TelegramTx};
use profirust::time::Instant;
use profirust::Baudrate;
use sim::*;
use std::collections::{BTreeMap, BTreeSet};

struct FmtLogger;
impl log::Log for FmtLogger {
    fn enabled(&self, _: &log::Metadata) -> bool { true }
    fn log(&self, record: &log::Record) { let _ = format!("{}", record.args()); }
    fn flush(&self) {}
}
static LOGGER: FmtLogger = FmtLogger;

struct Counting<A> { inner: A, sent: usize }
impl<A: profirust::fdl::FdlApplication> profirust::fdl::FdlApplication for Counting<A> {
    fn transmit_telegram(&mut self, now: Instant, fdl: &FdlActiveStation, tx: TelegramTx, hp: profirust::fdl::HighPrioOnly) -> Option<profirust::fdl::TelegramTxResponse> {
        let r = self.inner.transmit_telegram(now, fdl, tx, hp);
        if r.is_some() { self.sent += 1; }
        r
    }
    fn receive_reply(&mut self, now: Instant, fdl: &FdlActiveStation, addr: u8, t: Telegram) { self.inner.receive_reply(now, fdl, addr, t) }
    fn handle_timeout(&mut self, now: Instant, fdl: &FdlActiveStation, addr: u8) { self.inner.handle_timeout(now, fdl, addr) }
}

fn enc(h: DataTelegramHeader, pdu: &[u8]) -> Vec<u8> {
    let mut b = vec![0u8; 300];
    let n = TelegramTx::new(&mut b).send_data_telegram(h, pdu.len(), |p| p.copy_from_slice(pdu)).bytes_sent();
    b.truncate(n);
    b
}

fn run(seed: u64, scanner: bool) -> Result<(usize, usize), String> {
    let mut rng = Rng(seed);
    let baud = Baudrate::B1500000;
    let own = rng.below(126) as u8;
    let hsa = (own as u64 + 1 + rng.below(4)).min(126) as u8;
    let bus = Bus::new(baud.to_rate(), 2);
    let mut f = FdlActiveStation::new(ParametersBuilder::new(own, baud).highest_station_address(hsa).slot_bits(300).gap_wait_rotations(1 + rng.below(5) as u8).build());
    f.set_online();
    let mut phy = bus.phy(0);
    let mut ll = Counting { inner: LiveList::new(), sent: 0 };
    let mut sc = Counting { inner: DpScanner::new(), sent: 0 };
    // population phases
    let phases = 1 + rng.below(3) as usize;
    let mut now = 0i64;
    let mut handled = 0usize;
    let mut pending: Vec<(i64, Vec<u8>)> = vec![];
    let mut last_event: BTreeMap<u8, bool> = BTreeMap::new(); // true = currently "found"
    let mut idents: BTreeMap<u8, u16> = BTreeMap::new();
    let mut nevents = 0;
    let mut probes = 0usize;
    for ph in 0..phases {
        let pop: BTreeSet<u8> = (0..rng.below(12)).map(|_| match rng.below(5) { 0 => 0, 1 => 125, _ => rng.below(126) as u8 }).collect();
        let lossy = ph + 1 < phases && rng.below(2) == 0; // replies may be lost except in the final phase
        let sent0 = ll.sent + sc.sent;
        // run until two full sweeps (252 application requests) + margin
        while ll.sent + sc.sent - sent0 < 126 * 2 + 4 {
            now += 17;
            if now > 2_000_000_000 { return Err("timeout".into()); }
            pending.retain(|(t, d)| if *t <= now { bus.inject(1, *t, d); false } else { true });
            if scanner { f.poll(Instant::from_micros(now), &mut phy, &mut sc); } else { f.poll(Instant::from_micros(now), &mut phy, &mut ll); }
            // events
            if scanner {
                match sc.inner.take_last_event() {
                    Some(DpScanEvent::PeripheralFound(d)) => { nevents += 1; if last_event.insert(d.address, true) == Some(true) { return Err(format!("Found twice for {}", d.address)); } idents.insert(d.address, d.ident); }
                    Some(DpScanEvent::PeripheralLost(a)) => { nevents += 1; if last_event.insert(a, false) != Some(true) { return Err(format!("Lost without Found for {a}")); } idents.remove(&a); }
                    Some(DpScanEvent::PeripheralRequery(d)) => { if last_event.get(&d.address) != Some(&true) { return Err("requery of unknown".into()); } idents.insert(d.address, d.ident); }
                    None => {}
                }
            } else {
                match ll.inner.take_last_event() {
                    Some(StationEvent::Discovered(d)) => { nevents += 1; if last_event.insert(d.address, true) == Some(true) { return Err(format!("Discovered twice for {}", d.address)); } }
                    Some(StationEvent::Lost(a)) => { nevents += 1; if last_event.insert(a, false) != Some(true) { return Err(format!("Lost without Discovered for {a}")); } }
                    None => {}
                }
            }
            let b = bus.0.borrow();
            while handled < b.trace.len() {
                let t = &b.trace[handled];
                handled += 1;
                if t.sender != 0 { continue; }
                let end = (t.end_ns / 1000) as i64 + 1;
                if let Some(Ok((Telegram::Data(d), _))) = Telegram::deserialize(&t.bytes) {
                    let is_app = if scanner { d.h.dsap == Some(60) } else { d.is_fdl_status_request().is_some() };
                    if !is_app { continue; }
                    // GAP polls of the FDL itself also are status requests (live list mode): they only go to < HSA; count all
                    if d.h.da > 125 { return Err(format!("probed address {}", d.h.da)); }
                    probes += 1;
                    if pop.contains(&d.h.da) && d.h.da != own && !(lossy && rng.below(4) == 0) {
                        let reply = if scanner {
                            enc(DataTelegramHeader { da: own, sa: d.h.da, dsap: Some(62), ssap: Some(60), fc: FunctionCode::from_byte(0x08).unwrap() }, &[0x02, 0x05, 0x00, 0xff, 0x40, d.h.da])
                        } else {
                            enc(DataTelegramHeader { da: own, sa: d.h.da, dsap: None, ssap: None, fc: FunctionCode::from_byte(0x00).unwrap() }, &[])
                        };
                        pending.push((end + 10, reply));
                    }
                }
            }
        }
        if !lossy {
            let want: BTreeSet<u8> = pop.iter().copied().filter(|a| *a != own).collect();
            let have: BTreeSet<u8> = if scanner { last_event.iter().filter(|(_, v)| **v).map(|(k, _)| *k).collect() } else { ll.inner.iter_stations().collect() };
            if have != want { return Err(format!("phase {ph}: have {:?} want {:?} (own {own}, hsa {hsa})", have, want)); }
            if scanner { for a in &want { if idents.get(a) != Some(&(0x4000 | *a as u16)) { return Err(format!("ident of {a} wrong: {:?}", idents.get(a))); } } }
        }
    }
    Ok((nevents, probes))
}

fn main() {
    log::set_logger(&LOGGER).unwrap();
    log::set_max_level(log::LevelFilter::Trace);
    let cases: u64 = std::env::args().nth(1).map(|s| s.parse().unwrap()).unwrap_or(100);
    let (mut fails, mut ev, mut pr) = (0, 0usize, 0usize);
    for c in 0..cases {
        for scanner in [false, true] {
            match run(3000 + c, scanner) { Ok((e, p)) => { ev += e; pr += p; } Err(e) => { fails += 1; if fails < 8 { println!("seed {} scanner={scanner}: {e}", 3000 + c); } } }
        }
    }
    println!("cases={} fails={fails} events={ev} probes={pr}", cases * 2);
}
