// Throw-away prototype: C17 oracle (diagnostics decoding + ext diag block iteration) through the public DP path.
use profirust::dp::{self, ExtDiagBlock};
use profirust::fdl::{DataTelegramHeader, FdlActiveStation, FdlApplication, FunctionCode, HighPrioOnly, ParametersBuilder, Telegram, TelegramTx};
use profirust::time::Instant;
use profirust::Baudrate;
use std::panic::{catch_unwind, AssertUnwindSafe};

struct FmtLogger;
impl log::Log for FmtLogger {
    fn enabled(&self, _: &log::Metadata) -> bool { true }
    fn log(&self, record: &log::Record) { let _ = format!("{}", record.args()); }
    fn flush(&self) {}
}
static LOGGER: FmtLogger = FmtLogger;

#[derive(Debug, PartialEq)]
enum RefBlock { Ident(Vec<u8>), Channel { module: u8, channel: u8, input: bool, output: bool, dtype: u8, err: u8 }, Device(Vec<u8>) }

fn ref_blocks(b: &[u8]) -> Vec<RefBlock> {
    let mut out = vec![];
    let mut i = 0;
    while i < b.len() {
        let h = b[i];
        match h >> 6 {
            0b01 | 0b00 => {
                let len = (h & 0x3f) as usize;
                if len == 0 || i + len > b.len() { break; }
                let body = b[i + 1..i + len].to_vec();
                out.push(if h >> 6 == 1 { RefBlock::Ident(body) } else { RefBlock::Device(body) });
                i += len;
            }
            0b10 => {
                if i + 3 > b.len() { break; }
                out.push(RefBlock::Channel { module: h & 0x3f, channel: b[i + 1] & 0x3f, input: b[i + 1] & 0x40 != 0, output: b[i + 1] & 0x80 != 0, dtype: b[i + 2] >> 5, err: b[i + 2] & 0x1f });
                i += 3;
            }
            _ => break,
        }
    }
    out
}

fn check(hdr: [u8; 6], ext: &[u8], bufsize: usize) -> Result<(), String> {
    let fdl = FdlActiveStation::new(ParametersBuilder::new(2, Baudrate::B500000).build());
    let mut m = dp::DpMaster::new(vec![]);
    let opts = dp::PeripheralOptions { user_parameters: Some(&[]), config: Some(&[0x10]), ..Default::default() };
    let h = m.add(dp::Peripheral::new(9, opts, vec![0u8; 1], vec![0u8; 0]).with_diag_buffer(vec![0xAAu8; bufsize]));
    m.enter_operate();
    let mut buf = [0u8; 300];
    let now = Instant::ZERO;
    let _gc = m.transmit_telegram(now, &fdl, TelegramTx::new(&mut buf), HighPrioOnly::No).unwrap();
    let _rq = m.transmit_telegram(now, &fdl, TelegramTx::new(&mut buf), HighPrioOnly::No).unwrap();
    let mut pdu = hdr.to_vec();
    pdu.extend_from_slice(ext);
    let mut rb = [0u8; 300];
    let n = TelegramTx::new(&mut rb).send_data_telegram(DataTelegramHeader { da: 2, sa: 9, dsap: Some(62), ssap: Some(60), fc: FunctionCode::from_byte(0x08).unwrap() }, pdu.len(), |p| p.copy_from_slice(&pdu)).bytes_sent();
    let (t, _) = Telegram::deserialize(&rb[..n]).unwrap().unwrap();
    m.receive_reply(now, &fdl, 9, t);
    let p = m.get_mut(h);
    let d = p.last_diagnostics().ok_or("no diagnostics stored")?;
    let flags = u16::from_le_bytes([hdr[0], hdr[1]]) & !0x0400;
    if d.flags.bits() != flags { return Err(format!("flags {:04x} != {:04x}", d.flags.bits(), flags)); }
    if d.ident_number != u16::from_be_bytes([hdr[4], hdr[5]]) { return Err("ident".into()); }
    if d.master_address != if hdr[3] == 255 { None } else { Some(hdr[3]) } { return Err("master".into()); }
    let ext_flag = hdr[0] & 0x08 != 0;
    let raw = d.extended_diagnostics.raw_diag_buffer().ok_or("no buffer")?;
    let stored = ext_flag && ext.len() <= bufsize;
    if stored { if raw != ext { return Err(format!("raw {:02x?} != ext {:02x?}", raw, ext)); } } else if !raw.is_empty() { return Err(format!("raw {:02x?} stored although not expected", raw)); }
    let _dbg = format!("{:?}", d);
    let blocks: Vec<RefBlock> = d.extended_diagnostics.iter_diag_blocks().map(|b| match b {
        ExtDiagBlock::Identifier(bits) => RefBlock::Ident({ let mut v = vec![0u8; bits.len() / 8]; for i in bits.iter_ones() { v[i / 8] |= 1 << (i % 8); } v }),
        ExtDiagBlock::Channel(c) => RefBlock::Channel { module: c.module, channel: c.channel, input: c.input, output: c.output, dtype: { let s = format!("{:?}", c.dtype); match s.as_str() { "Bit" => 1, "Bit2" => 2, "Bit4" => 3, "Byte" => 4, "Word" => 5, "DWord" => 6, _ => 7 } }, err: 0xff },
        ExtDiagBlock::Device(dv) => RefBlock::Device(dv.to_vec()),
    }).collect();
    let want: Vec<RefBlock> = ref_blocks(if stored { ext } else { &[] }).into_iter().map(|b| match b { RefBlock::Channel { module, channel, input, output, dtype, .. } => RefBlock::Channel { module, channel, input, output, dtype: if dtype == 0 { 7 } else { dtype }, err: 0xff }, o => o }).collect();
    if blocks != want { return Err(format!("blocks {:?} != {:?} for ext {:02x?}", blocks, want, ext)); }
    Ok(())
}

fn main() {
    log::set_logger(&LOGGER).unwrap();
    log::set_max_level(log::LevelFilter::Trace);
    std::panic::set_hook(Box::new(|_| {}));
    let mut n = 0u64;
    let mut fails: std::collections::BTreeMap<String, (u64, String)> = Default::default();
    let mut run = |hdr: [u8; 6], ext: Vec<u8>, bufsize: usize, fails: &mut std::collections::BTreeMap<String, (u64, String)>| {
        n += 1;
        let r = catch_unwind(AssertUnwindSafe(|| check(hdr, &ext, bufsize)));
        let msg = match r { Ok(Ok(())) => return, Ok(Err(e)) => e, Err(e) => format!("PANIC {}", e.downcast_ref::<String>().cloned().or_else(|| e.downcast_ref::<&str>().map(|s| s.to_string())).unwrap_or_default()) };
        let key: String = msg.chars().take(30).collect();
        let e = fails.entry(key).or_insert((0, format!("{msg} hdr={:02x?} ext={:02x?} buf={bufsize}", hdr, ext)));
        e.0 += 1;
    };
    let hdr = [0x08, 0x04, 0x00, 0xff, 0x12, 0x34];
    run(hdr, vec![], 8, &mut fails);
    for a in 0..=255u8 { run(hdr, vec![a], 8, &mut fails); for b in 0..=255u8 { run(hdr, vec![a, b], 8, &mut fails); } }
    // first byte x structured tails
    let mut s = 12345u64;
    let mut rnd = || { s = s.wrapping_mul(6364136223846793005).wrapping_add(1442695040888963407); (s >> 33) as u8 };
    for a in 0..=255u8 { for len in 0..12usize { let mut v = vec![a]; for _ in 0..len { v.push(rnd()); } run(hdr, v, 16, &mut fails); } }
    // headers
    for bit in 0..16 { let f = (1u16 << bit).to_le_bytes(); for m in [0u8, 2, 125, 254, 255] { run([f[0], f[1], 0, m, rnd(), rnd()], vec![0x42, 0x01], 4, &mut fails); run([f[0] | 0x08, f[1], 0, m, rnd(), rnd()], vec![0x43, 0x01, 0x02, 0x81, 0x41, 0x21], 4, &mut fails); } }
    for (_, (c, ex)) in &fails { println!("{c:7} {ex}"); }
    println!("cases={n} failing classes={}", fails.len());
}
