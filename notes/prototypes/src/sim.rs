// Throw-away prototype of the bus simulation (design-phase experiment only).
use profirust::phy::ProfibusPhy;
use profirust::time::Instant;
use std::cell::RefCell;
use std::rc::Rc;

#[derive(Clone, Debug)]
pub struct TxRecord {
    pub start_us: i64,
    pub end_ns: i128,
    pub sender: usize,
    pub bytes: Vec<u8>,
    pub collided: bool,
}

pub struct BusInner {
    pub rate: u64,
    pub trace: Vec<TxRecord>,
    // per-station pending bytes (arrival_ns, byte)
    pub rx: Vec<std::collections::VecDeque<(i128, u8)>>,
    pub buf: Vec<Vec<u8>>,
    pub tx_end_ns: Vec<i128>,
    pub collisions: Vec<(i64, usize, usize)>,
    pub drop_next: Vec<bool>, // fault injection: drop next telegram sent by station i
    pub mangle_next: Vec<Option<u64>>, // fault injection: truncate / flip a bit of the next telegram of station i
}

impl BusInner {
    pub fn byte_ns(&self, n: usize) -> i128 {
        (n as i128) * 11 * 1_000_000_000 / (self.rate as i128)
    }
}

#[derive(Clone)]
pub struct Bus(pub Rc<RefCell<BusInner>>);

impl Bus {
    pub fn new(rate: u64, n: usize) -> Self {
        Bus(Rc::new(RefCell::new(BusInner {
            rate,
            trace: vec![],
            rx: vec![Default::default(); n],
            buf: vec![vec![]; n],
            tx_end_ns: vec![i128::MIN; n],
            collisions: vec![],
            drop_next: vec![false; n],
            mangle_next: vec![None; n],
        })))
    }
    pub fn phy(&self, id: usize) -> SimPhy {
        SimPhy { bus: self.clone(), id }
    }
    /// Inject bytes from an external (scripted) sender `id`.
    pub fn inject(&self, id: usize, now_us: i64, data: &[u8]) {
        let mut b = self.0.borrow_mut();
        b.transmit(id, now_us, data.to_vec());
    }
}

impl BusInner {
    fn transmit(&mut self, id: usize, now_us: i64, data: Vec<u8>) {
        if data.is_empty() {
            return;
        }
        let start_ns = (now_us as i128) * 1000;
        let end_ns = start_ns + self.byte_ns(data.len());
        let mut collided = false;
        if let Some(last) = self.trace.last() {
            if last.end_ns > start_ns {
                collided = true;
                self.collisions.push((now_us, last.sender, id));
            }
        }
        self.tx_end_ns[id] = end_ns;
        let dropped = std::mem::replace(&mut self.drop_next[id], false);
        let mut delivered = data.clone();
        if let Some(m) = self.mangle_next[id].take() {
            if m & 1 == 0 { let keep = 1 + (m >> 8) as usize % delivered.len(); delivered.truncate(keep); }
            else { let pos = (m >> 8) as usize % delivered.len(); delivered[pos] ^= 1 << ((m >> 40) % 8); }
        }
        if !dropped {
            for (i, b) in delivered.iter().enumerate() {
                let arr = start_ns + self.byte_ns(i + 1);
                for r in 0..self.rx.len() {
                    if r != id {
                        self.rx[r].push_back((arr, *b));
                    }
                }
            }
        }
        self.trace.push(TxRecord {
            start_us: now_us,
            end_ns,
            sender: id,
            bytes: data,
            collided,
        });
    }
}

pub struct SimPhy {
    pub bus: Bus,
    pub id: usize,
}

impl ProfibusPhy for SimPhy {
    fn poll_transmission(&mut self, now: Instant) -> bool {
        let b = self.bus.0.borrow();
        (now.total_micros() as i128) * 1000 < b.tx_end_ns[self.id]
    }

    fn transmit_data<F, R>(&mut self, now: Instant, f: F) -> R
    where
        F: FnOnce(&mut [u8]) -> (usize, R),
    {
        let mut buffer = vec![0u8; 256];
        let (length, res) = f(&mut buffer);
        buffer.truncate(length);
        self.bus
            .0
            .borrow_mut()
            .transmit(self.id, now.total_micros(), buffer);
        res
    }

    fn receive_data<F, R>(&mut self, now: Instant, f: F) -> R
    where
        F: FnOnce(&[u8]) -> (usize, R),
    {
        let mut b = self.bus.0.borrow_mut();
        let now_ns = (now.total_micros() as i128) * 1000;
        let id = self.id;
        while let Some((arr, byte)) = b.rx[id].front().copied() {
            if arr <= now_ns {
                b.rx[id].pop_front();
                b.buf[id].push(byte);
            } else {
                break;
            }
        }
        let data = std::mem::take(&mut b.buf[id]);
        drop(b);
        let (drop_n, res) = f(&data);
        assert!(drop_n <= data.len());
        let mut b = self.bus.0.borrow_mut();
        b.buf[id] = data[drop_n..].to_vec();
        res
    }
}

pub struct Rng(pub u64);
impl Rng {
    pub fn next(&mut self) -> u64 {
        // splitmix64
        self.0 = self.0.wrapping_add(0x9E3779B97F4A7C15);
        let mut z = self.0;
        z = (z ^ (z >> 30)).wrapping_mul(0xBF58476D1CE4E5B9);
        z = (z ^ (z >> 27)).wrapping_mul(0x94D049BB133111EB);
        z ^ (z >> 31)
    }
    pub fn below(&mut self, n: u64) -> u64 {
        if n == 0 {
            0
        } else {
            self.next() % n
        }
    }
}
