mod sim;
use profirust::fdl::{FdlActiveStation, ParametersBuilder};
use profirust::time::{Duration, Instant};
use profirust::Baudrate;
use sim::*;
use std::panic::{catch_unwind, AssertUnwindSafe};

struct FmtLogger;
impl log::Log for FmtLogger {
    fn enabled(&self, _: &log::Metadata) -> bool {
        true
    }
    fn log(&self, record: &log::Record) {
        use std::fmt::Write;
        let mut s = String::new();
        let _ = write!(s, "{}", record.args());
        if std::env::var("SHOWLOG").is_ok() {
            eprintln!("[{}] {}", record.level(), s);
        }
    }
    fn flush(&self) {}
}
static LOGGER: FmtLogger = FmtLogger;
static ORACLE_FAILS: std::sync::atomic::AtomicUsize = std::sync::atomic::AtomicUsize::new(0);

const BAUDS: [Baudrate; 11] = [
    Baudrate::B9600,
    Baudrate::B19200,
    Baudrate::B31250,
    Baudrate::B45450,
    Baudrate::B93750,
    Baudrate::B187500,
    Baudrate::B500000,
    Baudrate::B1500000,
    Baudrate::B3000000,
    Baudrate::B6000000,
    Baudrate::B12000000,
];

#[derive(Debug, Clone)]
struct Cfg {
    baud: Baudrate,
    addrs: Vec<u8>,
    hsa: u8,
    gap: u8,
    slot_bits: u16,
    period_frac_num: u64, // period = slot_time * num / 64
    start_offsets_us: Vec<i64>,
    sim_slots: u64,
}

fn decode(t: &[u8]) -> String {
    match profirust::fdl::Telegram::deserialize(t) {
        Some(Ok((t, _))) => format!("{:?}", t),
        _ => format!("RAW{:02x?}", t),
    }
}

fn run(cfg: &Cfg, seed: u64, verbose: bool) -> (usize, Option<i64>, bool, i64) {
    let mut rng = Rng(seed);
    let n = cfg.addrs.len();
    let bus = Bus::new(cfg.baud.to_rate(), n + 1);
    let faults = std::env::var("FAULTS").is_ok();
    let mut down = vec![false; n];
    let mut started = vec![false; n];
    let mut st: Vec<(FdlActiveStation, SimPhy, i64)> = vec![];
    for (i, a) in cfg.addrs.iter().enumerate() {
        let p = ParametersBuilder::new(*a, cfg.baud)
            .highest_station_address(cfg.hsa)
            .slot_bits(cfg.slot_bits)
            .gap_wait_rotations(cfg.gap)
            .build();
        let mut f = FdlActiveStation::new(p);
        f.set_online();
        st.push((f, bus.phy(i), cfg.start_offsets_us[i]));
    }
    let slot_us = cfg.baud.bits_to_time(cfg.slot_bits as u32).total_micros() as i64;
    let bit50_us = cfg.baud.bits_to_time(50).total_micros() as i64;
    let period = if cfg.period_frac_num == 0 { ((slot_us - bit50_us) / 3).min(slot_us / 4).max(1) } else { ((slot_us as u64) * cfg.period_frac_num / 64).max(1) as i64 };
    let t_end = slot_us * cfg.sim_slots as i64;
    let mut converged_at: Option<i64> = None;
    let mut sorted = cfg.addrs.clone();
    sorted.sort();
    let mut now;
    let mut last_check = 0;
    loop {
        // pick station with min next poll
        let (idx, _) = st.iter().enumerate().min_by_key(|(_, s)| s.2).unwrap();
        now = st[idx].2;
        if now > t_end {
            break;
        }
        // fault phase
        if faults && now > t_end / 4 && now < t_end / 2 {
            match rng.below(400) {
                0..=7 => { let k = rng.below(n as u64) as usize; bus.0.borrow_mut().drop_next[k] = true; }
                8 => { let k = rng.below(n as u64) as usize; if !down[k] { down[k] = true; st[k].0.set_offline(); } }
                9 | 10 => { let k = rng.below(n as u64) as usize; if down[k] { down[k] = false; { let mut b = bus.0.borrow_mut(); b.rx[k].clear(); b.buf[k].clear(); } st[k].0.set_online(); } }
                12..=19 => { let k = rng.below(n as u64) as usize; let m = rng.next(); bus.0.borrow_mut().mangle_next[k] = Some(m); }
                11 => { // garbage burst from a phantom sender (collision-like noise)
                    let g: Vec<u8> = (0..1 + rng.below(6)).map(|_| rng.next() as u8).collect();
                    bus.inject(n, now, &g);
                }
                _ => {}
            }
        }
        if faults && now >= t_end / 2 {
            for k in 0..n { if down[k] { down[k] = false; { let mut b = bus.0.borrow_mut(); b.rx[k].clear(); b.buf[k].clear(); } st[k].0.set_online(); } }
        }
        if !started[idx] {
            // a station that was off until now has an empty UART: drop bytes that arrived before
            started[idx] = true;
            let mut b = bus.0.borrow_mut();
            let now_ns = (now as i128) * 1000;
            b.rx[idx].retain(|(arr, _)| *arr > now_ns);
            b.buf[idx].clear();
        }
        let (f, phy, next) = &mut st[idx];
        f.poll(Instant::from_micros(now), phy, &mut ());
        // jittered period: uniformly in [1, period]
        *next = if std::env::var("FIXED").is_ok() { now + period } else { now + 1 + rng.below(period as u64) as i64 };
        if now - last_check > slot_us {
            last_check = now;
            let ok = st.iter().all(|(f, _, _)| {
                f.is_in_ring()
                    && f.inspect_token_ring().iter_active_stations().collect::<Vec<_>>() == sorted
            });
            if ok {
                if converged_at.is_none() {
                    converged_at = Some(now);
                }
            } else {
                if converged_at.is_some() && verbose {
                    println!("   lost agreement at {}", now);
                }
                converged_at = None;
            }
        }
    }
    let b = bus.0.borrow();
    if verbose {
        for t in b.trace.iter().rev().take(60).rev() {
            println!(
                "  {:>10} #{} {}{}",
                t.start_us,
                cfg.addrs[t.sender],
                decode(&t.bytes),
                if t.collided { "  <== COLLISION" } else { "" }
            );
        }
    }
    if let Err(e) = c01_oracle(cfg, &b.trace) { println!("   C01 ORACLE: {e} cfg={:?}", cfg); ORACLE_FAILS.fetch_add(1, std::sync::atomic::Ordering::Relaxed); }
    if converged_at.is_none() {
        for (i, (f, _, _)) in st.iter().enumerate() {
            println!("   NONCONV station #{}: conn={:?} in_ring={} las={:?}", cfg.addrs[i], f.connectivity_state(), f.is_in_ring(), f.inspect_token_ring().iter_active_stations().collect::<Vec<_>>());
        }
    }
    let final_ok = converged_at.is_some();
    (b.collisions.len(), converged_at, final_ok, slot_us)
}


fn c01_oracle(cfg: &Cfg, trace: &[TxRecord]) -> Result<(), String> {
    use profirust::fdl::{FunctionCode, Telegram};
    let n = cfg.addrs.len();
    let bit_ns = |b: i128| b * 1_000_000_000 / cfg.baud.to_rate() as i128;
    let mut owner: Option<usize> = None;
    for (i, t) in trace.iter().enumerate() {
        if t.sender >= n { continue; }
        let x = t.sender;
        let start_ns = (t.start_us as i128) * 1000;
        let prev = if i > 0 { Some(&trace[i - 1]) } else { None };
        let dec = Telegram::deserialize(&t.bytes).and_then(|r| r.ok()).map(|(t, _)| t);
        let Some(dec) = dec else { return Err(format!("undecodable tx by #{}", cfg.addrs[x])); };
        let gap = prev.map(|p| start_ns - p.end_ns);
        if let Some(p) = prev { if p.end_ns > start_ns { return Err(format!("overlap at {}", t.start_us)); } }
        let silence_since = prev.map(|p| p.end_ns).unwrap_or(i128::MIN).max((cfg.start_offsets_us[x] as i128) * 1000);
        let tl_ns = bit_ns(cfg.slot_bits as i128 * (6 + 2 * cfg.addrs[x] as i128));
        match &dec {
            Telegram::Token(tok) => {
                if let Some(g) = gap { if g < bit_ns(33) - 1000 { return Err(format!("token by #{} only {} ns after previous telegram (need {})", cfg.addrs[x], g, bit_ns(33))); } }
                let is_owner = owner == Some(x);
                let retry = prev.map(|p| p.sender == x && p.bytes[0] == 0xDC).unwrap_or(false);
                let claim = tok.da == tok.sa && start_ns - silence_since >= tl_ns - 2000;
                if !(is_owner || retry || claim) { return Err(format!("token {:?} by #{} without right (owner {:?}) at {}", tok, cfg.addrs[x], owner.map(|o| cfg.addrs[o]), t.start_us)); }
                owner = cfg.addrs.iter().position(|a| *a == tok.da);
            }
            Telegram::Data(d) => match d.h.fc {
                FunctionCode::Request { .. } => {
                    if let Some(g) = gap { if g < bit_ns(33) - 1000 { return Err(format!("request by #{} only {} ns after previous", cfg.addrs[x], g)); } }
                    if owner != Some(x) { return Err(format!("request by #{} without token (owner {:?}) at {}", cfg.addrs[x], owner.map(|o| cfg.addrs[o]), t.start_us)); }
                }
                FunctionCode::Response { .. } => {
                    if let Some(g) = gap { if g < bit_ns(11) - 1000 { return Err(format!("reply by #{} only {} ns after request", cfg.addrs[x], g)); } }
                    let ok = prev.and_then(|p| Telegram::deserialize(&p.bytes).and_then(|r| r.ok())).map(|(p, _)| match p { Telegram::Data(pd) => matches!(pd.h.fc, FunctionCode::Request { .. }) && pd.h.da == cfg.addrs[x] && pd.h.sa == d.h.da, _ => false }).unwrap_or(false);
                    if !ok { return Err(format!("unsolicited reply by #{} at {}", cfg.addrs[x], t.start_us)); }
                }
            },
            Telegram::ShortConfirmation(_) => return Err("SC from active station".into()),
        }
    }
    Ok(())
}

fn gen_cfg(rng: &mut Rng, frac: u64) -> Cfg {
    let baud = BAUDS[rng.below(11) as usize];
    let n = 2 + rng.below(4) as usize;
    let hsa = (n as u64 + 1 + rng.below(40)).min(126) as u8;
    let mut addrs: Vec<u8> = vec![];
    while addrs.len() < n {
        let a = match rng.below(6) {
            0 => hsa - 1,
            1 => 0,
            2 if !addrs.is_empty() => (addrs[0] + hsa - 1) % hsa,
            3 if !addrs.is_empty() => (addrs[0] + 1) % hsa,
            _ => rng.below(hsa as u64) as u8,
        };
        if !addrs.contains(&a) {
            addrs.push(a);
        }
    }
    let min_slot = match baud {
        Baudrate::B500000 => 200,
        Baudrate::B1500000 => 300,
        Baudrate::B3000000 => 400,
        Baudrate::B6000000 => 600,
        Baudrate::B12000000 => 1000,
        _ => 100,
    };
    let slot_bits = min_slot + (rng.below(3) * rng.below(300)) as u16;
    let slot_us_g = baud.bits_to_time(slot_bits as u32).total_micros();
    let min_addr = *addrs.iter().min().unwrap() as u64;
    let mut start_offsets_us: Vec<i64> = (0..n).map(|_| rng.below((slot_us_g / 2).max(1)) as i64).collect();
    // late joiners: go online well after the first claim
    let first = rng.below(n as u64) as usize;
    for k in 0..n {
        if k != first && rng.below(3) == 0 {
            start_offsets_us[k] = ((8 + 2 * 126 + rng.below(3000)) * slot_us_g) as i64;
            let _ = min_addr;
        }
    }
    Cfg {
        baud,
        addrs,
        hsa,
        gap: 1 + rng.below(10) as u8,
        slot_bits,
        period_frac_num: frac,
        start_offsets_us,
        sim_slots: 6000,
    }
}

fn main() {
    log::set_logger(&LOGGER).unwrap();
    log::set_max_level(log::LevelFilter::Trace);
    let args: Vec<String> = std::env::args().collect();
    let frac: u64 = args.get(1).map(|s| s.parse().unwrap()).unwrap_or(4);
    let cases: u64 = args.get(2).map(|s| s.parse().unwrap()).unwrap_or(100);
    let seed0: u64 = args.get(3).map(|s| s.parse().unwrap()).unwrap_or(1);
    let verbose = args.get(4).is_some();
    std::panic::set_hook(Box::new(|_| {}));
    let mut rng = Rng(seed0);
    let (mut n_coll, mut n_noconv, mut n_panic) = (0, 0, 0);
    for c in 0..cases {
        let cfg = gen_cfg(&mut rng, frac);
        let seed = rng.next();
        let r = catch_unwind(AssertUnwindSafe(|| run(&cfg, seed, false)));
        match r {
            Ok((coll, conv, ok, slot_us)) => {
                if coll > 0 {
                    n_coll += 1;
                }
                if !ok {
                    n_noconv += 1;
                }
                if coll > 0 || !ok || verbose {
                    println!(
                        "case {c}: coll={coll} conv_at={:?} slots ok={ok} cfg={:?}",
                        conv.map(|c| c / slot_us),
                        cfg
                    );
                    if verbose {
                        let _ = catch_unwind(AssertUnwindSafe(|| run(&cfg, seed, true)));
                    }
                }
            }
            Err(e) => {
                n_panic += 1;
                let msg = e
                    .downcast_ref::<String>()
                    .cloned()
                    .or_else(|| e.downcast_ref::<&str>().map(|s| s.to_string()))
                    .unwrap_or_default();
                println!("case {c}: PANIC {msg} cfg={:?}", cfg);
            }
        }
    }
    println!("cases={cases} collisions={n_coll} nonconverged={n_noconv} panics={n_panic} oracle_fails={}", ORACLE_FAILS.load(std::sync::atomic::Ordering::Relaxed));
}
