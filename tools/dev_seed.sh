#!/bin/bash
# dev_seed.sh <seed dir under /tmp/seed/.../out/n or /verif/seeded/X> [quick|thorough] <ID>: like run_seed.sh but in the
# development copy of tools/devcopy.sh (/tmp/dev), for trying things while /repo is busy.
p="$1"; tier="${2:-quick}"; id="$3"
[ -f "$p/patch.diff" ] || p="/verif/seeded/$1"
git -C /tmp/dev/repo diff --quiet || { echo "dev repo dirty"; exit 3; }
git -C /tmp/dev/repo apply "$p/patch.diff" || exit 3
cd /tmp/dev/verif/harness && CARGO_TARGET_DIR=/tmp/dev/target cargo build --release --offline -q 2>/dev/null
cd /tmp/dev/verif
s=$(date +%s)
out=$(PBVERIF_NO_REGRESS=1 /tmp/dev/target/release/pbcheck $id $tier 2>/dev/null); rc=$?
e=$(date +%s)
git -C /tmp/dev/repo checkout -q -- .
(cd /tmp/dev/verif/harness && CARGO_TARGET_DIR=/tmp/dev/target cargo build --release --offline -q 2>/dev/null)
echo "$(basename $(dirname $p))/$(basename $p) vs $id $tier: exit $rc in $((e-s)) s"
echo "$out" | grep -A1 "^VIOLATION" | head -2 | cut -c1-300
rm -rf /tmp/dev/verif/replays
