#!/bin/bash
# with_revert.sh <commit-ish in /repo> <command...>: temporarily revert one commit in /repo's working tree
c="$1"; shift
git -C /repo diff --quiet || { echo "/repo dirty" >&2; exit 3; }
if ! git -C /repo revert --no-commit "$c" >/dev/null 2>&1; then
  git -C /repo revert --abort 2>/dev/null; git -C /repo reset -q --hard HEAD
  echo "revert of $c does not apply cleanly" >&2; exit 3
fi
"$@"; rc=$?
git -C /repo revert --abort 2>/dev/null || git -C /repo reset -q --hard HEAD
git -C /repo checkout -q -- . ; git -C /repo status --short | head
exit $rc
