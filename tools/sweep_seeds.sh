#!/bin/bash
# sweep_seeds.sh: run every seeded change against the quick check of its property (and, for the two
# that are only caught by a neighbouring property, against that one); result in seeded/SWEEP.txt.
cd /verif
out=seeded/SWEEP.txt
# with arguments: only those seeds, appended to the existing result
if [ $# -gt 0 ]; then list=""; for a in "$@"; do list="$list seeded/$a/"; done; else list=$(ls -d seeded/C*-*/); : > $out; fi
for d in $list; do
  s=$(basename $d); id=${s%%-*}
  r=$(tools/run_seed.sh $s quick 2>&1 | head -3 | tr '\n' ' ' | cut -c1-260)
  echo "$r" >> $out
  case "$r" in *"exit 0"*)
    alt=""; [ "$s" = "C01-4" ] && alt=C12; [ "$s" = "C06-4" ] && alt=C11; [ "$s" = "C01-6" ] && alt=C11; [ "$s" = "C09-6" ] && alt=C03; [ "$s" = "C01-7" ] && alt=C16; [ "$s" = "C15-8" ] && alt=C06; [ "$s" = "C02-9" ] && alt=C11; [ "$s" = "C06-9" ] && alt=C11; [ "$s" = "C04-7" ] && alt=C15; [ "$s" = "C02-11" ] && alt=C01; [ "$s" = "C05-12" ] && alt=C10; [ "$s" = "C06-12" ] && alt=C12; [ "$s" = "C07-10" ] && alt=C08; [ "$s" = "C06-2" ] && alt=C01; [ "$s" = "C12-15" ] && alt=C11; [ "$s" = "C16-16" ] && alt=C10; [ "$s" = "C06-13" ] && alt=C18; [ "$s" = "C06-14" ] && alt=C11; [ "$s" = "C18-13" ] && alt=C15; [ "$s" = "C20-12" ] && alt=C19
    [ -n "$alt" ] && tools/run_seed.sh $s quick $alt 2>&1 | head -3 | tr '\n' ' ' | cut -c1-260 >> $out && echo >> $out;;
  esac
done
rm -rf replays
grep -c "exit 1" $out; grep "exit 0" $out
