#!/bin/bash
# dev_sweep.sh <root> <ID>...: one part of the final sweep of seeded changes in a scratch copy, so that several
# parts can run side by side: <root>/verif = copy of /verif, <root>/repo = clean worktree of /repo HEAD,
# <root>/target = build output.  Every seeded change of the given properties is applied to <root>/repo, the
# quick check of its property (and, where that stays silent, the neighbouring check named in the alt map of
# tools/sweep_seeds.sh) is run with the generators only (PBVERIF_NO_REGRESS=1), and the patch is undone.
# Result lines in <root>/sweep.txt.  Remove with: git -C /repo worktree remove --force <root>/repo; rm -rf <root>
root="$1"; shift
mkdir -p "$root"
[ -d "$root/repo" ] || git -C /repo worktree add --detach "$root/repo" HEAD >/dev/null 2>&1
rsync -a --delete --exclude target --exclude replays --exclude 'fuzz/work' --exclude .git /verif/ "$root/verif/"
sed -i "s#\"/repo#\"$root/repo#g" "$root/verif/harness/Cargo.toml"
export CARGO_TARGET_DIR="$root/target" CARGO_NET_OFFLINE=true
out="$root/sweep.txt"; : > "$out"
altmap=$(grep -o '\[ "\$s" = "[^"]*" \] && alt=C[0-9]*' /verif/tools/sweep_seeds.sh)
one() { # seed id
  local s="$1" id="$2"
  git -C "$root/repo" diff --quiet || { echo "$s: scratch repo dirty" >> "$out"; return; }
  git -C "$root/repo" apply "/verif/seeded/$s/patch.diff" || { echo "$s: patch does not apply" >> "$out"; return; }
  (cd "$root/verif/harness" && cargo build --release --offline -q 2>/dev/null) || { echo "$s vs $id quick: exit 2 (build failed)" >> "$out"; git -C "$root/repo" checkout -q -- .; return; }
  cd "$root/verif"
  local o rc
  o=$(PBVERIF_NO_REGRESS=1 "$root/target/release/pbcheck" "$id" quick 2>/dev/null); rc=$?
  git -C "$root/repo" checkout -q -- .
  echo "$s vs $id quick: exit $rc (scratch worktree) $(echo "$o" | grep -A1 '^VIOLATION' | head -2 | tr '\n' ' ' | sed 's# replay=[^ ]*##' | cut -c1-240)" >> "$out"
  rm -rf "$root/verif/replays"
  return $rc
}
for id in "$@"; do
  for d in $(ls -d /verif/seeded/$id-* | sort -t- -k2 -n); do
    s=$(basename "$d")
    one "$s" "$id"
    if [ $? = 0 ]; then
      alt=$(echo "$altmap" | grep "\"$s\"" | sed 's/.*alt=//')
      [ -n "$alt" ] && one "$s" "$alt"
    fi
  done
done
(cd "$root/verif/harness" && cargo build --release --offline -q 2>/dev/null)
echo "finished" >> "$out"
