#!/bin/bash
# confirm_seed.sh <ID> <n>: independently confirm a seeded defect delivered in /tmp/seed/<ID>/out/<n>/
# (demo passes on clean HEAD; with patch: builds, full unedited suite passes, demo fails) and store it in /verif/seeded/<ID>-<n>/
id="$1"; n="$2"; src="/tmp/seed/$id/out/$n"
# optional 3rd argument: name under /verif/seeded (default <ID>-<n>)
name="${3:-$id-$n}"
[ -f "$src/patch.diff" ] || { echo "$id-$n: no patch"; exit 1; }
wt="/tmp/confirm/$id-$n"
rm -rf "$wt"; mkdir -p /tmp/confirm
git -C /repo worktree prune
git -C /repo worktree add -f "$wt" HEAD >/dev/null 2>&1 || { echo "$id-$n: worktree failed"; exit 1; }
place=$(head -1 "$src/PLACE" | tr -d '\r\n ')
demo=$(ls "$src" | grep -E '\.rs$' | head -1)
tname=$(basename "$place" .rs)
cd "$wt"
pkg=""; case "$place" in gsd-parser/*) pkg="-p gsd-parser";; esac
export CARGO_NET_OFFLINE=true CARGO_TARGET_DIR=/tmp/confirm/target
mkdir -p "$wt/$(dirname "$place")"; cp "$src/$demo" "$wt/$place"
base_demo=$(cargo test --offline $pkg --test "$tname" 2>&1 | grep -E "^test result|^error" | tail -1)
rm "$wt/$place"
git apply "$src/patch.diff" || { echo "$id-$n: patch does not apply"; git -C /repo worktree remove --force "$wt"; exit 1; }
suite_out=$(cargo test --workspace --no-fail-fast --offline 2>&1)
suite_fail=$(echo "$suite_out" | grep -cE "^test .* FAILED|^error(\[|:)")
suite_pass=$(echo "$suite_out" | grep -E "^test result: ok" | sed 's/.*ok. \([0-9]*\) passed.*/\1/' | paste -sd+ | bc)
cp "$src/$demo" "$wt/$place"
mut_demo=$(cargo test --offline $pkg --test "$tname" 2>&1 | grep -E "^test result|^error: test failed" | tail -1)
echo "$id-$n base_demo: $base_demo"
echo "$id-$n mutant suite: $suite_pass passed, $suite_fail failures"
echo "$id-$n mutant demo: $mut_demo"
ok=1
echo "$base_demo" | grep -q "test result: ok" || ok=0
echo "$mut_demo" | grep -qE "FAILED|test failed" || ok=0
[ "$suite_fail" = "0" ] || ok=0
cd /; git -C /repo worktree remove --force "$wt"
if [ $ok = 1 ]; then
  d="/verif/seeded/$name"; mkdir -p "$d"; cp "$src/patch.diff" "$d/"; cp "$src/$demo" "$d/"; cp "$src/PLACE" "$d/"; cp "$src/README.md" "$d/README.md"
  echo "$base_demo | suite with patch: $suite_pass passed, $suite_fail failed | demo with patch: $mut_demo" > "$d/CONFIRMED.txt"
  echo "$name CONFIRMED"
else
  echo "$name NOT CONFIRMED"
fi
