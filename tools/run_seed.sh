#!/bin/bash
# run_seed.sh <ID>-<n> [quick|thorough] [other property id]: apply the seeded patch to /repo, run the check, undo.
s="$1"; tier="${2:-quick}"; id="${3:-${s%%-*}}"
p="/verif/seeded/$s/patch.diff"
git -C /repo diff --quiet || { echo "/repo dirty" >&2; exit 3; }
git -C /repo apply "$p" || exit 3
cd /verif
start=$(date +%s)
out=$(PBVERIF_NO_REGRESS=1 ./check "$id" "$tier" 2>/dev/null); rc=$?
end=$(date +%s)
git -C /repo checkout -q -- . ; git -C /repo status --short | head -3
echo "$s vs $id $tier: exit $rc in $((end-start)) s"
echo "$out" | grep -A1 "^VIOLATION" | head -2 | cut -c1-260
rm -rf /verif/replays/$id
exit $rc
