#!/opt/veriftools/pyvenv/bin/python
"""Regenerates /verif/MANIFEST.json from tools/checks.json (one entry per claimed property)."""
import json, subprocess, sys
props=[json.loads(l) for l in open('/verif/properties.jsonl')]
checks=json.load(open('/verif/tools/checks.json'))
hooks=json.load(open('/verif/tools/hooks.json'))
claimed={c['property_id'] for c in checks['checks']}
out={"version":1,
 "setup_cmd": checks['setup_cmd'],
 "hooks": hooks,
 "engines": checks['engines'],
 "checks": [],
 "notes": checks['notes'],
 "not_applicable": []}
for c in checks['checks']:
    pid=c['property_id']
    out['checks'].append({
        "property_id": pid,
        "quick_cmd": f"./check {pid} quick",
        "thorough_cmd": f"./check {pid} thorough",
        "evidence_file": f"/verif/evidence/{pid}.json",
        "replay_cmd_template": f"./check {pid} --replay {{path}}",
        "engine": c.get('engine','pbverif'),
        "level_claimed": {"category":"exploration","text":c['text'],"design_ref":c['design_ref']},
        "level_note": c['note'],
        "technique": c['technique'],
    })
for p in props:
    if p['id'] not in claimed:
        out['not_applicable'].append({"property_id":p['id'],"reason":checks['pending'].get(p['id'],"check not built yet (implementation in progress; DESIGN.md section 6 describes the planned check)")})
import jsonschema
jsonschema.validate(out,json.load(open('/root/.vp/MANIFEST.schema.json')))
json.dump(out,open('/verif/MANIFEST.json','w'),indent=1)
print("MANIFEST.json:",len(out['checks']),"checks,",len(out['not_applicable']),"not claimed")
