#!/bin/bash
# Regenerates /verif/regress/<ID>/<finding>-*.json: for every repaired finding the fix commit is
# reverted in /repo's working tree, the owning check is run (generators only) until it reports the
# violation, and the shrunk replay file is stored as a regression case.  Needed again whenever a
# generator changes (tape-based replay files are tied to the decoder that reads them).
cd /verif
list="b2b9a4d:C05:F3 e093397:C05:F2 c151005:C02:F1 c151005:C05:F1 c151005:C12:F1 e801e73:C14:F4skip 226a9fd:C14:F11 226a9fd:C05:F11 b5397c6:C08:F6 b5397c6:C07:F6 578f66e:C08:F10 6a77f80:C17:F5 6a77f80:C05:F5 f48990e:C17:F12 f48990e:C05:F12 1c18886:C10:F7 f22bd16:C20:F9c 5dd8673:C20:F9a ece61dd:C19:F8 9ba2974:C04:F14 46a3e88:C06:F15 e81ad2f:C06:F16 e81ad2f:C11:F16 a9712ef:C18:F17"
for item in $list; do
  c=${item%%:*}; rest=${item#*:}; id=${rest%%:*}; tag=${rest#*:}
  case "$tag" in *skip) continue;; esac
  [ -n "$ONLY" ] && [ "$ONLY" != "$id" ] && continue
  rm -rf replays/$id
  tier=quick; [ "$tag" = "F16" ] && [ "$id" = "C06" ] && tier=thorough
  out=$(PBVERIF_NO_REGRESS=1 tools/with_revert.sh $c ./check $id $tier 2>/dev/null | grep "^VIOLATION" | head -1)
  f=$(echo "$out" | sed 's/.*replay=//')
  if [ -n "$f" ] && [ -f "$f" ]; then
    mkdir -p regress/$id; rm -f regress/$id/$tag-*.json
    cp "$f" regress/$id/$tag-$(basename $f); echo "$tag $id ok"
  else
    echo "$tag $id NOT REPRODUCED ($tier)"
  fi
done
rm -rf replays
