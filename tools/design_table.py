#!/usr/bin/env python3
"""Prints the per-check table of DESIGN.md section 11.1 from /verif/evidence/*.json."""
import json, glob, os
rows = []
for f in sorted(glob.glob(os.path.join(os.path.dirname(__file__), '..', 'evidence', 'C*.json'))):
    e = json.load(open(f))
    c = e['coverage']
    subs = []
    for s in c.get('sub_checks', []):
        subs.append("%s %d%s" % (s['sub_check'], s['evaluations'], ' (exh.)' if s.get('exhaustive') else ''))
    rows.append("| %s | %s | %d | %d | %.0f s | %s |" % (e['property_id'], e['tier'], c['evaluations'], c['distinct_nontrivial'], e['wall_s'], '; '.join(subs)))
print("| id | tier | cases | distinct non-trivial | wall | sub-checks (cases; exh. = enumerated completely) |")
print("|----|------|------:|---------------------:|-----:|---|")
print("\n".join(rows))
