#!/usr/bin/env python3
"""subst.py FILE <<< python-literal list of (old,new) pairs; each old must occur exactly once."""
import sys,ast
path=sys.argv[1]
pairs=ast.literal_eval(sys.stdin.read())
s=open(path).read()
for old,new in pairs:
    assert s.count(old)==1,(s.count(old),old[:60])
    s=s.replace(old,new)
open(path,'w').write(s)
