#!/bin/bash
# with_patch.sh <patch file> <command...>: temporarily apply a patch to /repo's working tree
p="$1"; shift
git -C /repo diff --quiet || { echo "/repo dirty" >&2; exit 3; }
git -C /repo apply "$p" || exit 3
"$@"; rc=$?
git -C /repo checkout -q -- . ; git -C /repo status --short | head
exit $rc
