#!/bin/bash
# devcopy.sh: development aid - a scratch copy of /verif (without build output) under /tmp/dev/verif that
# builds against a clean worktree of /repo at /tmp/dev/repo, so that checks can be tried while /repo
# itself is busy (seed sweeps).  Remove with: git -C /repo worktree remove --force /tmp/dev/repo; rm -rf /tmp/dev
mkdir -p /tmp/dev
[ -d /tmp/dev/repo ] || git -C /repo worktree add --detach /tmp/dev/repo HEAD >/dev/null 2>&1
rsync -a --delete --exclude target --exclude replays --exclude 'fuzz/work' /verif/ /tmp/dev/verif/ --exclude .git
sed -i 's#"/repo#"/tmp/dev/repo#g' /tmp/dev/verif/harness/Cargo.toml
cd /tmp/dev/verif/harness && CARGO_TARGET_DIR=/tmp/dev/target cargo build --release --offline -q 2>&1 | grep -E "^error" -A8 | head -20
echo "run: cd /tmp/dev/verif && /tmp/dev/target/release/pbcheck <ID> quick"
