#!/opt/veriftools/pyvenv/bin/python
import json,sys,glob,jsonschema
s=json.load(open('/root/.vp/EVIDENCE.schema.json'))
for f in sorted(glob.glob('/verif/evidence/*.json')):
    try:
        e=json.load(open(f)); jsonschema.validate(e,s)
        c=e['coverage']; print(f.split('/')[-1],'ok',e['tier'],c['evaluations'],c['distinct_nontrivial'],'samples',len(c['samples']),'wall',round(e['wall_s'],1))
    except Exception as ex:
        print(f,'INVALID',str(ex)[:200])
