//! Full-stack DP driver: one real FdlActiveStation + DpMaster on the SimBus with reference slaves
//! as virtual nodes.  The real FDL reply filter, slot timing and token handling are in the loop.
//! The same oracles as for the application-level driver observe it (requests from the bus trace,
//! deliveries = first telegram completed on the bus after the request, events after every poll).

use crate::dpdrv::*;
use crate::engine::{Failure, Obs, SplitMix, Tape};
use crate::refcodec::{self as rc, RefFrame};
use crate::ringsim::{Event, RingCfg, Schedule, Sim, StationCfg, VirtualNode};
use crate::simbus::TxRecord;
use profirust::dp;
use profirust::fdl::{FdlActiveStation, FdlApplication, HighPrioOnly, Telegram, TelegramTx, TelegramTxResponse};
use profirust::time::Instant;
use std::cell::RefCell;
use std::rc::Rc;

#[derive(Clone, Debug, PartialEq, Eq, Hash)]
pub enum WireAct {
    Ok,
    /// the slave never sees the request
    RequestLost,
    /// the slave executes the request, the reply is lost
    ReplyLost,
    /// the reply is replaced (same variants as in the application-level driver)
    Replaced(Replace),
    /// a response of the right shape but from another station's address
    WrongSource,
    /// a response from the right station addressed to somebody else
    WrongDest,
    /// a request-type telegram instead of a response
    RequestInstead,
    PowerCycle,
    /// the slave executes the request, its reply is cut off after this many bytes (at least one,
    /// at most all but one); a reply of a single byte is lost instead
    Truncated(u8),
    /// the slave executes the request, one bit of the frame check byte of its reply is inverted (the
    /// damage shows only at the end of the telegram); a reply of a single byte is lost instead
    Damaged(u8),
}

pub fn gen_wire_act(t: &mut Tape) -> WireAct {
    match t.weighted(&[12, 3, 3, 4, 2, 2, 1, 1]) {
        0 => WireAct::Ok,
        1 => WireAct::RequestLost,
        2 => WireAct::ReplyLost,
        3 => match gen_act(t, true) {
            Act::Replaced(r) => WireAct::Replaced(r),
            _ => WireAct::Replaced(Replace::Status(0x03, 0)),
        },
        4 => WireAct::WrongSource,
        5 => WireAct::WrongDest,
        6 => WireAct::RequestInstead,
        _ => WireAct::PowerCycle,
    }
}

pub struct SlaveBank {
    pub slaves: Rc<RefCell<Vec<RefSlave>>>,
    pub script: Rc<RefCell<Vec<WireAct>>>,
    pub pos: Rc<RefCell<usize>>,
    pub master_addr: u8,
    pub in_lens: Vec<usize>,
    pub idents: Vec<u16>,
    pub delay_bits: Vec<u64>,
    pub bit_ns_x1000: i64,
    pub jit: SplitMix,
}

impl VirtualNode for SlaveBank {
    fn on_telegram(&mut self, _rec: &TxRecord, frame: Option<&RefFrame>, _own: usize) -> Vec<(i64, Vec<u8>)> {
        let Some(req @ RefFrame::Data { da, fc, .. }) = frame else { return vec![] };
        if !rc::fc_is_request(*fc) || !rc::request_expects_reply(*fc) {
            return vec![];
        }
        let mut slaves = self.slaves.borrow_mut();
        let Some(k) = slaves.iter().position(|s| s.addr == *da) else { return vec![] };
        let act = {
            let mut p = self.pos.borrow_mut();
            let a = self.script.borrow().get(*p).cloned().unwrap_or(WireAct::Ok);
            *p += 1;
            a
        };
        let ma = self.master_addr;
        let addr = *da;
        let mut reply: Vec<u8> = match &act {
            WireAct::RequestLost => return vec![],
            WireAct::PowerCycle => {
                slaves[k].power_cycle();
                slaves[k].handle(req)
            }
            _ => slaves[k].handle(req),
        };
        match &act {
            WireAct::ReplyLost => return vec![],
            WireAct::Truncated(k) => {
                if reply.len() < 2 {
                    return vec![];
                }
                let keep = usize::from(*k).clamp(1, reply.len() - 1);
                reply.truncate(keep);
            }
            WireAct::Damaged(k) => {
                if reply.len() < 6 {
                    return vec![];
                }
                let n = reply.len();
                reply[n - 2] ^= 1 << (k % 8);
            }
            WireAct::Replaced(r) => {
                let ident = self.idents[k];
                reply = match r {
                    Replace::Status(st, len) => rc::encode(&RefFrame::Data { da: ma, sa: addr, dsap: None, ssap: None, fc: *st & 0x3F, pdu: vec![0x5A; *len] }),
                    Replace::ShortConfirmation => vec![rc::SC],
                    Replace::WrongSaps => rc::encode(&RefFrame::Data { da: ma, sa: addr, dsap: Some(61), ssap: Some(60), fc: 0x08, pdu: vec![0, 0x04, 0, 255, (ident >> 8) as u8, ident as u8] }),
                    Replace::ShortDiag(n) => rc::encode(&RefFrame::Data { da: ma, sa: addr, dsap: Some(62), ssap: Some(60), fc: 0x08, pdu: vec![0; *n] }),
                    Replace::WrongLength(d) => {
                        let want = self.in_lens[k] as i32;
                        let l = (want + d).clamp(0, 244) as usize;
                        let l = if l as i32 == want { (want as usize + 1).min(244) } else { l };
                        rc::encode(&RefFrame::Data { da: ma, sa: addr, dsap: None, ssap: None, fc: 0x08, pdu: vec![0xC3; l] })
                    }
                    Replace::DiagFlags(b0, b1) => rc::encode(&RefFrame::Data { da: ma, sa: addr, dsap: Some(62), ssap: Some(60), fc: 0x08, pdu: vec![*b0, *b1 | 0x04, 0, ma, (ident >> 8) as u8, ident as u8] }),
                    Replace::OneSap(d, sap) => rc::encode(&RefFrame::Data { da: ma, sa: addr, dsap: if *d { Some(*sap) } else { None }, ssap: if *d { None } else { Some(*sap) }, fc: 0x08, pdu: vec![0x3C; self.in_lens[k]] }),
                };
            }
            WireAct::WrongSource | WireAct::WrongDest | WireAct::RequestInstead => {
                // keep the shape of the genuine reply, change one header field
                if let Some(RefFrame::Data { da: rda, sa: rsa, dsap, ssap, fc: rfc, pdu }) = rc::decode_one(&reply) {
                    let other = (addr + 1 + (self.jit.below(5) as u8)) % 126;
                    let f = match act {
                        WireAct::WrongSource => RefFrame::Data { da: rda, sa: if other == ma { (other + 1) % 126 } else { other }, dsap, ssap, fc: rfc, pdu },
                        WireAct::WrongDest => RefFrame::Data { da: if other == ma { (other + 1) % 126 } else { other }, sa: rsa, dsap, ssap, fc: rfc, pdu },
                        _ => RefFrame::Data { da: rda, sa: rsa, dsap, ssap, fc: 0x6C, pdu },
                    };
                    reply = rc::encode(&f);
                } else {
                    // a short confirmation cannot carry a wrong address: answer with a data telegram
                    let other = (addr + 3) % 126;
                    reply = rc::encode(&RefFrame::Data { da: ma, sa: other, dsap: None, ssap: None, fc: 0x08, pdu: vec![] });
                }
            }
            _ => {}
        }
        if reply.is_empty() {
            return vec![];
        }
        // response delay within [11 bit, max Tsdr], max Tsdr <= Tslot - 15 bit
        let d = 11 + self.jit.below(self.delay_bits[k] - 10);
        vec![(self.bit_ns_x1000 * d as i64 / 1000, reply)]
    }
}

/// DpMaster behind a shared handle so that the harness can look at it between polls.
pub struct SharedMaster(pub Rc<RefCell<dp::DpMaster<'static>>>);

impl FdlApplication for SharedMaster {
    fn transmit_telegram(&mut self, now: Instant, fdl: &FdlActiveStation, tx: TelegramTx, hp: HighPrioOnly) -> Option<TelegramTxResponse> {
        self.0.borrow_mut().transmit_telegram(now, fdl, tx, hp)
    }
    fn receive_reply(&mut self, now: Instant, fdl: &FdlActiveStation, addr: u8, telegram: Telegram) {
        self.0.borrow_mut().receive_reply(now, fdl, addr, telegram)
    }
    fn handle_timeout(&mut self, now: Instant, fdl: &FdlActiveStation, addr: u8) {
        self.0.borrow_mut().handle_timeout(now, fdl, addr)
    }
}

pub struct FullRig {
    pub cfg: DpCfg,
    pub sim: Sim,
    pub master: Rc<RefCell<dp::DpMaster<'static>>>,
    pub handles: Vec<(usize, dp::PeripheralHandle)>,
    pub slaves: Rc<RefCell<Vec<RefSlave>>>,
    pub script: Rc<RefCell<Vec<WireAct>>>,
    pub pos: Rc<RefCell<usize>>,
    pub q_model: Vec<Vec<u8>>,
    pub cycles: u64,
    pub callbacks: u64,
    pub requests: u64,
    pub fault_free_since_cycle: Option<u64>,
    seen: usize,
    /// request awaiting resolution: (peripheral index, request frame, end of the request on the wire)
    outstanding: Option<(usize, RefFrame, i64)>,
    prev_state: String,
    pub inadmissible: u64,
}

fn fdl_state(f: &FdlActiveStation) -> String {
    let dbg = format!("{:?}", f);
    match dbg.find(", state: ") {
        Some(p) => dbg[p + 9..].chars().take_while(|c| c.is_alphanumeric()).collect(),
        None => "?".into(),
    }
}

impl FullRig {
    pub fn new(cfg: DpCfg, t: &mut Tape) -> Self {
        let baud = *t.pick(&[profirust::Baudrate::B500000, profirust::Baudrate::B1500000, profirust::Baudrate::B19200, profirust::Baudrate::B12000000]);
        let slot_bits = crate::ringsim::min_slot_bits(baud) + t.below(300) as u16;
        let hsa = (cfg.master_addr.max(1) + 1 + t.below(4) as u8).min(126).max(cfg.master_addr + 1);
        let mut ring = RingCfg {
            baud,
            hsa,
            gap: 1 + t.below(5) as u8,
            slot_bits,
            ttr_bits: if t.chance(1, 4) { 256 + t.below(3000) as u32 } else { 60_000 },
            max_retry: cfg.max_retry,
            schedule: if t.bool() { Schedule::Jitter } else { Schedule::Fixed },
            stations: vec![],
            jitter_seed: u64::from(t.raw()) | 1,
        };
        let p = (ring.max_period_us() * (4 + t.below(13) as i64) / 16).max(1);
        ring.stations.push(StationCfg { addr: cfg.master_addr, period_us: p, online_at_us: 0 });
        let mut sim = Sim::new(ring.clone(), 1);
        // the Sim builds the FDL parameters itself; min Tsdr / watchdog are taken from the station it built
        let mut master = dp::DpMaster::new(vec![]);
        let mut handles = vec![];
        for (i, pc) in cfg.pers.iter().enumerate() {
            handles.push((i, master.add(make_peripheral(pc))));
        }
        master.enter_operate();
        let master = Rc::new(RefCell::new(master));
        sim.nodes[0].apps.push(Box::new(SharedMaster(master.clone())));
        let slaves = Rc::new(RefCell::new(cfg.pers.iter().map(make_slave).collect::<Vec<_>>()));
        let script = Rc::new(RefCell::new(vec![]));
        let pos = Rc::new(RefCell::new(0usize));
        let max_tsdr = u64::from(slot_bits) - 15;
        sim.virtuals.push(Box::new(SlaveBank {
            slaves: slaves.clone(),
            script: script.clone(),
            pos: pos.clone(),
            master_addr: cfg.master_addr,
            in_lens: cfg.pers.iter().map(|p| p.in_len).collect(),
            idents: cfg.pers.iter().map(|p| p.ident).collect(),
            delay_bits: cfg.pers.iter().map(|_| 12 + t.below(max_tsdr - 12)).collect(),
            bit_ns_x1000: ring.bits_ns(1000),
            jit: SplitMix(u64::from(t.raw()) | 1),
        }));
        let q_model = cfg.pers.iter().map(|p| vec![0u8; p.out_len]).collect();
        FullRig { cfg, sim, master, handles, slaves, script, pos, q_model, cycles: 0, callbacks: 0, requests: 0, fault_free_since_cycle: None, seen: 0, outstanding: None, prev_state: String::new(), inadmissible: 0 }
    }

    fn with_view<R>(&mut self, f: impl FnOnce(&mut View) -> R) -> R {
        let mut m = self.master.borrow_mut();
        let slaves = self.slaves.borrow();
        let mut v = View {
            cfg: &self.cfg,
            handles: &self.handles,
            master: &mut m,
            fdl: &self.sim.nodes[0].fdl,
            slaves: &slaves,
            q_model: &self.q_model,
            callbacks: self.callbacks,
            fault_free_since_cycle: self.fault_free_since_cycle,
            cycles: self.cycles,
            poll_driven: true,
        };
        f(&mut v)
    }

    pub fn write_outputs(&mut self, k: usize, val: u8) {
        if let Some((_, h)) = self.handles.iter().find(|(i, _)| *i == k) {
            let mut m = self.master.borrow_mut();
            let q = m.get_mut(*h).pi_q_mut();
            for (i, b) in q.iter_mut().enumerate() {
                *b = val.wrapping_add(i as u8);
            }
            self.q_model[k] = m.get_mut(*h).pi_q().to_vec();
        }
    }
    pub fn request_diag(&mut self, k: usize, oracles: &mut [Box<dyn DpOracle>]) -> Result<(), Failure> {
        if let Some((_, h)) = self.handles.iter().find(|(i, _)| *i == k) {
            self.master.borrow_mut().get_mut(*h).request_diagnostics();
        }
        for o in oracles.iter_mut() {
            self.with_view(|v| o.on_user(v, &UserAct::RequestDiag(k)))?;
        }
        Ok(())
    }

    /// What the FDL must have handed to the application for the outstanding request: the first
    /// telegram that completed on the bus after it, if the FDL's admission rule lets it through.
    fn resolve(&mut self, oracles: &mut [Box<dyn DpOracle>]) -> Result<(), Failure> {
        let Some((k, req, req_end)) = self.outstanding.take() else { return Ok(()) };
        let addr = self.cfg.pers[k].addr;
        let first = {
            let b = self.sim.bus.0.borrow();
            b.trace.iter().find(|r| r.sender != 0 && r.end_ns > req_end && r.end_ns <= self.sim.now * 1000).map(|r| (r.wire.clone(), r.wire == r.bytes && !r.overlapped))
        };
        let delivered = match first {
            Some((bytes, true)) => match rc::decode_one(&bytes) {
                Some(RefFrame::Sc) => Delivered::Reply(RefFrame::Sc),
                Some(f @ RefFrame::Data { .. }) if f.sa() == Some(addr) && f.da() == Some(self.cfg.master_addr) && f.is_response() => Delivered::Reply(f),
                Some(_) => {
                    self.inadmissible += 1;
                    Delivered::Nothing
                }
                None => Delivered::Nothing,
            },
            _ => Delivered::Nothing,
        };
        for o in oracles.iter_mut() {
            self.with_view(|v| o.on_delivery(v, k, &req, &delivered))?;
        }
        self.callbacks += 1;
        self.take_events(true, oracles)
    }

    fn take_events(&mut self, after_reply: bool, oracles: &mut [Box<dyn DpOracle>]) -> Result<(), Failure> {
        let ev = self.master.borrow_mut().take_last_events();
        if ev.cycle_completed {
            self.cycles += 1;
        }
        let per = match ev.peripheral {
            Some((h, e)) => match self.handles.iter().find(|(_, hh)| *hh == h) {
                Some((k, _)) => Some((*k, e)),
                None => return Err(Failure::new("event-unknown-handle", format!("event {:?} for an unknown handle", e))),
            },
            None => None,
        };
        for o in oracles.iter_mut() {
            self.with_view(|v| o.on_events(v, ev.cycle_completed, per, after_reply))?;
        }
        for o in oracles.iter_mut() {
            self.with_view(|v| o.after_callback(v))?;
        }
        Ok(())
    }

    /// Run until `n_requests` further acknowledged requests have been resolved (or `max_us` passed).
    pub fn run(&mut self, n_requests: u64, max_us: i64, oracles: &mut [Box<dyn DpOracle>]) -> Result<(), Failure> {
        let target = self.requests + n_requests;
        let t_end = self.sim.now + max_us;
        while self.requests < target || self.outstanding.is_some() {
            let Some(tn) = self.sim.next_time() else { break };
            if tn > t_end {
                break;
            }
            let ev = self.sim.step();
            let Some(Event::Polled(0)) = ev else { continue };
            let state = fdl_state(&self.sim.nodes[0].fdl);
            // new transmissions of the master
            let recs: Vec<TxRecord> = {
                let b = self.sim.bus.0.borrow();
                let r: Vec<TxRecord> = b.trace[self.seen..].iter().filter(|r| r.sender == 0).cloned().collect();
                self.seen = b.trace.len();
                r
            };
            // was the outstanding request resolved in this poll (reply, time-out, or the FDL gave up)?
            if self.outstanding.is_some() && self.prev_state == "AwaitDataResponse" && (state != "AwaitDataResponse" || !recs.is_empty()) {
                self.resolve(oracles)?;
            } else {
                self.callbacks += 1;
                self.take_events(false, oracles)?;
            }
            for r in recs {
                let Some(f) = rc::decode_one(&r.bytes) else {
                    return Err(Failure::new("tx-undecodable", format!("master transmitted {}", crate::props::c09::hex(&r.bytes))));
                };
                match &f {
                    RefFrame::Token { .. } => {
                        for o in oracles.iter_mut() {
                            self.with_view(|v| o.on_turn_end(v))?;
                        }
                    }
                    RefFrame::Data { da, fc, dsap, .. } if rc::fc_is_request(*fc) => {
                        if !rc::request_expects_reply(*fc) {
                            for o in oracles.iter_mut() {
                                self.with_view(|v| o.on_global_control(v, &f))?;
                            }
                        } else if fc & 0x0F == 9 && dsap.is_none() {
                            // the FDL's own GAP poll
                        } else {
                            let Some(k) = self.cfg.pers.iter().position(|p| p.addr == *da) else {
                                return Err(Failure::new("request-unknown-address", format!("request to #{da} which is not a configured peripheral")));
                            };
                            self.requests += 1;
                            for o in oracles.iter_mut() {
                                self.with_view(|v| o.on_request(v, k, &f, &r.bytes))?;
                            }
                            self.outstanding = Some((k, f.clone(), r.end_ns));
                        }
                    }
                    _ => {}
                }
            }
            self.prev_state = fdl_state(&self.sim.nodes[0].fdl);
        }
        Ok(())
    }

    pub fn begin_clean(&mut self, oracles: &mut [Box<dyn DpOracle>]) -> Result<(), Failure> {
        self.fault_free_since_cycle = Some(self.cycles);
        for o in oracles.iter_mut() {
            self.with_view(|v| o.on_clean_phase(v))?;
        }
        Ok(())
    }
    pub fn finish(&mut self, oracles: &mut [Box<dyn DpOracle>], obs: &mut Obs) -> Result<(), Failure> {
        for o in oracles.iter_mut() {
            self.with_view(|v| o.finish(v, obs))?;
        }
        Ok(())
    }
}
