//! DP layer harness: reference DP-V0 slave, application-level driver for `DpMaster` (calls the
//! `FdlApplication` methods directly, applying the FDL's reply-admission rule itself), the
//! generated fault histories and the oracles of C03 C04 C07 C08 C14.

use crate::engine::{Failure, Obs, Tape};
use crate::refcodec::{self as rc, RefFrame};
use profirust::dp::{self, PeripheralEvent};
use profirust::fdl::{FdlActiveStation, FdlApplication, HighPrioOnly, ParametersBuilder, Telegram, TelegramTx};
use profirust::time::{Duration, Instant};

// ---------------------------------------------------------------------------------------------
// Reference slave
// ---------------------------------------------------------------------------------------------

#[derive(Clone, Copy, PartialEq, Eq, Debug, Hash)]
pub enum SlaveState {
    WaitPrm,
    WaitCfg,
    DataExch,
}

#[derive(Clone, Debug)]
pub struct RefSlave {
    pub addr: u8,
    pub ident: u16,
    pub cfg: Vec<u8>,
    pub in_len: usize,
    pub out_len: usize,
    pub state: SlaveState,
    pub locked_by: Option<u8>,
    /// FDL responder: (initiator, FCB) of the last executed request with frame count control
    pub stored: Option<(u8, bool)>,
    pub last_resp: Vec<u8>,
    pub counter: u8,
    pub outputs: Vec<u8>,
    pub prm_fault: bool,
    pub cfg_fault: bool,
    /// transient flags reported with the next diagnostics reply only
    /// number of further diagnostics replies that report Station_Not_Ready although the slave is in
    /// data exchange (a slow device)
    pub not_ready_polls: u8,
    /// a device that needs time after every accepted configuration: that many diagnostics replies
    /// report Station_Not_Ready before it is ready
    pub slow_start: u8,
    pub once_prm_fault: bool,
    pub once_cfg_fault: bool,
    pub once_prm_req: bool,
    /// signal 'diagnostics pending' (DH status) with the next data exchange reply
    pub diag_pending: bool,
    pub ext_diag: Vec<u8>,
    pub executed: u64,
    pub retransmissions_detected: u64,
    pub last_inputs: Vec<u8>,
    /// every input payload this slave ever sent
    pub sent_inputs: Vec<Vec<u8>>,
}

impl RefSlave {
    pub fn new(addr: u8, ident: u16, cfg: Vec<u8>, in_len: usize, out_len: usize) -> Self {
        RefSlave {
            addr,
            ident,
            cfg,
            in_len,
            out_len,
            state: SlaveState::WaitPrm,
            locked_by: None,
            stored: None,
            last_resp: vec![],
            counter: 0,
            outputs: vec![],
            prm_fault: false,
            cfg_fault: false,
            not_ready_polls: 0,
            slow_start: 0,
            once_prm_fault: false,
            once_cfg_fault: false,
            once_prm_req: false,
            diag_pending: false,
            ext_diag: vec![],
            executed: 0,
            retransmissions_detected: 0,
            last_inputs: vec![],
            sent_inputs: vec![],
        }
    }
    pub fn power_cycle(&mut self) {
        self.state = SlaveState::WaitPrm;
        self.locked_by = None;
        self.stored = None;
        self.last_resp.clear();
        self.prm_fault = false;
        self.cfg_fault = false;
        self.diag_pending = false;
    }
    /// Watchdog expiry: back to Wait_Prm, unlocked.
    pub fn watchdog_expired(&mut self) {
        self.state = SlaveState::WaitPrm;
        self.locked_by = None;
    }

    /// FDL + DP handling of one request frame.  Returns the response bytes (empty = none).
    pub fn handle(&mut self, req: &RefFrame) -> Vec<u8> {
        let RefFrame::Data { da, sa, dsap, ssap, fc, pdu } = req else { return vec![] };
        if *da != self.addr || !rc::fc_is_request(*fc) {
            return vec![];
        }
        if !rc::request_expects_reply(*fc) {
            return vec![];
        }
        if fc & 0x0F == 9 && dsap.is_none() {
            // FDL status request (GAP poll, live list): a passive station answers 'slave'
            return rc::encode(&RefFrame::status_reply(*sa, self.addr, 0));
        }
        let (fcv, fcb) = rc::fc_fcv_fcb(*fc);
        if fcv {
            if self.stored == Some((*sa, fcb)) && !self.last_resp.is_empty() {
                // retransmission: repeat the stored response, do not execute the service again
                self.retransmissions_detected += 1;
                return self.last_resp.clone();
            }
            self.stored = Some((*sa, fcb));
        } else if fcb {
            // first message cycle of a new sequence
            self.stored = Some((*sa, true));
        }
        self.executed += 1;
        let master = *sa;
        let rs = |s: &RefSlave| rc::encode(&RefFrame::Data { da: master, sa: s.addr, dsap: *ssap, ssap: *dsap, fc: 0x03, pdu: vec![] });
        let resp = match dsap {
            Some(60) => {
                let mut b0 = 0u8;
                let mut b1 = 0x04u8;
                if self.state != SlaveState::DataExch || self.not_ready_polls > 0 {
                    b0 |= 0x02;
                }
                if self.cfg_fault || self.once_cfg_fault {
                    b0 |= 0x04;
                }
                if self.prm_fault || self.once_prm_fault {
                    b0 |= 0x40;
                }
                if !self.ext_diag.is_empty() {
                    b0 |= 0x08;
                }
                if self.state == SlaveState::WaitPrm || self.once_prm_req {
                    b1 |= 0x01;
                }
                self.not_ready_polls = self.not_ready_polls.saturating_sub(1);
                self.once_cfg_fault = false;
                self.once_prm_fault = false;
                self.once_prm_req = false;
                self.diag_pending = false;
                let mut p = vec![b0, b1, 0, self.locked_by.unwrap_or(255), (self.ident >> 8) as u8, self.ident as u8];
                p.extend_from_slice(&self.ext_diag);
                rc::encode(&RefFrame::Data { da: master, sa: self.addr, dsap: *ssap, ssap: Some(60), fc: 0x08, pdu: p })
            }
            Some(61) => {
                if self.locked_by.is_some() && self.locked_by != Some(master) {
                    rs(self)
                } else {
                    let ok = pdu.len() >= 7 && u16::from_be_bytes([pdu[4], pdu[5]]) == self.ident && pdu[0] & 0x80 != 0;
                    if ok {
                        self.state = SlaveState::WaitCfg;
                        self.locked_by = Some(master);
                        self.prm_fault = false;
                        self.cfg_fault = false;
                    } else {
                        self.state = SlaveState::WaitPrm;
                        self.prm_fault = true;
                    }
                    vec![rc::SC]
                }
            }
            Some(62) => {
                if self.locked_by != Some(master) {
                    rs(self)
                } else {
                    if self.state != SlaveState::WaitPrm && *pdu == self.cfg {
                        self.state = SlaveState::DataExch;
                        self.cfg_fault = false;
                        self.not_ready_polls = self.not_ready_polls.max(self.slow_start);
                    } else {
                        self.state = SlaveState::WaitPrm;
                        self.cfg_fault = true;
                    }
                    vec![rc::SC]
                }
            }
            None => {
                if self.state == SlaveState::DataExch && self.locked_by == Some(master) && pdu.len() == self.out_len {
                    self.outputs = pdu.clone();
                    self.counter = self.counter.wrapping_add(1);
                    if self.in_len == 0 {
                        vec![rc::SC]
                    } else {
                        let inputs: Vec<u8> = (0..self.in_len).map(|i| if self.addr % 3 == 1 && i % 4 == 3 { rc::SC } else { self.counter.wrapping_mul(7).wrapping_add(i as u8) }).collect(); // some devices deliver values that look like short confirmations
                        self.last_inputs = inputs.clone();
                        self.sent_inputs.push(inputs.clone());
                        let st = if self.diag_pending { 0x0A } else { 0x08 };
                        rc::encode(&RefFrame::Data { da: master, sa: self.addr, dsap: None, ssap: None, fc: st, pdu: inputs })
                    }
                } else {
                    rs(self)
                }
            }
            _ => rs(self),
        };
        self.last_resp = resp.clone();
        resp
    }
}

// ---------------------------------------------------------------------------------------------
// Configuration
// ---------------------------------------------------------------------------------------------

#[derive(Clone, Debug)]
pub struct PerCfg {
    pub addr: u8,
    pub ident: u16,
    pub sync: bool,
    pub freeze: bool,
    pub groups: u8,
    pub user_prm: Option<Vec<u8>>,
    pub config: Option<Vec<u8>>,
    pub in_len: usize,
    pub out_len: usize,
    pub diag_buf: Option<usize>,
    /// the slave's expectation matches the master's options
    pub slave_matches: bool,
    /// peripheral is added before the first poll (false: at a generated instant later)
    pub add_at_start: bool,
}

#[derive(Clone, Debug)]
pub struct DpCfg {
    pub master_addr: u8,
    pub max_retry: u8,
    pub min_tsdr: u8,
    pub watchdog_ms: Option<u64>,
    pub pers: Vec<PerCfg>,
    /// None: Vec storage; Some(n): fixed array of n slots
    pub fixed_slots: Option<usize>,
}

pub struct GenDp {
    pub min_pers: usize,
    pub max_pers: usize,
    pub big_lengths: bool,
    pub allow_incomplete: bool,
    pub allow_mismatch: bool,
    pub allow_late_add: bool,
}

pub fn gen_dp_cfg(t: &mut Tape, g: &GenDp) -> DpCfg {
    let n = g.min_pers + t.below((g.max_pers - g.min_pers + 1) as u64) as usize;
    let master_addr = *t.pick(&[2u8, 0, 1, 125, 7]);
    let mut pers = vec![];
    let mut used = vec![master_addr];
    for i in 0..n {
        let mut addr = 3 + t.below(120) as u8;
        while used.contains(&addr) {
            addr = (addr + 1) % 126;
        }
        used.push(addr);
        let len = |t: &mut Tape, big: bool| -> usize {
            match t.below(6) {
                0 => 0,
                1 => 1,
                2 if big => 244,
                3 if big => t.below(245) as usize,
                _ => t.below(9) as usize,
            }
        };
        let in_len = len(t, g.big_lengths);
        let out_len = len(t, g.big_lengths);
        let user_prm = if g.allow_incomplete && t.chance(1, 12) {
            None
        } else {
            let l = match t.below(5) {
                0 => 0,
                1 if g.big_lengths => 237,
                2 if g.big_lengths => t.below(238) as usize,
                _ => t.below(10) as usize,
            };
            Some(t.fill(l))
        };
        let config = if g.allow_incomplete && t.chance(1, 12) {
            None
        } else {
            let l = match t.below(5) {
                0 => 1,
                1 if g.big_lengths => 244,
                2 if g.big_lengths => 1 + t.below(244) as usize,
                _ => 1 + t.below(8) as usize,
            };
            let mut c = t.fill(l);
            c[0] = c[0].wrapping_add(i as u8 + 1);
            Some(c)
        };
        pers.push(PerCfg {
            addr,
            ident: *t.pick(&[0x1234u16, 0, 0xFFFF, 0x00FF, 0xFF00, 0x8001]),
            sync: t.chance(1, 4),
            freeze: t.chance(1, 4),
            groups: if t.bool() { 0 } else { t.u8() },
            user_prm,
            config,
            in_len,
            out_len,
            diag_buf: match t.below(4) {
                0 => None,
                1 => Some(4),
                _ => Some(64),
            },
            slave_matches: !(g.allow_mismatch && t.chance(1, 10)),
            add_at_start: !(g.allow_late_add && t.chance(1, 4)),
        });
    }
    let fixed_slots = if t.bool() { None } else { Some(n + t.below(3) as usize) };
    let watchdog_ms = match t.below(5) {
        0 => None,
        1 => Some(10),
        2 => Some(650_000),
        3 => Some(10 * (1 + t.below(65000))),
        _ => Some(10 + t.below(649_991)),
    };
    DpCfg {
        master_addr,
        max_retry: 1 + t.below(15) as u8,
        min_tsdr: 11 + t.below(245) as u8,
        watchdog_ms,
        pers,
        fixed_slots,
    }
}

// ---------------------------------------------------------------------------------------------
// Fault history
// ---------------------------------------------------------------------------------------------

#[derive(Clone, Debug, PartialEq, Eq, Hash)]
pub enum Replace {
    /// data response without SAPs carrying this status nibble (and state bits) and payload length
    Status(u8, usize),
    ShortConfirmation,
    /// diagnostics-shaped reply with wrong SAPs
    WrongSaps,
    /// diagnostics reply that is too short
    ShortDiag(usize),
    /// the slave's reply with its payload length changed by delta (data exchange)
    WrongLength(i32),
    /// diagnostics reply with these extra flag bits (byte0, byte1)
    DiagFlags(u8, u8),
    /// data response of exactly the configured input length with good status but carrying only a
    /// DSAP (true) or only an SSAP (false)
    OneSap(bool, u8),
}

#[derive(Clone, Debug, PartialEq, Eq, Hash)]
pub enum Act {
    Ok,
    RequestLost,
    ReplyLost,
    Replaced(Replace),
    /// power cycle the addressed slave before it sees the request
    PowerCycle,
    /// watchdog expiry in the addressed slave before it sees the request
    Watchdog,
    /// user calls request_diagnostics() on the addressed peripheral while the request is outstanding
    UserDiagInFlight,
    /// slave signals pending diagnostics (DH) / reports a transient flag with its next diag reply
    SlaveDiagPending,
    SlaveTransient(u8),
    /// the application calls enter_operate() again while the request is outstanding
    EnterOperateInFlight,
    /// the request gets lost and the application calls reset_address(same address) on the
    /// addressed peripheral before the time-out is reported
    ResetInFlight,
}

#[derive(Clone, Debug, PartialEq, Eq, Hash)]
pub enum UserAct {
    None,
    WriteOutputs(usize, u8),
    RequestDiag(usize),
    AddPending,
    /// the application asserts the Operate state again (the documented way to force a global
    /// control broadcast); must not disturb the cycle
    EnterOperate,
    /// Peripheral::reset_address() with the address the peripheral already has, between message
    /// cycles: the documented way to ask for a fresh parameterisation
    ResetAddress(usize),
}

pub fn gen_act(t: &mut Tape, rich: bool) -> Act {
    match t.weighted(&[10, 3, 3, 4, 1, 1, 2, 1, 1, 1, 1]) {
        0 => Act::Ok,
        1 => Act::RequestLost,
        2 => Act::ReplyLost,
        3 => {
            let r = if !rich {
                Replace::Status(0x03, 0)
            } else {
                match t.below(9) {
                    8 => Replace::OneSap(t.bool(), *t.pick(&[62u8, 60, 0, 255])),
                    0 => Replace::Status(*t.pick(&[0x00u8, 0x01, 0x02, 0x03, 0x08, 0x09, 0x0A, 0x0C, 0x0D, 0x18, 0x2A, 0x33]), t.below(4) as usize),
                    1 => Replace::ShortConfirmation,
                    2 => Replace::WrongSaps,
                    3 => Replace::ShortDiag(t.below(6) as usize),
                    4 => Replace::WrongLength(*t.pick(&[-1i32, 1, -1000, 1000, 2])),
                    5 => Replace::DiagFlags(*t.pick(&[0x02u8, 0x04, 0x40, 0x00, 0x46]), *t.pick(&[0x00u8, 0x01, 0x05])),
                    _ => Replace::Status(0x03, 0),
                }
            };
            Act::Replaced(r)
        }
        4 => Act::PowerCycle,
        5 => Act::Watchdog,
        6 => Act::UserDiagInFlight,
        7 => Act::SlaveDiagPending,
        8 => Act::SlaveTransient(t.below(9) as u8),
        9 => Act::EnterOperateInFlight,
        _ => Act::ResetInFlight,
    }
}

// ---------------------------------------------------------------------------------------------
// Observation interface for the oracles
// ---------------------------------------------------------------------------------------------

#[derive(Clone, Debug, PartialEq, Eq)]
pub enum Delivered {
    /// nothing intact arrived inside the slot time
    Nothing,
    Reply(RefFrame),
}

#[derive(Clone, Copy, Debug, PartialEq, Eq)]
pub enum Service {
    Diag,
    SetPrm,
    ChkCfg,
    DataExchange,
    Other,
}

pub fn service_of(f: &RefFrame) -> Service {
    match f {
        RefFrame::Data { dsap: Some(60), .. } => Service::Diag,
        RefFrame::Data { dsap: Some(61), .. } => Service::SetPrm,
        RefFrame::Data { dsap: Some(62), .. } => Service::ChkCfg,
        RefFrame::Data { dsap: None, .. } => Service::DataExchange,
        _ => Service::Other,
    }
}

/// Is `reply` a well-formed Slave_Diag response (right SAPs, >= 6 bytes)?
pub fn is_diag_reply(reply: &RefFrame) -> bool {
    matches!(reply, RefFrame::Data { dsap: Some(62), ssap: Some(60), fc, pdu, .. } if !rc::fc_is_request(*fc) && pdu.len() >= 6)
}

pub struct View<'a> {
    pub cfg: &'a DpCfg,
    /// index into cfg.pers for every peripheral that has been added, with its handle
    pub handles: &'a [(usize, dp::PeripheralHandle)],
    pub master: &'a mut dp::DpMaster<'static>,
    pub fdl: &'a FdlActiveStation,
    pub slaves: &'a [RefSlave],
    /// model of the output images as last written by the user
    pub q_model: &'a [Vec<u8>],
    pub callbacks: u64,
    pub fault_free_since_cycle: Option<u64>,
    pub cycles: u64,
    /// observations are made after every poll (full stack) rather than after every callback
    pub poll_driven: bool,
}

#[allow(unused_variables)]
pub trait DpOracle {
    fn on_request(&mut self, v: &mut View, k: usize, req: &RefFrame, raw: &[u8]) -> Result<(), Failure> {
        Ok(())
    }
    fn on_global_control(&mut self, v: &mut View, req: &RefFrame) -> Result<(), Failure> {
        Ok(())
    }
    fn on_turn_end(&mut self, v: &mut View) -> Result<(), Failure> {
        Ok(())
    }
    /// what the harness delivered in answer to the last request to k (before the master sees it)
    fn on_delivery(&mut self, v: &mut View, k: usize, req: &RefFrame, d: &Delivered) -> Result<(), Failure> {
        Ok(())
    }
    /// events taken after a callback (`after_reply`: receive_reply/handle_timeout, else transmit)
    fn on_events(&mut self, v: &mut View, cycle_completed: bool, ev: Option<(usize, PeripheralEvent)>, after_reply: bool) -> Result<(), Failure> {
        Ok(())
    }
    fn on_user(&mut self, v: &mut View, act: &UserAct) -> Result<(), Failure> {
        Ok(())
    }
    fn on_slave_reset(&mut self, v: &mut View, k: usize) -> Result<(), Failure> {
        Ok(())
    }
    fn on_added(&mut self, v: &mut View, k: usize) -> Result<(), Failure> {
        Ok(())
    }
    /// the fault-free continuation begins now
    fn on_clean_phase(&mut self, v: &mut View) -> Result<(), Failure> {
        Ok(())
    }
    /// after every callback into the master
    fn after_callback(&mut self, v: &mut View) -> Result<(), Failure> {
        Ok(())
    }
    fn finish(&mut self, v: &mut View, obs: &mut Obs) -> Result<(), Failure> {
        Ok(())
    }
}

// ---------------------------------------------------------------------------------------------
// Application-level driver
// ---------------------------------------------------------------------------------------------

pub struct DpRig {
    pub cfg: DpCfg,
    pub fdl: FdlActiveStation,
    pub master: dp::DpMaster<'static>,
    pub handles: Vec<(usize, dp::PeripheralHandle)>,
    pub slaves: Vec<RefSlave>,
    pub q_model: Vec<Vec<u8>>,
    pub now_us: i64,
    pub callbacks: u64,
    pub cycles: u64,
    pub requests: u64,
    pub fault_free_since_cycle: Option<u64>,
}

fn leak(v: &Option<Vec<u8>>) -> Option<&'static [u8]> {
    v.as_ref().map(|x| &*Box::leak(x.clone().into_boxed_slice()))
}

pub fn make_peripheral(p: &PerCfg) -> dp::Peripheral<'static> {
    let opts = dp::PeripheralOptions {
        ident_number: p.ident,
        sync_mode: p.sync,
        freeze_mode: p.freeze,
        groups: p.groups,
        max_tsdr: 100,
        fail_safe: false,
        user_parameters: leak(&p.user_prm),
        config: leak(&p.config),
    };
    let mut per = dp::Peripheral::new(p.addr, opts, vec![0u8; p.in_len], vec![0u8; p.out_len]);
    if let Some(n) = p.diag_buf {
        per = per.with_diag_buffer(vec![0u8; n]);
    }
    per
}

pub fn make_slave(p: &PerCfg) -> RefSlave {
    let cfg = p.config.clone().unwrap_or_else(|| vec![0x10]);
    let (ident, cfg) = if p.slave_matches {
        (p.ident, cfg)
    } else {
        (p.ident, {
            let mut c = cfg;
            c[0] ^= 0x55;
            c
        })
    };
    let mut s = RefSlave::new(p.addr, ident, cfg, p.in_len, p.out_len);
    // some slaves always have extended diagnostics to report (Ext_Diag set in every diagnostics reply):
    // nothing, 3, 7 or 12 bytes by address - more than a small diagnostics buffer of the master holds
    s.ext_diag = match p.addr % 4 {
        0 => vec![],
        1 => vec![0x03, 0x11, 0x22],
        2 => vec![0x07, 1, 2, 3, 4, 5, 6],
        _ => vec![0x04, 9, 8, 7, 0x42, 0x00, 0x81, 0x88, 0x41, 0x81, 0x05, 0xA7],
    };
    // slow devices: not ready for 2 or 5 diagnostics polls after every accepted configuration (by
    // address) - more than a small retry limit allows for unanswered requests
    s.slow_start = [0u8, 0, 0, 2, 5][usize::from(p.addr) % 5];
    s
}

pub fn make_fdl(cfg: &DpCfg) -> FdlActiveStation {
    let mut b = ParametersBuilder::new(cfg.master_addr, profirust::Baudrate::B500000);
    b.slot_bits(300).max_retry_limit(cfg.max_retry).min_tsdr(cfg.min_tsdr);
    if let Some(ms) = cfg.watchdog_ms {
        b.watchdog_timeout(Duration::from_millis(ms));
    }
    FdlActiveStation::new(b.build())
}

impl DpRig {
    pub fn new(cfg: DpCfg) -> Self {
        let fdl = make_fdl(&cfg);
        let mut master = match cfg.fixed_slots {
            None => dp::DpMaster::new(vec![]),
            Some(n) => {
                let storage: Vec<dp::PeripheralStorage<'static>> = (0..n).map(|_| Default::default()).collect();
                let leaked: &'static mut [dp::PeripheralStorage<'static>] = Box::leak(storage.into_boxed_slice());
                dp::DpMaster::new(leaked)
            }
        };
        let mut handles = vec![];
        for (i, p) in cfg.pers.iter().enumerate() {
            if p.add_at_start {
                handles.push((i, master.add(make_peripheral(p))));
            }
        }
        master.enter_operate();
        let slaves = cfg.pers.iter().map(make_slave).collect();
        let q_model = cfg.pers.iter().map(|p| vec![0u8; p.out_len]).collect();
        DpRig {
            cfg,
            fdl,
            master,
            handles,
            slaves,
            q_model,
            now_us: 1000,
            callbacks: 0,
            cycles: 0,
            requests: 0,
            fault_free_since_cycle: None,
        }
    }

    pub fn handle_of(&self, k: usize) -> Option<dp::PeripheralHandle> {
        self.handles.iter().find(|(i, _)| *i == k).map(|(_, h)| *h)
    }

    fn view<'a>(&'a mut self) -> View<'a> {
        View {
            cfg: &self.cfg,
            handles: &self.handles,
            master: &mut self.master,
            fdl: &self.fdl,
            slaves: &self.slaves,
            q_model: &self.q_model,
            callbacks: self.callbacks,
            fault_free_since_cycle: self.fault_free_since_cycle,
            cycles: self.cycles,
            poll_driven: false,
        }
    }

    pub fn user(&mut self, act: &UserAct, oracles: &mut [Box<dyn DpOracle>]) -> Result<(), Failure> {
        match act {
            UserAct::None => {}
            UserAct::WriteOutputs(k, v) => {
                if let Some(h) = self.handle_of(*k) {
                    let q = self.master.get_mut(h).pi_q_mut();
                    for (i, b) in q.iter_mut().enumerate() {
                        *b = v.wrapping_add(i as u8);
                    }
                    self.q_model[*k] = self.master.get_mut(h).pi_q().to_vec();
                }
            }
            UserAct::RequestDiag(k) => {
                if let Some(h) = self.handle_of(*k) {
                    self.master.get_mut(h).request_diagnostics();
                }
            }
            UserAct::EnterOperate => {
                self.master.enter_operate();
            }
            UserAct::ResetAddress(k) => {
                if let Some(h) = self.handle_of(*k) {
                    let a = self.cfg.pers[*k].addr;
                    self.master.get_mut(h).reset_address(a);
                } else {
                    return Ok(());
                }
            }
            UserAct::AddPending => {
                if let Some(k) = (0..self.cfg.pers.len()).find(|k| self.handle_of(*k).is_none()) {
                    let can = match self.cfg.fixed_slots {
                        None => true,
                        Some(n) => self.handles.len() < n,
                    };
                    if can {
                        let h = self.master.add(make_peripheral(&self.cfg.pers[k]));
                        self.handles.push((k, h));
                        for o in oracles.iter_mut() {
                            o.on_added(&mut self.view(), k)?;
                        }
                    }
                }
            }
        }
        for o in oracles.iter_mut() {
            o.on_user(&mut self.view(), act)?;
        }
        Ok(())
    }

    fn take_events(&mut self, after_reply: bool, oracles: &mut [Box<dyn DpOracle>]) -> Result<(), Failure> {
        let ev = self.master.take_last_events();
        if ev.cycle_completed {
            self.cycles += 1;
        }
        let per = match ev.peripheral {
            Some((h, e)) => {
                let k = self.handles.iter().find(|(_, hh)| *hh == h).map(|(i, _)| *i);
                let Some(k) = k else {
                    return Err(Failure::new("event-unknown-handle", format!("event {:?} for a handle that was never returned by add(): {:?}", e, h)));
                };
                Some((k, e))
            }
            None => None,
        };
        for o in oracles.iter_mut() {
            o.on_events(&mut self.view(), ev.cycle_completed, per, after_reply)?;
        }
        for o in oracles.iter_mut() {
            o.after_callback(&mut self.view())?;
        }
        Ok(())
    }

    /// One call of transmit_telegram plus the complete message cycle it may start.
    /// Returns false when the master ended its turn (returned None).
    pub fn round(&mut self, act: &Act, dt_us: i64, high_prio_only: bool, oracles: &mut [Box<dyn DpOracle>]) -> Result<bool, Failure> {
        self.now_us += dt_us;
        let now = Instant::from_micros(self.now_us);
        let mut buf = [0xBDu8; 300]; // stale contents, as with the hardware PHYs
        self.callbacks += 1;
        let r = self.master.transmit_telegram(now, &self.fdl, TelegramTx::new(&mut buf), if high_prio_only { HighPrioOnly::Yes } else { HighPrioOnly::No });
        self.take_events(false, oracles)?;
        let Some(r) = r else {
            for o in oracles.iter_mut() {
                o.on_turn_end(&mut self.view())?;
            }
            return Ok(false);
        };
        let raw = buf[..r.bytes_sent()].to_vec();
        let Some(req) = rc::decode_one(&raw) else {
            return Err(Failure::new("tx-undecodable", format!("DpMaster transmitted {}", crate::props::c09::hex(&raw))));
        };
        let Some(addr) = r.expects_reply() else {
            for o in oracles.iter_mut() {
                o.on_global_control(&mut self.view(), &req)?;
            }
            return Ok(true);
        };
        self.requests += 1;
        let Some(k) = self.cfg.pers.iter().position(|p| p.addr == addr) else {
            return Err(Failure::new("request-unknown-address", format!("request to #{addr} which is not a configured peripheral: {:?}", req)));
        };
        if self.handle_of(k).is_none() {
            return Err(Failure::new("request-unknown-address", format!("request to #{addr} which has not been added yet")));
        }
        for o in oracles.iter_mut() {
            o.on_request(&mut self.view(), k, &req, &raw)?;
        }
        // what happens to this message cycle
        let mut reply: Vec<u8> = vec![];
        match act {
            Act::RequestLost => {}
            Act::PowerCycle => {
                self.slaves[k].power_cycle();
                for o in oracles.iter_mut() {
                    o.on_slave_reset(&mut self.view(), k)?;
                }
                reply = self.slaves[k].handle(&req);
            }
            Act::Watchdog => {
                self.slaves[k].watchdog_expired();
                for o in oracles.iter_mut() {
                    o.on_slave_reset(&mut self.view(), k)?;
                }
                reply = self.slaves[k].handle(&req);
            }
            Act::SlaveDiagPending => {
                self.slaves[k].diag_pending = true;
                reply = self.slaves[k].handle(&req);
            }
            Act::SlaveTransient(w) => {
                match w {
                    0 => self.slaves[k].not_ready_polls = 1,
                    1 => self.slaves[k].once_prm_fault = true,
                    2 => self.slaves[k].once_cfg_fault = true,
                    3 => self.slaves[k].once_prm_req = true,
                    // a slow device: not ready for several validation polls
                    n => self.slaves[k].not_ready_polls = *n - 2,
                }
                reply = self.slaves[k].handle(&req);
            }
            Act::EnterOperateInFlight => {
                reply = self.slaves[k].handle(&req);
                self.master.enter_operate();
            }
            Act::ResetInFlight => {
                let h = self.handle_of(k).unwrap();
                self.master.get_mut(h).reset_address(addr);
                for o in oracles.iter_mut() {
                    o.on_user(&mut self.view(), &UserAct::ResetAddress(k))?;
                }
            }
            Act::UserDiagInFlight => {
                reply = self.slaves[k].handle(&req);
                let h = self.handle_of(k).unwrap();
                self.master.get_mut(h).request_diagnostics();
                for o in oracles.iter_mut() {
                    o.on_user(&mut self.view(), &UserAct::RequestDiag(k))?;
                }
            }
            Act::Ok | Act::ReplyLost | Act::Replaced(_) => {
                reply = self.slaves[k].handle(&req);
                match act {
                    Act::ReplyLost => reply.clear(),
                    Act::Replaced(r) => {
                        let ma = self.cfg.master_addr;
                        let ident = self.cfg.pers[k].ident;
                        reply = match r {
                            Replace::Status(st, len) => rc::encode(&RefFrame::Data { da: ma, sa: addr, dsap: None, ssap: None, fc: *st & 0x3F, pdu: vec![0x5A; *len] }),
                            Replace::ShortConfirmation => vec![rc::SC],
                            Replace::WrongSaps => rc::encode(&RefFrame::Data { da: ma, sa: addr, dsap: Some(61), ssap: Some(60), fc: 0x08, pdu: vec![0, 0x04, 0, 255, (ident >> 8) as u8, ident as u8] }),
                            Replace::ShortDiag(n) => rc::encode(&RefFrame::Data { da: ma, sa: addr, dsap: Some(62), ssap: Some(60), fc: 0x08, pdu: vec![0; *n] }),
                            Replace::WrongLength(d) => {
                                let want = self.cfg.pers[k].in_len as i32;
                                let l = (want + d).clamp(0, 244) as usize;
                                let l = if l as i32 == want { (want as usize + 1).min(244) } else { l };
                                rc::encode(&RefFrame::Data { da: ma, sa: addr, dsap: None, ssap: None, fc: 0x08, pdu: vec![0xC3; l] })
                            }
                            Replace::OneSap(d, sap) => {
                                let want = self.cfg.pers[k].in_len;
                                rc::encode(&RefFrame::Data { da: ma, sa: addr, dsap: if *d { Some(*sap) } else { None }, ssap: if *d { None } else { Some(*sap) }, fc: 0x08, pdu: vec![0x3C; want] })
                            }
                            Replace::DiagFlags(b0, b1) => rc::encode(&RefFrame::Data { da: ma, sa: addr, dsap: Some(62), ssap: Some(60), fc: 0x08, pdu: vec![*b0, *b1 | 0x04, 0, ma, (ident >> 8) as u8, ident as u8] }),
                        };
                    }
                    _ => {}
                }
            }
        }
        // FDL reply admission: SC, or a response from the addressed station to this station
        let delivered = match rc::decode_one(&reply) {
            Some(RefFrame::Sc) => Delivered::Reply(RefFrame::Sc),
            Some(f @ RefFrame::Data { .. }) if f.sa() == Some(addr) && f.da() == Some(self.cfg.master_addr) && f.is_response() => Delivered::Reply(f),
            _ => Delivered::Nothing,
        };
        for o in oracles.iter_mut() {
            o.on_delivery(&mut self.view(), k, &req, &delivered)?;
        }
        self.now_us += 150;
        let now = Instant::from_micros(self.now_us);
        self.callbacks += 1;
        match &delivered {
            Delivered::Nothing => self.master.handle_timeout(now, &self.fdl, addr),
            Delivered::Reply(_) => {
                let (t, _) = Telegram::deserialize(&reply).unwrap().unwrap();
                self.master.receive_reply(now, &self.fdl, addr, t);
            }
        }
        self.take_events(true, oracles)?;
        Ok(true)
    }

    pub fn begin_clean(&mut self, oracles: &mut [Box<dyn DpOracle>]) -> Result<(), Failure> {
        self.fault_free_since_cycle = Some(self.cycles);
        for o in oracles.iter_mut() {
            o.on_clean_phase(&mut self.view())?;
        }
        Ok(())
    }

    pub fn finish(&mut self, oracles: &mut [Box<dyn DpOracle>], obs: &mut Obs) -> Result<(), Failure> {
        for o in oracles.iter_mut() {
            o.finish(&mut self.view(), obs)?;
        }
        Ok(())
    }
}

/// A complete generated history: `n_fault` rounds with generated faults / user actions, then
/// `n_clean` fault-free rounds.
pub struct History {
    pub acts: Vec<(UserAct, Act, i64, bool)>,
    pub clean_rounds: usize,
    /// which message cycles of the fault-free continuation are granted as high-priority-only (the
    /// token arrived late): 0 none, 1 all of them, k >= 2 every k-th
    pub clean_hp: u8,
}

pub fn gen_history(t: &mut Tape, cfg: &DpCfg, max_fault_rounds: usize, rich: bool) -> History {
    let n = t.below(max_fault_rounds as u64 + 1) as usize;
    let np = cfg.pers.len().max(1);
    let mut acts = vec![];
    for _ in 0..n {
        let user = match t.weighted(&[8, 3, 1, 1, 1, 1]) {
            1 => UserAct::WriteOutputs(t.below(np as u64) as usize, t.u8()),
            2 => UserAct::RequestDiag(t.below(np as u64) as usize),
            3 => UserAct::AddPending,
            4 => UserAct::EnterOperate,
            5 => UserAct::ResetAddress(t.below(np as u64) as usize),
            _ => UserAct::None,
        };
        let act = gen_act(t, rich);
        let dt = *t.pick(&[200i64, 200, 50, 1000, 5000, 25000]);
        let hp = t.chance(1, 10);
        acts.push((user, act, dt, hp));
    }
    // (generated last: an exhausted tape gives 'none')
    let clean_hp = match t.below(4) {
        0 | 1 => 0,
        2 => 1,
        _ => 2 + t.below(5) as u8,
    };
    History { acts, clean_rounds: 0, clean_hp }
}
