//! Oracles over the DP driver's observation interface (C03 C04 C07 C08 C14).

use crate::dpdrv::*;
use crate::engine::{fingerprint, Failure, Obs};
use crate::refcodec::{self as rc, RefFrame};
use profirust::dp::PeripheralEvent;

fn hexs(b: &[u8]) -> String {
    crate::props::c09::hex(b)
}

// ---------------------------------------------------------------------------------------------
// C03: admission automaton + byte-exact bring-up telegrams
// ---------------------------------------------------------------------------------------------

#[derive(Default)]
pub struct C03Oracle {
    /// admission state per peripheral: 0..=4
    pub adm: Vec<u8>,
    pub fault_between_prm_and_dx: Vec<bool>,
    pub seen_prm: Vec<bool>,
    pub nontrivial: bool,
    pub dx_seen: u64,
    pub set_prm_seen: u64,
    pub chk_cfg_seen: u64,
    pub reached_s4: Vec<bool>,
    pub reset_after_s4: bool,
}

impl C03Oracle {
    pub fn new(n: usize) -> Self {
        C03Oracle {
            adm: vec![0; n],
            fault_between_prm_and_dx: vec![false; n],
            seen_prm: vec![false; n],
            reached_s4: vec![false; n],
            ..Default::default()
        }
    }
}

pub fn expected_set_prm(v: &View, k: usize) -> Vec<u8> {
    let p = &v.cfg.pers[k];
    let par = v.fdl.parameters();
    let mut b0 = 0x80u8;
    if p.sync {
        b0 |= 0x20;
    }
    if p.freeze {
        b0 |= 0x10;
    }
    let (f1, f2) = match par.watchdog_factors {
        Some((a, b)) => {
            b0 |= 0x08;
            (a, b)
        }
        None => (0, 0),
    };
    let mut out = vec![b0, f1, f2, v.cfg.min_tsdr, (p.ident >> 8) as u8, p.ident as u8, p.groups];
    out.extend_from_slice(p.user_prm.as_deref().unwrap_or(&[]));
    out
}

impl DpOracle for C03Oracle {
    fn on_request(&mut self, v: &mut View, k: usize, req: &RefFrame, _raw: &[u8]) -> Result<(), Failure> {
        let RefFrame::Data { da, sa, dsap, ssap, fc, pdu } = req else { unreachable!() };
        let p = &v.cfg.pers[k];
        if *da != p.addr || *sa != v.cfg.master_addr {
            return Err(Failure::new("addresses", format!("request {:?} for peripheral #{} of master #{}", req, p.addr, v.cfg.master_addr)));
        }
        match service_of(req) {
            Service::DataExchange => {
                self.dx_seen += 1;
                if self.adm[k] != 4 {
                    return Err(Failure::new(
                        "dx-before-bring-up",
                        format!("Data_Exchange request to #{} while the bring-up automaton is in S{} (S0 nothing, S1 diag answered, S2 Set_Prm acknowledged, S3 Chk_Cfg acknowledged, S4 readiness confirmed)", p.addr, self.adm[k]),
                    ));
                }
                if ssap.is_some() {
                    return Err(Failure::new("saps", format!("Data_Exchange with SSAP {:?}", ssap)));
                }
                if self.fault_between_prm_and_dx[k] {
                    self.nontrivial = true;
                }
                self.seen_prm[k] = false;
                self.fault_between_prm_and_dx[k] = false;
            }
            Service::SetPrm => {
                self.set_prm_seen += 1;
                self.seen_prm[k] = true;
                if *ssap != Some(62) {
                    return Err(Failure::new("saps", format!("Set_Prm sent from SSAP {:?} (must be 62)", ssap)));
                }
                let want = expected_set_prm(v, k);
                if *pdu != want {
                    return Err(Failure::new("set-prm-bytes", format!("Set_Prm PDU for #{} is {} but the configured options give {}", p.addr, hexs(pdu), hexs(&want))));
                }
                // watchdog factors relation
                if let Some(ms) = v.cfg.watchdog_ms {
                    let (f1, f2) = (u64::from(pdu[1]), u64::from(pdu[2]));
                    let t = ms / 10;
                    if pdu[0] & 0x08 == 0 || f1 == 0 || f2 == 0 || f1 * f2 < t || f1 * f2 >= t + f1 {
                        return Err(Failure::new("watchdog-factors", format!("watchdog factors {}x{} (WD_On={}) for a requested time of {} ms", f1, f2, pdu[0] & 0x08 != 0, ms)));
                    }
                    if v.fdl.parameters().watchdog_factors != Some((pdu[1], pdu[2])) {
                        return Err(Failure::new("watchdog-factors", "factors on the wire differ from parameters().watchdog_factors".to_string()));
                    }
                } else if pdu[0] & 0x08 != 0 {
                    return Err(Failure::new("watchdog-factors", "WD_On set although no watchdog was configured".to_string()));
                }
            }
            Service::ChkCfg => {
                self.chk_cfg_seen += 1;
                if *ssap != Some(62) {
                    return Err(Failure::new("saps", format!("Chk_Cfg sent from SSAP {:?} (must be 62)", ssap)));
                }
                let want = p.config.clone().unwrap_or_default();
                if *pdu != want {
                    return Err(Failure::new("chk-cfg-bytes", format!("Chk_Cfg PDU for #{} is {} but the configured bytes are {}", p.addr, hexs(pdu), hexs(&want))));
                }
            }
            Service::Diag => {
                if *ssap != Some(62) || !pdu.is_empty() {
                    return Err(Failure::new("saps", format!("Slave_Diag request with SSAP {:?} and {} payload bytes", ssap, pdu.len())));
                }
            }
            Service::Other => {
                return Err(Failure::new("saps", format!("request to DSAP {:?} which is none of the standard bring-up / data exchange SAPs", dsap)));
            }
        }
        if !rc::request_expects_reply(*fc) {
            return Err(Failure::new("service", format!("bring-up request with unacknowledged function code {:#04x}", fc)));
        }
        Ok(())
    }

    fn on_delivery(&mut self, _v: &mut View, k: usize, req: &RefFrame, d: &Delivered) -> Result<(), Failure> {
        let svc = service_of(req);
        let mut fault = true;
        if let Delivered::Reply(r) = d {
            match (svc, r) {
                (Service::Diag, r) if is_diag_reply(r) => {
                    let RefFrame::Data { pdu, .. } = r else { unreachable!() };
                    let not_ready = pdu[0] & 0x02 != 0;
                    let cfg_fault = pdu[0] & 0x04 != 0;
                    let prm_fault = pdu[0] & 0x40 != 0;
                    let prm_req = pdu[1] & 0x01 != 0;
                    match self.adm[k] {
                        0 => self.adm[k] = 1,
                        3 => {
                            if prm_req && !prm_fault && !cfg_fault {
                                self.adm[k] = 1;
                            } else if !not_ready && !cfg_fault && !prm_fault && !prm_req {
                                self.adm[k] = 4;
                                self.reached_s4[k] = true;
                            }
                        }
                        _ => {}
                    }
                    fault = not_ready || cfg_fault || prm_fault || prm_req;
                }
                (Service::SetPrm, RefFrame::Sc) => {
                    if self.adm[k] == 1 {
                        self.adm[k] = 2;
                    }
                    fault = false;
                }
                (Service::ChkCfg, RefFrame::Sc) => {
                    if self.adm[k] == 2 {
                        self.adm[k] = 3;
                    }
                    fault = false;
                }
                (Service::DataExchange, RefFrame::Data { fc, dsap: None, ssap: None, .. }) => {
                    if fc & 0x0F == 0x03 && self.adm[k] == 4 {
                        self.adm[k] = 3;
                    }
                    fault = false;
                }
                (Service::DataExchange, RefFrame::Sc) => fault = false,
                _ => {}
            }
        }
        if fault && self.seen_prm[k] {
            self.fault_between_prm_and_dx[k] = true;
        }
        Ok(())
    }

    fn on_events(&mut self, _v: &mut View, _cc: bool, ev: Option<(usize, PeripheralEvent)>, _after: bool) -> Result<(), Failure> {
        if let Some((k, e)) = ev {
            if matches!(e, PeripheralEvent::Offline | PeripheralEvent::ParameterError | PeripheralEvent::ConfigError) {
                if self.adm[k] == 4 {
                    self.reset_after_s4 = true;
                }
                self.adm[k] = 0;
            }
        }
        Ok(())
    }

    fn on_user(&mut self, _v: &mut View, act: &UserAct) -> Result<(), Failure> {
        // the application asks for a fresh parameterisation
        if let UserAct::ResetAddress(k) = act {
            if self.adm[*k] == 4 {
                self.reset_after_s4 = true;
            }
            self.adm[*k] = 0;
        }
        Ok(())
    }

    fn on_slave_reset(&mut self, _v: &mut View, k: usize) -> Result<(), Failure> {
        if self.reached_s4[k] {
            self.nontrivial = true;
        }
        if self.seen_prm[k] {
            self.fault_between_prm_and_dx[k] = true;
        }
        Ok(())
    }

    fn finish(&mut self, v: &mut View, obs: &mut Obs) -> Result<(), Failure> {
        obs.count("data_exchange_requests", self.dx_seen);
        obs.count("set_prm", self.set_prm_seen);
        obs.count("chk_cfg", self.chk_cfg_seen);
        if self.nontrivial {
            obs.label("fault-between-set-prm-and-first-dx-or-power-cycle-after-s4");
        }
        if self.dx_seen > 0 {
            obs.label("reached-data-exchange");
        }
        let _ = v;
        Ok(())
    }
}

// ---------------------------------------------------------------------------------------------
// C04: process images
// ---------------------------------------------------------------------------------------------

pub struct C04Oracle {
    pub i_model: Vec<Vec<u8>>,
    pub pending_dx_event: Option<(usize, bool)>,
    pub accepted: u64,
    pub rejected: u64,
    pub dx_requests: u64,
    last_req_was_dx: Option<usize>,
}

impl C04Oracle {
    pub fn new(cfg: &DpCfg) -> Self {
        C04Oracle {
            i_model: cfg.pers.iter().map(|p| vec![0u8; p.in_len]).collect(),
            pending_dx_event: None,
            accepted: 0,
            rejected: 0,
            dx_requests: 0,
            last_req_was_dx: None,
        }
    }
}

impl DpOracle for C04Oracle {
    fn on_request(&mut self, v: &mut View, k: usize, req: &RefFrame, _raw: &[u8]) -> Result<(), Failure> {
        self.last_req_was_dx = None;
        if service_of(req) == Service::DataExchange {
            let RefFrame::Data { pdu, .. } = req else { unreachable!() };
            self.dx_requests += 1;
            self.last_req_was_dx = Some(k);
            if *pdu != v.q_model[k] {
                return Err(Failure::new("outputs", format!("Data_Exchange request to #{} carries {} but the output image as last written is {}", v.cfg.pers[k].addr, hexs(pdu), hexs(&v.q_model[k]))));
            }
        }
        Ok(())
    }
    fn on_delivery(&mut self, v: &mut View, k: usize, req: &RefFrame, d: &Delivered) -> Result<(), Failure> {
        self.pending_dx_event = None;
        if service_of(req) != Service::DataExchange {
            return Ok(());
        }
        let in_len = v.cfg.pers[k].in_len;
        let mut updated = false;
        match d {
            Delivered::Reply(RefFrame::Data { fc, pdu, dsap: None, ssap: None, .. }) => {
                let ok_status = matches!(fc & 0x0F, 0x00 | 0x08 | 0x0A);
                if ok_status && pdu.len() == in_len {
                    self.i_model[k] = pdu.clone();
                    updated = true;
                }
            }
            // a response carrying SAPs is not a Data_Exchange response ("wrong SAPs", "wrong kind"):
            // it must not update the image
            Delivered::Reply(RefFrame::Data { .. }) => {}
            Delivered::Reply(RefFrame::Sc) => {
                if in_len == 0 {
                    updated = true;
                }
            }
            _ => {}
        }
        if updated {
            self.accepted += 1;
        } else if matches!(d, Delivered::Reply(_)) {
            self.rejected += 1;
        }
        self.pending_dx_event = Some((k, updated));
        Ok(())
    }
    fn on_events(&mut self, v: &mut View, _cc: bool, ev: Option<(usize, PeripheralEvent)>, after_reply: bool) -> Result<(), Failure> {
        if after_reply {
            if let Some((k, want)) = self.pending_dx_event.take() {
                let got = matches!(ev, Some((kk, PeripheralEvent::DataExchanged)) if kk == k);
                if got != want {
                    return Err(Failure::new(
                        "dataexchanged-event",
                        format!("DataExchanged event {} for #{} but the reply {} an update of the input image", if got { "reported" } else { "missing" }, v.cfg.pers[k].addr, if want { "was" } else { "was not" }),
                    ));
                }
            } else if let Some((k, PeripheralEvent::DataExchanged)) = ev {
                if self.last_req_was_dx != Some(k) {
                    return Err(Failure::new("dataexchanged-event", format!("DataExchanged event for #{} without a Data_Exchange message cycle", v.cfg.pers[k].addr)));
                }
            }
        } else if let Some((k, PeripheralEvent::DataExchanged)) = ev {
            return Err(Failure::new("dataexchanged-event", format!("DataExchanged event for #{} out of transmit_telegram", v.cfg.pers[k].addr)));
        }
        Ok(())
    }
    fn after_callback(&mut self, v: &mut View) -> Result<(), Failure> {
        for (k, h) in v.handles.iter() {
            let p = v.master.get_mut(*h);
            if p.pi_i() != &self.i_model[*k][..] {
                return Err(Failure::new(
                    "inputs",
                    format!("input image of #{} is {} but the model (last well-formed reply of the configured length) is {}", v.cfg.pers[*k].addr, hexs(p.pi_i()), hexs(&self.i_model[*k])),
                ));
            }
            if p.pi_q() != &v.q_model[*k][..] {
                return Err(Failure::new("outputs-clobbered", format!("output image of #{} changed without a user write", v.cfg.pers[*k].addr)));
            }
        }
        Ok(())
    }
    fn finish(&mut self, _v: &mut View, obs: &mut Obs) -> Result<(), Failure> {
        obs.count("accepted_updates", self.accepted);
        obs.count("rejected_replies", self.rejected);
        obs.count("dx_requests", self.dx_requests);
        Ok(())
    }
}

// ---------------------------------------------------------------------------------------------
// C08: FCB / retry discipline
// ---------------------------------------------------------------------------------------------

#[derive(Clone, Copy, Debug, PartialEq, Eq)]
pub enum Class {
    None,
    Good,
    Odd,
}

#[derive(Clone, Debug)]
struct LastReq {
    fcv: bool,
    fcb: bool,
    svc: Service,
    class: Class,
    bytes: Vec<u8>,
}

pub struct C08Oracle {
    last: Vec<Option<LastReq>>,
    expect_first: Vec<bool>,
    live: Vec<bool>,
    run_len: Vec<u32>,
    offline_since_run: Vec<bool>,
    pub retransmissions: u64,
    pub offline_events: u64,
    pub online_events: u64,
    pub user_diag_outstanding: u64,
    outstanding: Option<usize>,
    awaiting_offline: Vec<bool>,
    /// consecutive requests to the peripheral that were not answered by an acceptable reply
    nongood_run: Vec<u32>,
}

impl C08Oracle {
    pub fn new(n: usize) -> Self {
        C08Oracle {
            last: vec![None; n],
            expect_first: vec![true; n],
            live: vec![false; n],
            run_len: vec![0; n],
            offline_since_run: vec![false; n],
            retransmissions: 0,
            offline_events: 0,
            online_events: 0,
            user_diag_outstanding: 0,
            outstanding: None,
            awaiting_offline: vec![false; n],
            nongood_run: vec![0; n],
        }
    }
}

pub fn classify(svc: Service, in_len: usize, d: &Delivered) -> Class {
    match d {
        Delivered::Nothing => Class::None,
        Delivered::Reply(r) => match (svc, r) {
            (Service::Diag, r) if is_diag_reply(r) => Class::Good,
            (Service::SetPrm, RefFrame::Sc) | (Service::ChkCfg, RefFrame::Sc) => Class::Good,
            (Service::DataExchange, RefFrame::Sc) if in_len == 0 => Class::Good,
            (Service::DataExchange, RefFrame::Data { fc, pdu, dsap: None, ssap: None, .. }) if matches!(fc & 0x0F, 0 | 8 | 10) && pdu.len() == in_len => Class::Good,
            _ => Class::Odd,
        },
    }
}

impl DpOracle for C08Oracle {
    fn on_request(&mut self, v: &mut View, k: usize, req: &RefFrame, raw: &[u8]) -> Result<(), Failure> {
        let RefFrame::Data { fc, .. } = req else { unreachable!() };
        let (fcv, fcb) = rc::fc_fcv_fcb(*fc);
        let svc = service_of(req);
        let addr = v.cfg.pers[k].addr;
        let max_retry = u32::from(v.cfg.max_retry);
        if self.awaiting_offline[k] {
            return Err(Failure::new("retry-limit", format!("request to #{addr} after {} unanswered transmissions without an Offline event in between", 1 + max_retry)));
        }
        if !self.live[k] && svc != Service::Diag {
            return Err(Failure::new("probe-kind", format!("peripheral #{addr} is not live but is sent a {:?} request (only diagnostics probes are allowed)", svc)));
        }
        if self.expect_first[k] {
            if fcv || !fcb {
                return Err(Failure::new("first-fcb", format!("first request to #{addr} after start-up / Offline carries FCV={} FCB={} (must be FCV=0 FCB=1): {}", fcv as u8, fcb as u8, hexs(raw))));
            }
            self.expect_first[k] = false;
            self.run_len[k] = 1;
        } else if let Some(p) = &self.last[k] {
            let same = p.fcv == fcv && p.fcb == fcb;
            match p.class {
                Class::None => {
                    if !(same && p.svc == svc) {
                        return Err(Failure::new(
                            "retransmission",
                            format!("request to #{addr} got no reply, but the next request is not its retransmission: {:?} FCV={} FCB={} -> {:?} FCV={} FCB={}", p.svc, p.fcv as u8, p.fcb as u8, svc, fcv as u8, fcb as u8),
                        ));
                    }
                    if p.bytes != raw && svc != Service::DataExchange {
                        return Err(Failure::new("retransmission", format!("retransmission to #{addr} differs from the original: {} vs {}", hexs(&p.bytes), hexs(raw))));
                    }
                    self.retransmissions += 1;
                    if self.live[k] {
                        self.run_len[k] += 1;
                        if self.run_len[k] > 1 + max_retry {
                            return Err(Failure::new("retry-limit", format!("unanswered request to #{addr} transmitted {} times with max_retry_limit = {}", self.run_len[k], max_retry)));
                        }
                    }
                }
                Class::Good => {
                    if !fcv || fcb == p.fcb {
                        return Err(Failure::new(
                            "fcb-toggle",
                            format!("request to #{addr} after an accepted reply carries FCV={} FCB={} (previous FCB={}); it must toggle with FCV=1", fcv as u8, fcb as u8, p.fcb as u8),
                        ));
                    }
                    self.run_len[k] = 1;
                }
                Class::Odd => {
                    if same && p.svc != svc {
                        return Err(Failure::new("fcb-reuse", format!("same frame count bit reused towards #{addr} for a different service: {:?} -> {:?}", p.svc, svc)));
                    }
                    if same {
                        // counts as a retransmission after a rejected reply
                        self.retransmissions += 1;
                    } else if !fcv {
                        return Err(Failure::new("fcb-toggle", format!("request to #{addr} with FCV=0 in the middle of a sequence")));
                    }
                    self.run_len[k] = 1;
                }
            }
        }
        self.last[k] = Some(LastReq { fcv, fcb, svc, class: Class::None, bytes: raw.to_vec() });
        self.outstanding = Some(k);
        Ok(())
    }
    fn on_delivery(&mut self, v: &mut View, k: usize, req: &RefFrame, d: &Delivered) -> Result<(), Failure> {
        let c = classify(service_of(req), v.cfg.pers[k].in_len, d);
        if let Some(l) = self.last[k].as_mut() {
            l.class = c;
        }
        if c == Class::Good {
            self.nongood_run[k] = 0;
        } else {
            self.nongood_run[k] += 1;
        }
        if c == Class::None && self.live[k] && self.run_len[k] >= 1 + u32::from(v.cfg.max_retry) {
            // the limit is reached: the next thing concerning k must be the Offline event
            self.awaiting_offline[k] = true;
        }
        Ok(())
    }
    fn on_user(&mut self, _v: &mut View, act: &UserAct) -> Result<(), Failure> {
        if let UserAct::RequestDiag(k) = act {
            if self.outstanding == Some(*k) {
                self.user_diag_outstanding += 1;
            }
        }
        if let UserAct::ResetAddress(k) = act {
            // a freshly reset peripheral: not live, frame count bit starts over
            self.live[*k] = false;
            self.expect_first[*k] = true;
            self.awaiting_offline[*k] = false;
            self.last[*k] = None;
            self.run_len[*k] = 0;
            self.nongood_run[*k] = 0;
        }
        Ok(())
    }
    fn on_events(&mut self, v: &mut View, _cc: bool, ev: Option<(usize, PeripheralEvent)>, after_reply: bool) -> Result<(), Failure> {
        if after_reply {
            self.outstanding = None;
        }
        if let Some((k, e)) = ev {
            match e {
                PeripheralEvent::Offline => {
                    self.offline_events += 1;
                    if !self.live[k] {
                        return Err(Failure::new("offline-twice", format!("second Offline event for #{} without it having come back", v.cfg.pers[k].addr)));
                    }
                    // the retry counter starts over with every acceptable reply: Offline needs a run of
                    // 1 + max_retry_limit requests without one
                    if self.nongood_run[k] < 1 + u32::from(v.cfg.max_retry) {
                        return Err(Failure::new("offline-although-answered", format!("Offline event for #{} although only the last {} request(s) to it went without an acceptable reply (retry limit {})", v.cfg.pers[k].addr, self.nongood_run[k], v.cfg.max_retry)));
                    }
                    self.live[k] = false;
                    self.expect_first[k] = true;
                    self.awaiting_offline[k] = false;
                    self.last[k] = None;
                }
                PeripheralEvent::Online => {
                    self.online_events += 1;
                    self.live[k] = true;
                    self.run_len[k] = 0;
                }
                PeripheralEvent::ParameterError | PeripheralEvent::ConfigError => {
                    self.live[k] = false;
                }
                _ => {}
            }
        }
        Ok(())
    }
    fn finish(&mut self, _v: &mut View, obs: &mut Obs) -> Result<(), Failure> {
        obs.count("retransmissions", self.retransmissions);
        obs.count("offline_events", self.offline_events);
        obs.count("online_events", self.online_events);
        if self.user_diag_outstanding > 0 {
            obs.label("user-diag-request-while-request-outstanding");
        }
        Ok(())
    }
}

// ---------------------------------------------------------------------------------------------
// C14: cycles and event accounting
// ---------------------------------------------------------------------------------------------

pub struct C14Oracle {
    runs: Vec<usize>,
    idle_cycles: Vec<u32>,
    added: Vec<bool>,
    live: Vec<bool>,
    configured: Vec<bool>,
    callbacks_since_cycle: u64,
    pub cycles: u64,
    pub events: u64,
    pub interrupted_cycles: u64,
    turn_ended_mid_cycle: bool,
    turn_kind: Option<(Service, u8)>,
}

impl C14Oracle {
    pub fn new(cfg: &DpCfg) -> Self {
        let n = cfg.pers.len();
        C14Oracle {
            runs: vec![],
            idle_cycles: vec![0; n],
            added: cfg.pers.iter().map(|p| p.add_at_start).collect(),
            live: vec![false; n],
            configured: vec![false; n],
            callbacks_since_cycle: 0,
            cycles: 0,
            events: 0,
            interrupted_cycles: 0,
            turn_ended_mid_cycle: false,
            turn_kind: None,
        }
    }
    fn slot_of(v: &View, k: usize) -> usize {
        // storage slot order = order of addition (add() fills the first free slot, nothing removes)
        v.handles.iter().position(|(i, _)| *i == k).unwrap()
    }
}

impl DpOracle for C14Oracle {
    fn on_added(&mut self, _v: &mut View, k: usize) -> Result<(), Failure> {
        self.added[k] = true;
        self.idle_cycles[k] = 0;
        Ok(())
    }
    fn on_request(&mut self, v: &mut View, k: usize, req: &RefFrame, _raw: &[u8]) -> Result<(), Failure> {
        // a turn is one request plus its retransmissions: every further request of the turn is the same
        // service with the same function code (the payload of Data_Exchange may follow the outputs)
        let RefFrame::Data { fc, .. } = req else { unreachable!() };
        let kind = (service_of(req), *fc);
        if self.runs.last() == Some(&k) {
            if self.turn_kind.is_none() {
                self.turn_kind = Some(kind);
            }
            if let Some(first) = self.turn_kind {
                if first != kind {
                    return Err(Failure::new("turn-mixes-requests", format!("the turn of peripheral #{} began with {:?} (function code {:#04x}) and continues with {:?} (function code {:#04x}): a turn is one request plus its retransmissions", v.cfg.pers[k].addr, first.0, first.1, kind.0, kind.1)));
                }
            }
        } else {
            self.turn_kind = Some(kind);
        }
        if self.runs.last() != Some(&k) {
            if self.runs.contains(&k) {
                return Err(Failure::new("second-turn", format!("peripheral #{} gets a second turn within one DP cycle (turns so far: {:?})", v.cfg.pers[k].addr, self.runs.iter().map(|i| v.cfg.pers[*i].addr).collect::<Vec<_>>())));
            }
            if let Some(l) = self.runs.last() {
                if Self::slot_of(v, *l) > Self::slot_of(v, k) {
                    return Err(Failure::new("slot-order", format!("turn of #{} (slot {}) after #{} (slot {}) within one DP cycle", v.cfg.pers[k].addr, Self::slot_of(v, k), v.cfg.pers[*l].addr, Self::slot_of(v, *l))));
                }
            }
            self.runs.push(k);
        }
        Ok(())
    }
    fn on_user(&mut self, _v: &mut View, act: &UserAct) -> Result<(), Failure> {
        if let UserAct::ResetAddress(k) = act {
            self.live[*k] = false;
            self.configured[*k] = false;
            // a freshly reset peripheral starts over, also in the middle of its turn
            self.turn_kind = None;
        }
        Ok(())
    }
    fn on_turn_end(&mut self, _v: &mut View) -> Result<(), Failure> {
        if !self.runs.is_empty() {
            self.turn_ended_mid_cycle = true;
        }
        Ok(())
    }
    fn on_events(&mut self, v: &mut View, cycle_completed: bool, ev: Option<(usize, PeripheralEvent)>, _after: bool) -> Result<(), Failure> {
        self.callbacks_since_cycle += 1;
        if let Some((k, e)) = ev {
            self.events += 1;
            use PeripheralEvent::*;
            let a = v.cfg.pers[k].addr;
            match e {
                Online => {
                    if self.live[k] {
                        return Err(Failure::new("lifecycle", format!("Online event for #{a} which is already live")));
                    }
                    self.live[k] = true;
                    self.configured[k] = false;
                }
                Offline | ParameterError | ConfigError => {
                    if !self.live[k] {
                        return Err(Failure::new("lifecycle", format!("{:?} event for #{a} which is not live", e)));
                    }
                    self.live[k] = false;
                    self.configured[k] = false;
                }
                Configured => {
                    if !self.live[k] {
                        return Err(Failure::new("lifecycle", format!("Configured event for #{a} which is not live")));
                    }
                    self.configured[k] = true;
                }
                DataExchanged | Diagnostics => {
                    if !self.live[k] || !self.configured[k] {
                        return Err(Failure::new("lifecycle", format!("{:?} event for #{a} before Online + Configured", e)));
                    }
                    if e == DataExchanged {
                        let h = v.handles.iter().find(|(i, _)| *i == k).unwrap().1;
                        if !v.master.get_mut(h).is_running() {
                            return Err(Failure::new("lifecycle", format!("DataExchanged event for #{a} but is_running() is false")));
                        }
                    }
                }
            }
        }
        if cycle_completed {
            self.cycles += 1;
            if self.turn_ended_mid_cycle {
                self.interrupted_cycles += 1;
            }
            self.turn_ended_mid_cycle = false;
            for k in 0..self.added.len() {
                let complete = v.cfg.pers[k].user_prm.is_some() && v.cfg.pers[k].config.is_some();
                if !self.added[k] || !complete {
                    continue;
                }
                if self.runs.contains(&k) {
                    self.idle_cycles[k] = 0;
                } else {
                    self.idle_cycles[k] += 1;
                    if self.idle_cycles[k] > 2 {
                        return Err(Failure::new("no-turn", format!("peripheral #{} got no request during {} consecutive DP cycles", v.cfg.pers[k].addr, self.idle_cycles[k])));
                    }
                }
            }
            self.runs.clear();
            self.callbacks_since_cycle = 0;
        } else if !v.poll_driven {
            let n = self.added.iter().filter(|a| **a).count() as u64;
            let bound = n * (u64::from(v.cfg.max_retry) + 3) * 2 + 8;
            if self.callbacks_since_cycle > bound {
                return Err(Failure::new("cycle-never-completes", format!("{} callbacks without a 'cycle completed' report ({} peripherals, max_retry {})", self.callbacks_since_cycle, n, v.cfg.max_retry)));
            }
        }
        Ok(())
    }
    fn after_callback(&mut self, v: &mut View) -> Result<(), Failure> {
        for (k, h) in v.handles.iter() {
            let p = v.master.get_mut(*h);
            if p.is_live() != self.live[*k] {
                return Err(Failure::new("is-live", format!("is_live() of #{} is {} but the event stream says {}", v.cfg.pers[*k].addr, p.is_live(), self.live[*k])));
            }
            if p.is_running() && !(self.live[*k] && self.configured[*k]) {
                return Err(Failure::new("is-running", format!("is_running() of #{} is true before Online + Configured were reported", v.cfg.pers[*k].addr)));
            }
        }
        Ok(())
    }
    fn finish(&mut self, _v: &mut View, obs: &mut Obs) -> Result<(), Failure> {
        obs.count("dp_cycles", self.cycles);
        obs.count("events", self.events);
        obs.count("cycles_interrupted_by_turn_end", self.interrupted_cycles);
        Ok(())
    }
}

// ---------------------------------------------------------------------------------------------
// C07: bounded liveness after the fault history
// ---------------------------------------------------------------------------------------------

pub struct C07Oracle {
    /// events per peripheral since the last Offline (or start)
    since_offline: Vec<Vec<PeripheralEvent>>,
    pub offline_before_clean: Vec<u32>,
    pub clean_cycles: u64,
    pub satisfied_at_cycle: Option<u64>,
    pub start_state_fingerprint: u64,
    pub all_running_at_start: bool,
}

impl C07Oracle {
    pub fn new(n: usize) -> Self {
        C07Oracle {
            since_offline: vec![vec![]; n],
            offline_before_clean: vec![0; n],
            clean_cycles: 0,
            satisfied_at_cycle: None,
            start_state_fingerprint: 0,
            all_running_at_start: false,
        }
    }
    pub fn bound(cfg: &DpCfg) -> u64 {
        36 + 6 * u64::from(cfg.max_retry)
    }
    /// snapshot at the beginning of the fault-free phase
    pub fn begin_clean(&mut self, v: &mut View) {
        let mut key: Vec<(bool, bool, String, Option<(u8, bool)>)> = vec![];
        let mut all = true;
        for (k, h) in v.handles.iter() {
            let p = v.master.get_mut(*h);
            all &= p.is_running();
            key.push((p.is_live(), p.is_running(), format!("{:?}", v.slaves[*k].state), v.slaves[*k].stored));
        }
        self.all_running_at_start = all;
        self.start_state_fingerprint = fingerprint(&key);
    }
}

impl DpOracle for C07Oracle {
    fn on_user(&mut self, _v: &mut View, act: &UserAct) -> Result<(), Failure> {
        if let UserAct::ResetAddress(k) = act {
            self.since_offline[*k].clear();
        }
        Ok(())
    }
    fn on_clean_phase(&mut self, v: &mut View) -> Result<(), Failure> {
        self.begin_clean(v);
        Ok(())
    }
    fn finish(&mut self, v: &mut View, obs: &mut Obs) -> Result<(), Failure> {
        if !self.all_running_at_start {
            obs.label("fault-free-phase-starts-from-non-running-state");
            obs.nontrivial(fingerprint(&(self.start_state_fingerprint, v.cfg.max_retry, v.cfg.pers.len())));
        }
        if let Some(c) = self.satisfied_at_cycle {
            obs.count("cycles_until_back_in_data_exchange", c);
        }
        obs.count("offline_events_during_history", self.offline_before_clean.iter().map(|x| u64::from(*x)).sum());
        Ok(())
    }
    fn on_events(&mut self, v: &mut View, cycle_completed: bool, ev: Option<(usize, PeripheralEvent)>, _after: bool) -> Result<(), Failure> {
        if let Some((k, e)) = ev {
            if e == PeripheralEvent::Offline {
                self.since_offline[k].clear();
                if v.fault_free_since_cycle.is_none() {
                    self.offline_before_clean[k] += 1;
                }
            } else {
                self.since_offline[k].push(e);
            }
        }
        if v.fault_free_since_cycle.is_some() && cycle_completed {
            self.clean_cycles += 1;
            // satisfied?
            let mut ok = true;
            for (k, h) in v.handles.iter() {
                let complete = v.cfg.pers[*k].user_prm.is_some() && v.cfg.pers[*k].config.is_some() && v.cfg.pers[*k].slave_matches;
                if !complete {
                    continue;
                }
                let p = v.master.get_mut(*h);
                let evs = &self.since_offline[*k];
                let pos = |x: PeripheralEvent| evs.iter().position(|e| *e == x);
                let seq_ok = match (pos(PeripheralEvent::Online), pos(PeripheralEvent::Configured), evs.iter().rposition(|e| *e == PeripheralEvent::DataExchanged)) {
                    (Some(a), Some(b), Some(c)) => a < b && b < c,
                    // never went offline since start of history and running all the time: Online..Configured are in there as well
                    _ => false,
                };
                let slave_ok = v.slaves[*k].state == SlaveState::DataExch && v.slaves[*k].locked_by == Some(v.cfg.master_addr);
                if !(p.is_running() && seq_ok && slave_ok) {
                    ok = false;
                }
            }
            if ok && self.satisfied_at_cycle.is_none() {
                self.satisfied_at_cycle = Some(self.clean_cycles);
            }
            if !ok {
                self.satisfied_at_cycle = None;
                if self.clean_cycles > Self::bound(v.cfg) {
                    let mut why = String::new();
                    for (k, h) in v.handles.iter() {
                        let p = v.master.get_mut(*h);
                        why.push_str(&format!(" #{}: running={} live={} slave={:?} locked_by={:?} events_since_offline={:?};", v.cfg.pers[*k].addr, p.is_running(), p.is_live(), v.slaves[*k].state, v.slaves[*k].locked_by, self.since_offline[*k]));
                    }
                    return Err(Failure::new("not-back-in-data-exchange", format!("{} fault-free DP cycles after the fault history (bound {}) not every healthy peripheral is back in data exchange:{}", self.clean_cycles, Self::bound(v.cfg), why)));
                }
            }
        }
        Ok(())
    }
}
