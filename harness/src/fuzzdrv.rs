//! Driver for libFuzzer campaigns (thorough tier).  Filled in together with /verif/fuzz.
use crate::engine::Runner;

pub fn run_fuzz(_runner: &mut Runner, target: &'static str, _runs: u64) {
    eprintln!("note: fuzz target {target} not wired up yet");
}
