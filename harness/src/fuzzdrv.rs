//! Driver for the libFuzzer campaigns of the thorough tier (harness/fuzz, built with cargo-fuzz).
//! A campaign is bounded by a number of executions (fixed work), starts from a fresh corpus seeded
//! with a few generated inputs, and every crash artefact is re-executed in-process through the
//! same sub-check so that the reported replay file fails the same oracle.
use crate::engine::*;
use serde_json::json;
use std::process::Command;

struct Target {
    prop: &'static str,
    kind: &'static str,
    station: bool,
    max_len: usize,
}

fn target_info(t: &str) -> Target {
    match t {
        "fz_decoder" => Target { prop: "C10", kind: "fuzz_bytes", station: false, max_len: 262 },
        "fz_diag" => Target { prop: "C17", kind: "fuzz_bytes", station: false, max_len: 246 },
        "fz_gsd" => Target { prop: "C19", kind: "fuzz_bytes", station: false, max_len: 600 },
        "fz_station" => Target { prop: "C05", kind: "programs_small", station: true, max_len: 400 },
        _ => panic!("unknown fuzz target {t}"),
    }
}

fn to_tape(info: &Target, bytes: &[u8]) -> Vec<u32> {
    if info.station {
        tape_from_bytes(bytes)
    } else {
        bytes.iter().map(|b| u32::from(*b)).collect()
    }
}

fn harness_dir() -> String {
    // the binary lives in <harness>/target/release/pbcheck
    let exe = std::env::current_exe().expect("current_exe");
    exe.parent().and_then(|p| p.parent()).and_then(|p| p.parent()).expect("harness dir").display().to_string()
}

pub fn run_fuzz(runner: &mut Runner, target: &'static str, runs: u64) {
    let info = target_info(target);
    assert_eq!(info.prop, runner.prop.id, "fuzz target {target} does not belong to {}", runner.prop.id);
    let hd = harness_dir();
    let build = Command::new("cargo").args(["+nightly", "fuzz", "build", target]).current_dir(&hd).env("CARGO_NET_OFFLINE", "true").output();
    match build {
        Ok(o) if o.status.success() => {}
        Ok(o) => {
            eprintln!("INCONCLUSIVE: cargo fuzz build {target} failed:\n{}", String::from_utf8_lossy(&o.stderr).lines().rev().take(20).collect::<Vec<_>>().into_iter().rev().collect::<Vec<_>>().join("\n"));
            std::process::exit(2);
        }
        Err(e) => {
            eprintln!("INCONCLUSIVE: cannot run cargo fuzz: {e}");
            std::process::exit(2);
        }
    }
    let work = format!("{hd}/fuzz/work/{target}");
    let _ = std::fs::remove_dir_all(&work);
    let corpus = format!("{work}/corpus");
    let artifacts = format!("{work}/artifacts/");
    std::fs::create_dir_all(&corpus).unwrap();
    std::fs::create_dir_all(&artifacts).unwrap();
    // seed corpus: generated inputs of typical shapes
    let mut r = SplitMix(runner.seed ^ fingerprint(&target));
    for i in 0..24 {
        let n = match i % 4 {
            0 => 6,
            1 => 14,
            2 => 1 + r.below(60) as usize,
            _ => 1 + r.below(info.max_len as u64 / 2) as usize,
        };
        let mut b: Vec<u8> = (0..n).map(|_| r.next() as u8).collect();
        if !info.station && i % 2 == 0 {
            // look like a frame
            let frames: [&[u8]; 4] = [&[0x10, 0x22, 0x02, 0x49, 0x6D, 0x16], &[0xDC, 0x07, 0x0F], &[0x68, 0x05, 0x05, 0x68, 0x85, 0x82, 0x08, 0x3E, 0x3C, 0x09, 0x16], &[0xE5]];
            b = frames[i / 2 % 4].to_vec();
        }
        std::fs::write(format!("{corpus}/seed-{i:02}"), &b).unwrap();
    }
    let bin = format!("{hd}/fuzz/target/x86_64-unknown-linux-gnu/release/{target}");
    let workers = workers().min(16) as u64;
    let per_job = (runs / workers).max(1);
    let status = Command::new(&bin)
        .args([
            &format!("-artifact_prefix={artifacts}"),
            &format!("-runs={per_job}"),
            &format!("-seed={}", (runner.seed % 0xFFFF_FFFF).max(1)),
            "-len_control=0",
            &format!("-max_len={}", info.max_len),
            &format!("-jobs={workers}"),
            &format!("-workers={workers}"),
            "-print_final_stats=1",
            &corpus,
        ])
        .current_dir(&work)
        .output();
    let out = match status {
        Ok(o) => o,
        Err(e) => {
            eprintln!("INCONCLUSIVE: cannot start {bin}: {e}");
            std::process::exit(2);
        }
    };
    // executions actually done (from the per-job logs)
    let mut executed = 0u64;
    if let Ok(rd) = std::fs::read_dir(&work) {
        for e in rd.filter_map(|e| e.ok()) {
            let p = e.path();
            if p.extension().map(|x| x == "log").unwrap_or(false) {
                if let Ok(text) = std::fs::read_to_string(&p) {
                    for l in text.lines() {
                        if let Some(rest) = l.strip_prefix("stat::number_of_executed_units:") {
                            executed += rest.trim().parse::<u64>().unwrap_or(0);
                        }
                    }
                }
            }
        }
    }
    let corpus_files: Vec<std::path::PathBuf> = std::fs::read_dir(&corpus).map(|rd| rd.filter_map(|e| e.ok()).map(|e| e.path()).collect()).unwrap_or_default();
    let mut obs = Obs::default();
    // crashes
    let crashes: Vec<std::path::PathBuf> = std::fs::read_dir(&artifacts).map(|rd| rd.filter_map(|e| e.ok()).map(|e| e.path()).collect()).unwrap_or_default();
    let mut tolerated = std::collections::BTreeMap::new();
    for c in &crashes {
        let Ok(bytes) = std::fs::read(c) else { continue };
        let tape = to_tape(&info, &bytes);
        let data = ReplayData::Tape(tape);
        let was = runner.strict;
        runner.strict = true;
        let r = runner.replay(info.kind, &data);
        runner.strict = was;
        match r {
            Err(fl) => {
                let known = !runner.strict && runner.known.iter().any(|k| k.signature == fl.signature);
                if known {
                    *tolerated.entry(fl.signature.clone()).or_insert(0u64) += 1;
                } else if runner.violations.is_empty() {
                    runner.violations.push(Violation { kind: info.kind.to_string(), data, failure: Failure::new(fl.signature, format!("found by libFuzzer target {target} ({}): {}", c.display(), fl.msg)) });
                }
            }
            Ok(()) => {
                eprintln!("INCONCLUSIVE: libFuzzer artefact {} of {target} does not fail when replayed in-process (timeout / out-of-memory / sanitizer report?)", c.display());
                eprintln!("{}", String::from_utf8_lossy(&out.stderr).lines().rev().take(15).collect::<Vec<_>>().into_iter().rev().collect::<Vec<_>>().join("\n"));
                std::process::exit(2);
            }
        }
    }
    if !out.status.success() && crashes.is_empty() {
        eprintln!("INCONCLUSIVE: {target} exited with {:?} without leaving an artefact", out.status.code());
        std::process::exit(2);
    }
    // evidence: corpus entries are the distinct (coverage increasing) cases
    obs.begin_public();
    for (i, p) in corpus_files.iter().enumerate() {
        if let Ok(b) = std::fs::read(p) {
            obs.nontrivial(fingerprint(&b));
            if i < 3 {
                let h: String = b.iter().take(64).map(|x| format!("{:02x}", x)).collect::<Vec<_>>().join(" ");
                obs.sample_force(json!({"corpus_entry": h, "len": b.len()}));
            }
        }
    }
    obs.commit_public();
    runner.reports.push(StepReport {
        kind: target.to_string(),
        what: format!("libFuzzer campaign, entry {}::{} (same oracle as the proptest front end)", info.prop, info.kind),
        mode: format!("coverage-guided, {executed} executions in {workers} jobs, fresh corpus seeded with 24 generated inputs, final corpus {} entries", corpus_files.len()),
        evaluations: executed.max(1),
        exhaustive: false,
        obs,
        tolerated,
    });
}
