//! Instrumented applications and scripted peers for C13 / C15 / C18.
use crate::engine::Tape;
use crate::refcodec::{self as rc, RefFrame};
use crate::ringsim::VirtualNode;
use crate::simbus::TxRecord;
use profirust::fdl::{DataTelegramHeader, FdlActiveStation, FdlApplication, FrameCountBit, FunctionCode, HighPrioOnly, RequestType, Telegram, TelegramTx, TelegramTxResponse};
use profirust::time::Instant;
use std::cell::RefCell;
use std::collections::BTreeMap;
use std::rc::Rc;

#[derive(Debug, Clone)]
pub enum Cb {
    /// transmit_telegram was called; `sent`: (destination, expects a reply)
    Tx { t: i64, station: usize, app: usize, sent: Option<(u8, bool)>, hp: bool },
    Reply { t: i64, station: usize, app: usize, addr: u8, frame: RefFrame },
    Timeout { t: i64, station: usize, app: usize, addr: u8 },
}

impl Cb {
    pub fn t(&self) -> i64 {
        match self {
            Cb::Tx { t, .. } | Cb::Reply { t, .. } | Cb::Timeout { t, .. } => *t,
        }
    }
    pub fn station(&self) -> usize {
        match self {
            Cb::Tx { station, .. } | Cb::Reply { station, .. } | Cb::Timeout { station, .. } => *station,
        }
    }
}

pub type Log = Rc<RefCell<Vec<Cb>>>;

#[derive(Debug, Clone, Copy, PartialEq, Eq)]
pub enum ReqKind {
    SrdLow,
    SrdHigh,
    SdaLow,
    SdnLow,
    SdnHigh,
    SdaHigh,
    MulticastSrd,
    FdlStatus,
    Ident,
    LsapStatus,
    TimeEvent,
    ClockValue,
}

#[derive(Debug, Clone)]
pub struct AppSpec {
    /// telegrams per turn before declining (0 = never sends, u32::MAX = always hungry)
    pub burst: u32,
    pub targets: Vec<u8>,
    pub kind: ReqKind,
    pub pdu_len: usize,
}

pub struct TrafficApp {
    pub station: usize,
    pub idx: usize,
    pub log: Log,
    pub spec: AppSpec,
    pub left: u32,
    pub own: u8,
    pub n_sent: u64,
}

impl TrafficApp {
    pub fn new(station: usize, idx: usize, own: u8, spec: AppSpec, log: Log) -> Self {
        TrafficApp { station, idx, log, left: spec.burst, spec, own, n_sent: 0 }
    }
}

pub fn telegram_to_ref(t: &Telegram) -> RefFrame {
    match t {
        Telegram::Token(t) => RefFrame::Token { da: t.da, sa: t.sa },
        Telegram::ShortConfirmation(_) => RefFrame::Sc,
        Telegram::Data(d) => RefFrame::Data { da: d.h.da, sa: d.h.sa, dsap: d.h.dsap, ssap: d.h.ssap, fc: d.h.fc.to_byte(), pdu: d.pdu.to_vec() },
    }
}

impl FdlApplication for TrafficApp {
    fn transmit_telegram(&mut self, now: Instant, _fdl: &FdlActiveStation, tx: TelegramTx, hp: HighPrioOnly) -> Option<TelegramTxResponse> {
        let hp = hp == HighPrioOnly::Yes;
        if self.left == 0 || self.spec.targets.is_empty() {
            self.left = self.spec.burst;
            self.log.borrow_mut().push(Cb::Tx { t: now.total_micros(), station: self.station, app: self.idx, sent: None, hp });
            return None;
        }
        if self.spec.burst != u32::MAX {
            self.left -= 1;
        }
        let target = self.spec.targets[(self.n_sent as usize) % self.spec.targets.len()];
        self.n_sent += 1;
        let req = match self.spec.kind {
            ReqKind::SrdLow => RequestType::SrdLow,
            ReqKind::SrdHigh => RequestType::SrdHigh,
            ReqKind::SdaLow => RequestType::SdaLow,
            ReqKind::SdnLow => RequestType::SdnLow,
            ReqKind::SdnHigh => RequestType::SdnHigh,
            ReqKind::SdaHigh => RequestType::SdaHigh,
            ReqKind::MulticastSrd => RequestType::MulticastSrd,
            ReqKind::FdlStatus => RequestType::FdlStatus,
            ReqKind::Ident => RequestType::Ident,
            ReqKind::LsapStatus => RequestType::LsapStatus,
            ReqKind::TimeEvent => RequestType::TimeEvent,
            ReqKind::ClockValue => RequestType::ClockValue,
        };
        // whether a reply is to be expected is taken from the frame format (reference codec), not
        // from the crate under test
        let expects = rc::request_expects_reply(FunctionCode::Request { fcb: FrameCountBit::First, req }.to_byte());
        self.log.borrow_mut().push(Cb::Tx { t: now.total_micros(), station: self.station, app: self.idx, sent: Some((target, expects)), hp });
        let fill = 0x50 + self.idx as u8;
        Some(tx.send_data_telegram(
            DataTelegramHeader { da: target, sa: self.own, dsap: Some(40 + self.idx as u8), ssap: Some(41), fc: FunctionCode::Request { fcb: FrameCountBit::First, req } },
            self.spec.pdu_len,
            |b| b.fill(fill),
        ))
    }
    fn receive_reply(&mut self, now: Instant, _fdl: &FdlActiveStation, addr: u8, telegram: Telegram) {
        self.log.borrow_mut().push(Cb::Reply { t: now.total_micros(), station: self.station, app: self.idx, addr, frame: telegram_to_ref(&telegram) });
    }
    fn handle_timeout(&mut self, now: Instant, _fdl: &FdlActiveStation, addr: u8) {
        self.log.borrow_mut().push(Cb::Timeout { t: now.total_micros(), station: self.station, app: self.idx, addr });
    }
}

pub fn gen_app_spec(t: &mut Tape, targets: &[u8], allow_hungry: bool) -> AppSpec {
    let burst = match t.weighted(&[2, 5, if allow_hungry { 2 } else { 0 }]) {
        0 => 0,
        1 => 1 + t.below(5) as u32,
        _ => u32::MAX,
    };
    let nt = 1 + t.below(2) as usize;
    let tg: Vec<u8> = (0..nt).map(|_| *t.pick(targets)).collect();
    AppSpec {
        burst,
        targets: tg,
        kind: *t.pick(&[ReqKind::SrdLow, ReqKind::SrdLow, ReqKind::SrdHigh, ReqKind::SdaLow, ReqKind::SdnLow, ReqKind::SdnHigh, ReqKind::SrdLow, ReqKind::SrdHigh, ReqKind::SdaHigh, ReqKind::MulticastSrd, ReqKind::Ident, ReqKind::LsapStatus, ReqKind::TimeEvent, ReqKind::ClockValue, ReqKind::FdlStatus]),
        pdu_len: match t.below(4) {
            0 => 0,
            1 => t.below(240) as usize,
            _ => t.below(20) as usize,
        },
    }
}

/// Passive stations (DP slaves / status-only stations) for a ring simulation: some inside the
/// masters' address range (i.e. inside GAPs), some above HSA.  The simulation must have been created
/// with one virtual node.
pub fn add_passive_peers(sim: &mut crate::ringsim::Sim, t: &mut Tape) -> Vec<u8> {
    let masters = sim.cfg.sorted_addrs();
    let hsa = sim.cfg.hsa;
    let max_delay = u64::from(sim.cfg.slot_bits) - 15;
    let mut peers: BTreeMap<u8, (PeerKind, u64)> = BTreeMap::new();
    let n = t.below(5) as usize;
    for _ in 0..n {
        let a = if t.chance(2, 3) { t.below(u64::from(hsa)) as u8 } else { t.below(126) as u8 };
        if masters.contains(&a) {
            continue;
        }
        let k = *t.pick(&[PeerKind::StatusOnly, PeerKind::DpSlave, PeerKind::FdlOnly]);
        peers.insert(a, (k, 11 + t.below(max_delay - 10)));
    }
    let addrs: Vec<u8> = peers.keys().copied().collect();
    sim.virtuals.push(Box::new(Peers { peers, shared: None, bit_ns: sim.cfg.bits_ns(1000).max(1) / 1000, answered: 0 }));
    addrs
}

// ---------------------------------------------------------------------------------------------

#[derive(Debug, Clone, Copy, PartialEq, Eq, Hash)]
pub enum PeerKind {
    /// conforming responder: answers after `delay_bits` (>= 11, <= Tslot - 15)
    Answer,
    Silent,
    /// answers after the slot time (N9: outside the slave contract; only C13/C15 generate it)
    Late,
    /// response carrying another station's address as source
    ForeignSource,
    /// response addressed to another station
    ForeignDest,
    /// answers with a request instead of a response
    RequestInstead,
    /// answers with a token frame
    TokenReply,
    /// answers FDL status requests only (passive station)
    StatusOnly,
    /// answers FDL status requests only, with a response status other than OK (RR / RS / UE by address)
    OddStatus,
    /// DP slave: answers FDL status requests and Slave_Diag requests (ident = 0x4000 + address)
    DpSlave,
    /// FDL-only station: answers FDL status requests; every other request gets the negative
    /// acknowledgement RS (service not activated)
    FdlOnly,
    /// defective device: every reply breaks off after a few bytes (a status reply after three, any
    /// other after the header of a long telegram); it never answers anything
    Defective,
}

pub struct Peers {
    pub peers: BTreeMap<u8, (PeerKind, u64)>, // addr -> (kind, delay bits)
    /// population that can change while the simulation runs (takes precedence when present)
    pub shared: Option<Rc<RefCell<BTreeMap<u8, (PeerKind, u64)>>>>,
    pub bit_ns: i64,
    pub answered: u64,
}

impl VirtualNode for Peers {
    fn on_telegram(&mut self, _rec: &TxRecord, frame: Option<&RefFrame>, _own_id: usize) -> Vec<(i64, Vec<u8>)> {
        let Some(RefFrame::Data { da, sa, dsap, ssap, fc, .. }) = frame else { return vec![] };
        if !rc::fc_is_request(*fc) || !rc::request_expects_reply(*fc) {
            return vec![];
        }
        let found = match &self.shared {
            Some(sh) => sh.borrow().get(da).copied(),
            None => self.peers.get(da).copied(),
        };
        let Some((kind, delay_bits)) = found else { return vec![] };
        let delay = self.bit_ns * delay_bits as i64;
        let is_status = fc & 0x0F == 9 && dsap.is_none();
        let normal = if is_status {
            rc::encode(&RefFrame::status_reply(*sa, *da, 0))
        } else if fc & 0x0F == 3 || fc & 0x0F == 5 {
            vec![rc::SC] // SDA is acknowledged with a short confirmation
        } else {
            rc::encode(&RefFrame::Data { da: *sa, sa: *da, dsap: *ssap, ssap: *dsap, fc: 0x08, pdu: vec![7, 7, 7] })
        };
        let out = match kind {
            PeerKind::Silent => return vec![],
            PeerKind::StatusOnly => {
                if is_status {
                    normal
                } else {
                    return vec![];
                }
            }
            PeerKind::OddStatus => {
                if is_status {
                    rc::encode(&RefFrame::Data { da: *sa, sa: *da, dsap: None, ssap: None, fc: [0x02u8, 0x03, 0x01][usize::from(*da) % 3], pdu: vec![] })
                } else {
                    return vec![];
                }
            }
            PeerKind::Defective => {
                if is_status {
                    normal[..3].to_vec()
                } else {
                    vec![rc::SD2, 0xD9, 0xD9, rc::SD2, *sa, *da, 0x08]
                }
            }
            PeerKind::Answer | PeerKind::Late => normal,
            PeerKind::FdlOnly => {
                if is_status {
                    normal
                } else {
                    // 'service not activated', with the SAPs mirrored or without any, by address
                    if *da % 2 == 0 {
                        rc::encode(&RefFrame::Data { da: *sa, sa: *da, dsap: None, ssap: None, fc: 0x03, pdu: vec![] })
                    } else {
                        rc::encode(&RefFrame::Data { da: *sa, sa: *da, dsap: *ssap, ssap: *dsap, fc: 0x03, pdu: vec![] })
                    }
                }
            }
            PeerKind::DpSlave => {
                if is_status {
                    normal
                } else if *dsap == Some(60) {
                    let ident = 0x4000u16 + u16::from(*da);
                    // diagnostics of varying (legal) shape: plain; Ext_Diag set with a device block;
                    // a status block appended with the Ext_Diag flag clear; other flags, locked by a master
                    let (hi, lo) = ((ident >> 8) as u8, ident as u8);
                    let pdu = match (usize::from(*da) + self.answered as usize) % 4 {
                        0 => vec![0x02, 0x05, 0x00, 0xFF, hi, lo],
                        1 => vec![0x0A, 0x05, 0x00, 0xFF, hi, lo, 0x04, 0x11, 0x22, 0x33],
                        2 => vec![0x02, 0x05, 0x00, 0xFF, hi, lo, 0x05, 0x81, 0x00, 0x00, 0x00],
                        _ => vec![0x00, 0x0C, 0x00, 0x07, hi, lo],
                    };
                    rc::encode(&RefFrame::Data { da: *sa, sa: *da, dsap: *ssap, ssap: Some(60), fc: 0x08, pdu })
                } else {
                    return vec![];
                }
            }
            PeerKind::ForeignSource => rc::encode(&RefFrame::Data { da: *sa, sa: (*da + 1) % 126, dsap: *ssap, ssap: *dsap, fc: 0x08, pdu: vec![1] }),
            PeerKind::ForeignDest => rc::encode(&RefFrame::Data { da: (*sa + 1) % 126, sa: *da, dsap: *ssap, ssap: *dsap, fc: 0x08, pdu: vec![2] }),
            PeerKind::RequestInstead => rc::encode(&RefFrame::Data { da: *sa, sa: *da, dsap: *ssap, ssap: *dsap, fc: 0x6C, pdu: vec![3] }),
            PeerKind::TokenReply => vec![rc::SD4, *sa, *da],
        };
        self.answered += 1;
        vec![(delay, out)]
    }
}
