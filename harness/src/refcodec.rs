//! Reference FDL frame codec written from the PROFIBUS frame format, sharing no code with
//! profirust's `fdl/telegram.rs`.
//!
//! SD1 `10 DA SA FC FCS 16`, SD2 `68 LE LEr 68 DA SA FC [DSAP] [SSAP] PDU.. FCS 16`,
//! SD3 `A2 DA SA FC d0..d7 FCS 16`, SD4 `DC DA SA`, SC `E5`.  Bit 7 of DA / SA announces a DSAP /
//! SSAP byte at the start of the data unit.  FCS = arithmetic sum of DA..last data byte mod 256.
//! LE counts DA, SA, FC and the data unit.

pub const SD1: u8 = 0x10;
pub const SD2: u8 = 0x68;
pub const SD3: u8 = 0xA2;
pub const SD4: u8 = 0xDC;
pub const SC: u8 = 0xE5;
pub const ED: u8 = 0x16;

#[derive(Debug, Clone, PartialEq, Eq, Hash)]
pub enum RefFrame {
    Token {
        da: u8,
        sa: u8,
    },
    Sc,
    Data {
        da: u8,
        sa: u8,
        dsap: Option<u8>,
        ssap: Option<u8>,
        fc: u8,
        pdu: Vec<u8>,
    },
}

#[derive(Debug, Clone, PartialEq, Eq)]
pub enum RefVerdict {
    /// Fewer bytes than the frame announces.  `viable`: every check that can already be
    /// evaluated passes, i.e. some completion would be accepted.
    Short { announced: Option<usize>, viable: bool },
    Reject,
    Accept(RefFrame, usize),
}

/// Valid request codes (bit 6 set): bits 0-3 service, bit 7 only for the clock value service.
pub fn request_code_valid(fc: u8) -> bool {
    matches!(fc & 0x8F, 0x80 | 0 | 3 | 4 | 5 | 6 | 7 | 9 | 12 | 13 | 14 | 15)
}
/// Valid response codes (bit 6 clear): bits 4-5 station type (any), bits 0-3 status.
pub fn response_code_valid(fc: u8) -> bool {
    matches!(fc & 0x0F, 0 | 1 | 2 | 3 | 8 | 9 | 10 | 12 | 13)
}
pub fn fc_valid(fc: u8) -> bool {
    if fc & 0x40 != 0 {
        request_code_valid(fc)
    } else {
        response_code_valid(fc)
    }
}
pub fn fc_is_request(fc: u8) -> bool {
    fc & 0x40 != 0
}
/// (FCV, FCB) of a request code.
pub fn fc_fcv_fcb(fc: u8) -> (bool, bool) {
    (fc & 0x10 != 0, fc & 0x20 != 0)
}
/// Does a request with this code expect an answer (acknowledged / request services)?
pub fn request_expects_reply(fc: u8) -> bool {
    // SDN (4, 6), time event (0) and clock value (0x80) are unacknowledged
    !matches!(fc & 0x8F, 0x80 | 0 | 4 | 6)
}

fn sum(bytes: &[u8]) -> u8 {
    bytes.iter().fold(0u8, |a, b| a.wrapping_add(*b))
}

pub fn encode(frame: &RefFrame) -> Vec<u8> {
    match frame {
        RefFrame::Token { da, sa } => vec![SD4, *da, *sa],
        RefFrame::Sc => vec![SC],
        RefFrame::Data {
            da,
            sa,
            dsap,
            ssap,
            fc,
            pdu,
        } => {
            let mut body = vec![
                da | if dsap.is_some() { 0x80 } else { 0 },
                sa | if ssap.is_some() { 0x80 } else { 0 },
                *fc,
            ];
            if let Some(d) = dsap {
                body.push(*d);
            }
            if let Some(s) = ssap {
                body.push(*s);
            }
            body.extend_from_slice(pdu);
            let le = body.len();
            let mut out = vec![];
            if le == 3 {
                out.push(SD1);
            } else if le == 11 {
                out.push(SD3);
            } else {
                assert!(le <= 255);
                out.extend_from_slice(&[SD2, le as u8, le as u8, SD2]);
            }
            let fcs = sum(&body);
            out.extend_from_slice(&body);
            out.push(fcs);
            out.push(ED);
            out
        }
    }
}

/// The same data telegram framed with a variable-length header even where the fixed formats SD1
/// (no data) / SD3 (8 data bytes) would do - legal on the wire, never produced by `encode`.
pub fn encode_sd2(frame: &RefFrame) -> Vec<u8> {
    let canonical = encode(frame);
    let body: Vec<u8> = match canonical[0] {
        SD1 => canonical[1..4].to_vec(),
        SD3 => canonical[1..12].to_vec(),
        _ => return canonical,
    };
    let le = body.len() as u8;
    let mut out = vec![SD2, le, le, SD2];
    out.extend_from_slice(&body);
    out.push(sum(&body));
    out.push(ED);
    out
}

pub fn decode(buf: &[u8]) -> RefVerdict {
    if buf.is_empty() {
        return RefVerdict::Short {
            announced: None,
            viable: true,
        };
    }
    match buf[0] {
        SC => RefVerdict::Accept(RefFrame::Sc, 1),
        SD4 => {
            if buf.len() < 3 {
                RefVerdict::Short {
                    announced: Some(3),
                    viable: true,
                }
            } else {
                RefVerdict::Accept(
                    RefFrame::Token {
                        da: buf[1],
                        sa: buf[2],
                    },
                    3,
                )
            }
        }
        SD1 => decode_body(buf, 1, 3),
        SD3 => decode_body(buf, 1, 11),
        SD2 => {
            // header 68 LE LEr 68
            let le = buf.get(1).copied();
            let ler = buf.get(2).copied();
            let sd2 = buf.get(3).copied();
            let mut viable = true;
            if let (Some(a), Some(b)) = (le, ler) {
                viable &= a == b;
            }
            if let Some(a) = le {
                viable &= a >= 3;
            }
            if let Some(s) = sd2 {
                viable &= s == SD2;
            }
            match le {
                None => RefVerdict::Short {
                    announced: None,
                    viable,
                },
                Some(le) => {
                    let total = usize::from(le) + 6;
                    if buf.len() < total {
                        // evaluate whatever part of the body is present
                        let viable = viable && body_viable(&buf[4.min(buf.len())..], usize::from(le));
                        RefVerdict::Short {
                            announced: Some(total),
                            viable,
                        }
                    } else if !viable {
                        RefVerdict::Reject
                    } else {
                        decode_body(buf, 4, usize::from(le))
                    }
                }
            }
        }
        _ => RefVerdict::Reject,
    }
}

/// Checks on a (possibly partial) body DA SA FC .. of announced length `le`.
fn body_viable(body: &[u8], le: usize) -> bool {
    let mut need = 3;
    if let Some(da) = body.first() {
        if da & 0x80 != 0 {
            need += 1;
        }
    }
    if let Some(sa) = body.get(1) {
        if sa & 0x80 != 0 {
            need += 1;
        }
    }
    if le < need {
        return false;
    }
    if let Some(fc) = body.get(2) {
        if !fc_valid(*fc) {
            return false;
        }
    }
    true
}

fn decode_body(buf: &[u8], off: usize, le: usize) -> RefVerdict {
    let total = off + le + 2;
    if buf.len() < total {
        return RefVerdict::Short {
            announced: Some(total),
            viable: body_viable(&buf[off.min(buf.len())..], le),
        };
    }
    let body = &buf[off..off + le];
    if !body_viable(body, le) {
        return RefVerdict::Reject;
    }
    let fcs = buf[off + le];
    let ed = buf[off + le + 1];
    if fcs != sum(body) || ed != ED {
        return RefVerdict::Reject;
    }
    let mut p = 3;
    let dsap = if body[0] & 0x80 != 0 {
        p += 1;
        Some(body[p - 1])
    } else {
        None
    };
    let ssap = if body[1] & 0x80 != 0 {
        p += 1;
        Some(body[p - 1])
    } else {
        None
    };
    RefVerdict::Accept(
        RefFrame::Data {
            da: body[0] & 0x7F,
            sa: body[1] & 0x7F,
            dsap,
            ssap,
            fc: body[2],
            pdu: body[p..].to_vec(),
        },
        total,
    )
}

/// Decode everything in a byte string that was transmitted in one go (used for bus traces).
pub fn decode_one(buf: &[u8]) -> Option<RefFrame> {
    match decode(buf) {
        RefVerdict::Accept(f, n) if n == buf.len() => Some(f),
        _ => None,
    }
}

impl RefFrame {
    /// The decoder under test ignores the reserved bit 7 of a response function code (0x82 is read
    /// like 0x02); comparisons with its output are made on this normal form.
    pub fn normalised(&self) -> RefFrame {
        match self.clone() {
            RefFrame::Data { da, sa, dsap, ssap, fc, pdu } if !fc_is_request(fc) => RefFrame::Data { da, sa, dsap, ssap, fc: fc & 0x7F, pdu },
            other => other,
        }
    }
    pub fn sa(&self) -> Option<u8> {
        match self {
            RefFrame::Token { sa, .. } => Some(*sa),
            RefFrame::Data { sa, .. } => Some(*sa),
            RefFrame::Sc => None,
        }
    }
    pub fn da(&self) -> Option<u8> {
        match self {
            RefFrame::Token { da, .. } => Some(*da),
            RefFrame::Data { da, .. } => Some(*da),
            RefFrame::Sc => None,
        }
    }
    pub fn is_token(&self) -> bool {
        matches!(self, RefFrame::Token { .. })
    }
    pub fn is_request(&self) -> bool {
        matches!(self, RefFrame::Data { fc, .. } if fc_is_request(*fc))
    }
    pub fn is_response(&self) -> bool {
        matches!(self, RefFrame::Data { fc, .. } if !fc_is_request(*fc))
    }
    /// Convenience constructors used by the scripted environment.
    pub fn status_request(da: u8, sa: u8) -> RefFrame {
        RefFrame::Data {
            da,
            sa,
            dsap: None,
            ssap: None,
            fc: 0x49,
            pdu: vec![],
        }
    }
    /// FDL status reply; `state`: 0 slave, 1 master not ready, 2 master ready, 3 master in ring.
    pub fn status_reply(da: u8, sa: u8, state: u8) -> RefFrame {
        RefFrame::Data {
            da,
            sa,
            dsap: None,
            ssap: None,
            fc: state << 4,
            pdu: vec![],
        }
    }
}
