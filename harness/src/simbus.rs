//! SimBus / SimPhy: a single-threaded model of a half-duplex RS-485 bus that implements
//! profirust's public `ProfibusPhy` trait.  Unlike `phy::SimulatorPhy` it never panics: timing and
//! overlaps are recorded in a trace and judged afterwards by the oracles.
//!
//! Time: polls happen at whole microseconds (profirust's clock resolution); byte boundaries are
//! computed in nanoseconds from the exact baud rate (no cumulative rounding).

use profirust::phy::ProfibusPhy;
use profirust::time::Instant;
use std::cell::RefCell;
use std::collections::VecDeque;
use std::rc::Rc;

#[derive(Clone, Debug)]
pub struct TxRecord {
    pub start_ns: i64,
    pub end_ns: i64,
    pub sender: usize,
    /// bytes as handed to the PHY
    pub bytes: Vec<u8>,
    /// bytes as they went over the wire (after injected faults)
    pub wire: Vec<u8>,
    /// another transmission was still in progress when this one started
    pub overlapped: bool,
    /// a fault was injected into this transmission
    pub faulted: bool,
}

#[derive(Clone, Debug, PartialEq, Eq)]
pub enum Fault {
    /// nothing reaches anybody
    Drop,
    /// only the first `keep` bytes are transmitted (keep >= 1 is clamped to len)
    Truncate(usize),
    /// flip one bit
    FlipBit(usize, u8),
    /// replace one byte
    Substitute(usize, u8),
}

pub struct BusInner {
    pub rate: u64,
    pub trace: Vec<TxRecord>,
    /// per node: bytes in flight (arrival_ns, byte)
    rx: Vec<VecDeque<(i64, u8, usize)>>,
    /// per node: bytes that have arrived and were not consumed yet
    buf: Vec<Vec<u8>>,
    /// per node: total number of bytes that ever arrived in `buf`
    pub arrived: Vec<u64>,
    /// per node: own transmit intervals (half duplex: nothing is heard meanwhile)
    own_tx: Vec<Vec<(i64, i64)>>,
    tx_end_ns: Vec<i64>,
    /// per node: delay between `transmit_data` and the first bit on the wire (a PHY whose
    /// transmission finishes later than nominal: UART FIFO, USB adapter); 0 by default
    pub tx_latency_us: Vec<i64>,
    pub next_fault: Vec<Option<Fault>>,
    /// like `next_fault`, but waits for the node's next token pass (`DC da sa`, da != sa)
    pub next_token_fault: Vec<Option<Fault>>,
    /// per node: number of telegrams per source address that a reference receive path (reference
    /// decoder, everything buffered is discarded on a decode error) delivered from the very buffers
    /// the node's receive helpers were shown
    pub ref_sa_seen: Vec<Vec<u32>>,
    /// per node: leading buffered bytes that the reference receive path would already have discarded
    ref_taint: Vec<usize>,
    /// everything on the wire inside these windows is garbled
    pub corrupt_windows: Vec<(i64, i64)>,
    /// when true, a node does not receive while it is itself transmitting
    pub half_duplex: bool,
}

impl BusInner {
    pub fn bits_ns(&self, bits: u64) -> i64 {
        ((bits as i128) * 1_000_000_000 / (self.rate as i128)) as i64
    }
    pub fn bytes_ns(&self, n: usize) -> i64 {
        self.bits_ns(n as u64 * 11)
    }
    pub fn busy_until(&self) -> i64 {
        self.trace.iter().map(|t| t.end_ns).max().unwrap_or(i64::MIN)
    }

    pub fn transmit(&mut self, id: usize, now_us: i64, data: Vec<u8>) {
        if data.is_empty() {
            return;
        }
        let start_ns = (now_us + self.tx_latency_us.get(id).copied().unwrap_or(0)) * 1000;
        let end_ns = start_ns + self.bytes_ns(data.len());
        let overlapped = self
            .trace
            .iter()
            .rev()
            .take(8)
            .any(|t| t.end_ns > start_ns && t.sender != id);
        self.tx_end_ns[id] = end_ns;
        self.own_tx[id].push((start_ns, end_ns));
        if self.own_tx[id].len() > 4 {
            self.own_tx[id].remove(0);
        }
        let mut wire = data.clone();
        let mut fault = self.next_fault[id].take();
        if fault.is_none() && data.len() == 3 && data[0] == 0xDC && data[1] != data[2] {
            fault = self.next_token_fault[id].take();
        }
        let mut dropped = false;
        match &fault {
            Some(Fault::Drop) => dropped = true,
            Some(Fault::Truncate(k)) => wire.truncate((*k).clamp(1, data.len())),
            Some(Fault::FlipBit(p, b)) => {
                let p = *p % wire.len();
                wire[p] ^= 1 << (b % 8);
            }
            Some(Fault::Substitute(p, v)) => {
                let p = *p % wire.len();
                wire[p] = *v;
            }
            None => {}
        }
        if dropped {
            wire.clear();
        }
        // Overlap with transmissions still in progress: garble both for everybody else.
        if overlapped {
            for q in self.rx.iter_mut() {
                for (arr, b, _) in q.iter_mut() {
                    if *arr > start_ns {
                        *b = b.wrapping_mul(31).wrapping_add(0x55) | 0x01;
                    }
                }
            }
        }
        let busy_until = self
            .trace
            .iter()
            .rev()
            .take(8)
            .filter(|t| t.sender != id)
            .map(|t| t.end_ns)
            .max()
            .unwrap_or(i64::MIN);
        for (i, b) in wire.iter().enumerate() {
            let byte_start = start_ns + self.bytes_ns(i);
            let arr = start_ns + self.bytes_ns(i + 1);
            let mut v = *b;
            if byte_start < busy_until {
                v = v.wrapping_mul(29).wrapping_add(0xAA) | 0x02;
            }
            if self
                .corrupt_windows
                .iter()
                .any(|(a, z)| byte_start < *z && arr > *a)
            {
                v = v.wrapping_mul(13).wrapping_add(0x33);
            }
            for r in 0..self.rx.len() {
                if r != id {
                    self.rx[r].push_back((arr, v, id));
                }
            }
        }
        self.trace.push(TxRecord {
            start_ns,
            end_ns,
            sender: id,
            bytes: data,
            wire,
            overlapped,
            faulted: fault.is_some(),
        });
    }

    fn pump(&mut self, id: usize, now_us: i64) {
        let now_ns = now_us * 1000;
        while let Some((arr, byte, _)) = self.rx[id].front().copied() {
            if arr <= now_ns {
                self.rx[id].pop_front();
                let deaf = self.half_duplex
                    && self.own_tx[id].iter().any(|(s, e)| arr > *s && arr <= *e);
                if !deaf {
                    self.buf[id].push(byte);
                    self.arrived[id] += 1;
                }
            } else {
                break;
            }
        }
    }
}

#[derive(Clone)]
pub struct Bus(pub Rc<RefCell<BusInner>>);

impl Bus {
    pub fn new(rate: u64, nodes: usize) -> Self {
        Bus(Rc::new(RefCell::new(BusInner {
            rate,
            trace: vec![],
            rx: vec![VecDeque::new(); nodes],
            buf: vec![vec![]; nodes],
            arrived: vec![0; nodes],
            own_tx: vec![vec![]; nodes],
            tx_end_ns: vec![i64::MIN; nodes],
            tx_latency_us: vec![0; nodes],
            next_fault: vec![None; nodes],
            next_token_fault: vec![None; nodes],
            ref_sa_seen: vec![vec![0; 128]; nodes],
            ref_taint: vec![0; nodes],
            corrupt_windows: vec![],
            half_duplex: true,
        })))
    }
    pub fn phy(&self, id: usize) -> SimPhy {
        SimPhy {
            bus: self.clone(),
            id,
        }
    }
    /// Transmission by a virtual (scripted) node.
    pub fn inject(&self, id: usize, now_us: i64, data: &[u8]) {
        self.0.borrow_mut().transmit(id, now_us, data.to_vec());
    }
    /// Forget everything node `id` has received so far (models a UART that was off).
    pub fn clear_rx(&self, id: usize, now_us: i64) {
        let mut b = self.0.borrow_mut();
        let now_ns = now_us * 1000;
        b.rx[id].retain(|(arr, _, _)| *arr > now_ns);
        b.buf[id].clear();
    }
    /// The transmitter of node `id` dies at `now`: bytes that have not left yet never arrive.
    pub fn cut_transmission(&self, id: usize, now_us: i64) {
        let mut b = self.0.borrow_mut();
        let now_ns = now_us * 1000;
        for q in b.rx.iter_mut() {
            q.retain(|(arr, _, s)| !(*s == id && *arr > now_ns));
        }
        if b.tx_end_ns[id] > now_ns {
            b.tx_end_ns[id] = now_ns;
            if let Some(r) = b.trace.iter_mut().rev().find(|r| r.sender == id) {
                if r.end_ns > now_ns {
                    r.end_ns = now_ns;
                    r.faulted = true;
                }
            }
        }
    }
    pub fn trace_len(&self) -> usize {
        self.0.borrow().trace.len()
    }
    pub fn bits_ns(&self, bits: u64) -> i64 {
        self.0.borrow().bits_ns(bits)
    }
    pub fn pending(&self, id: usize) -> usize {
        self.0.borrow().buf[id].len()
    }
}

pub struct SimPhy {
    pub bus: Bus,
    pub id: usize,
}

impl ProfibusPhy for SimPhy {
    fn poll_transmission(&mut self, now: Instant) -> bool {
        let b = self.bus.0.borrow();
        now.total_micros() * 1000 < b.tx_end_ns[self.id]
    }

    fn transmit_data<F, R>(&mut self, now: Instant, f: F) -> R
    where
        F: FnOnce(&mut [u8]) -> (usize, R),
    {
        // like the hardware PHYs, hand out a long-lived buffer with stale contents
        let mut buffer: Vec<u8> = (0..256usize).map(|i| (i as u8).wrapping_mul(151).wrapping_add(0x5B) | 0x08).collect();
        let (length, res) = f(&mut buffer);
        buffer.truncate(length);
        self.bus
            .0
            .borrow_mut()
            .transmit(self.id, now.total_micros(), buffer);
        res
    }

    fn receive_data<F, R>(&mut self, now: Instant, f: F) -> R
    where
        F: FnOnce(&[u8]) -> (usize, R),
    {
        let data = {
            let mut b = self.bus.0.borrow_mut();
            b.pump(self.id, now.total_micros());
            std::mem::take(&mut b.buf[self.id])
        };
        let (drop_n, res) = f(&data);
        // like every PHY of the crate: dropping more than is buffered is a contract violation
        assert!(drop_n <= data.len(), "PHY contract: receive_data closure wants to drop {} bytes but only {} are pending", drop_n, data.len());
        if !data.is_empty() {
            // reference receive path: its buffer is the suffix data[taint..] of the real one (the
            // reference may already have discarded more than the code under test did)
            let mut b = self.bus.0.borrow_mut();
            let taint = b.ref_taint[self.id].min(data.len());
            let mut ref_consumed = taint;
            if taint < data.len() {
                match crate::refcodec::decode(&data[taint..]) {
                    crate::refcodec::RefVerdict::Accept(fr, n) => {
                        if let Some(sa) = fr.sa() {
                            b.ref_sa_seen[self.id][usize::from(sa & 0x7F)] += 1;
                        }
                        ref_consumed = taint + n;
                    }
                    crate::refcodec::RefVerdict::Reject => ref_consumed = data.len(),
                    crate::refcodec::RefVerdict::Short { .. } => {}
                }
            }
            // whatever the code under test drops beyond that is gone for the reference as well
            b.ref_taint[self.id] = ref_consumed.saturating_sub(drop_n);
        }
        if !data.is_empty() && std::env::var("PBVERIF_RXDUMP").is_ok() {
            eprintln!("RX node {} t={} buf={:02x?} drop={}", self.id, now.total_micros(), data, drop_n);
        }
        let mut b = self.bus.0.borrow_mut();
        // bytes cannot arrive while f runs (single threaded), so this is the whole remainder
        b.buf[self.id] = data[drop_n..].to_vec();
        res
    }
}

/// A PHY fed explicitly with chunks of bytes (used where a property quantifies over chunkings).
#[derive(Default)]
pub struct ChunkPhy {
    pub buf: Vec<u8>,
    pub sent: Vec<Vec<u8>>,
    pub consumed: u64,
    /// bytes that arrive right before the k-th `receive_data` call counted from `calls == 0` (the
    /// hardware PHYs read their UART on every call, so data can arrive in the middle of one
    /// invocation of a receive helper)
    pub arrival: Option<(usize, Vec<u8>)>,
    pub calls: usize,
    /// calls are counted (and the arrival happens) only while this is set: during the invocation
    /// under test, not during the observations of the check itself
    pub counting: bool,
}

impl ProfibusPhy for ChunkPhy {
    fn poll_transmission(&mut self, _now: Instant) -> bool {
        false
    }
    fn transmit_data<F, R>(&mut self, _now: Instant, f: F) -> R
    where
        F: FnOnce(&mut [u8]) -> (usize, R),
    {
        // like the hardware PHYs, hand out a long-lived buffer with stale contents
        let mut buffer: Vec<u8> = (0..256usize).map(|i| (i as u8).wrapping_mul(151).wrapping_add(0x5B) | 0x08).collect();
        let (length, res) = f(&mut buffer);
        buffer.truncate(length);
        if length > 0 {
            self.sent.push(buffer);
        }
        res
    }
    fn receive_data<F, R>(&mut self, _now: Instant, f: F) -> R
    where
        F: FnOnce(&[u8]) -> (usize, R),
    {
        if self.counting {
            if matches!(&self.arrival, Some((k, _)) if *k == self.calls) {
                let (_, bytes) = self.arrival.take().unwrap();
                self.buf.extend_from_slice(&bytes);
            }
            self.calls += 1;
        }
        let (drop_n, res) = f(&self.buf);
        assert!(drop_n <= self.buf.len(), "PHY contract: receive_data closure wants to drop {} bytes but only {} are pending", drop_n, self.buf.len());
        self.buf.drain(..drop_n);
        self.consumed += drop_n as u64;
        res
    }
}
