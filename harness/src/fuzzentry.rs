//! Entry points of the libFuzzer targets (harness/fuzz): bytes are turned into the same cases the
//! proptest front end generates and run through the same oracles.  An oracle failure panics, so
//! libFuzzer records the input as a crash; panics of the code under test abort likewise.
use crate::engine::{init_logging, tape_from_bytes, CaseFn, Obs, Tape};

fn run_tape_subcheck(prop_id: &str, kind: &str, tape: &[u32]) {
    init_logging();
    thread_local! {
        static PROPS: Vec<crate::engine::Property> = crate::all_properties();
    }
    PROPS.with(|props| {
        let p = props.iter().find(|p| p.id == prop_id).expect("property");
        let s = p.subchecks.iter().find(|s| s.kind == kind).expect("sub-check");
        let CaseFn::Tape(f) = &s.f else { panic!("not a tape sub-check") };
        let mut obs = Obs::default();
        let mut t = Tape::new(tape);
        if let Err(fl) = f(&mut t, &mut obs) {
            panic!("ORACLE FAILURE [{}] {}", fl.signature, fl.msg);
        }
    });
}

fn bytes_as_tape(data: &[u8]) -> Vec<u32> {
    data.iter().map(|b| u32::from(*b)).collect()
}

pub fn decoder(data: &[u8]) {
    if data.len() > 262 {
        return;
    }
    run_tape_subcheck("C10", "fuzz_bytes", &bytes_as_tape(data));
}
pub fn diag(data: &[u8]) {
    if data.len() > 246 {
        return;
    }
    run_tape_subcheck("C17", "fuzz_bytes", &bytes_as_tape(data));
}
pub fn gsd(data: &[u8]) {
    run_tape_subcheck("C19", "fuzz_bytes", &bytes_as_tape(data));
}
pub fn station(data: &[u8]) {
    if data.len() > 600 {
        return;
    }
    run_tape_subcheck("C05", "programs_small", &tape_from_bytes(data));
}
