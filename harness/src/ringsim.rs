//! Multi-station bus simulation: real `FdlActiveStation`s polled on generated schedules, virtual
//! (event driven) nodes, and the trace oracles shared by the ring properties.

use crate::engine::{Failure, SplitMix, Tape};
use crate::refcodec::{self as rc, RefFrame};
use crate::simbus::{Bus, SimPhy, TxRecord};
use profirust::fdl::{FdlActiveStation, FdlApplication, ParametersBuilder};
use profirust::time::Instant;
use profirust::Baudrate;

pub const BAUDS: [Baudrate; 11] = [
    Baudrate::B9600,
    Baudrate::B19200,
    Baudrate::B31250,
    Baudrate::B45450,
    Baudrate::B93750,
    Baudrate::B187500,
    Baudrate::B500000,
    Baudrate::B1500000,
    Baudrate::B3000000,
    Baudrate::B6000000,
    Baudrate::B12000000,
];

pub fn min_slot_bits(b: Baudrate) -> u16 {
    match b {
        Baudrate::B500000 => 200,
        Baudrate::B1500000 => 300,
        Baudrate::B3000000 => 400,
        Baudrate::B6000000 => 600,
        Baudrate::B12000000 => 1000,
        _ => 100,
    }
}

#[derive(Clone, Debug, PartialEq, Eq, Hash)]
pub enum Schedule {
    /// every poll after a uniformly drawn delay in [1, P]
    Jitter,
    /// fixed period P
    Fixed,
    /// all stations polled at the same instants with period P
    LockStep,
    /// like Jitter, but polls are pulled onto telegram ends (+-1 us) whenever one falls into the window
    Aligned,
}

#[derive(Clone, Debug)]
pub struct StationCfg {
    pub addr: u8,
    pub period_us: i64,
    pub online_at_us: i64,
}

#[derive(Clone, Debug)]
pub struct RingCfg {
    pub baud: Baudrate,
    pub hsa: u8,
    pub gap: u8,
    pub slot_bits: u16,
    pub ttr_bits: u32,
    pub max_retry: u8,
    pub schedule: Schedule,
    pub stations: Vec<StationCfg>,
    pub jitter_seed: u64,
}

impl RingCfg {
    pub fn bits_us(&self, bits: u64) -> i64 {
        // rounded up to whole microseconds
        ((bits as i128 * 1_000_000 + self.baud.to_rate() as i128 - 1) / self.baud.to_rate() as i128) as i64
    }
    pub fn slot_us(&self) -> i64 {
        self.bits_us(u64::from(self.slot_bits))
    }
    pub fn bits_ns(&self, bits: u64) -> i64 {
        (bits as i128 * 1_000_000_000 / self.baud.to_rate() as i128) as i64
    }
    /// Largest poll period the collision-freedom argument of DESIGN 5.3 admits.
    pub fn max_period_us(&self) -> i64 {
        let slot = self.baud.bits_to_time(u32::from(self.slot_bits)).total_micros() as i64;
        let b50 = self.bits_us(50);
        ((slot - b50) / 3).min(slot / 4).max(1)
    }
    pub fn sorted_addrs(&self) -> Vec<u8> {
        let mut v: Vec<u8> = self.stations.iter().map(|s| s.addr).collect();
        v.sort();
        v
    }
    pub fn describe(&self) -> serde_json::Value {
        serde_json::json!({
            "baud": format!("{:?}", self.baud), "hsa": self.hsa, "gap_factor": self.gap, "slot_bits": self.slot_bits,
            "ttr_bits": self.ttr_bits, "max_retry": self.max_retry, "schedule": format!("{:?}", self.schedule),
            "stations": self.stations.iter().map(|s| serde_json::json!({"addr": s.addr, "period_us": s.period_us, "online_at_us": s.online_at_us})).collect::<Vec<_>>(),
        })
    }
}

pub struct GenOpts {
    pub min_n: usize,
    pub max_n: usize,
    pub max_hsa_extra: u64,
    pub late_joiners: bool,
}

/// Ring configuration from the tape (DESIGN 5.1-5.3).
pub fn gen_ring_cfg(t: &mut Tape, o: &GenOpts) -> RingCfg {
    // corner: long slot times and high addresses, where (6 + 2 addr) Tslot exceeds 16 bit
    let big_timeouts = o.max_hsa_extra >= 20 && t.chance(1, 12);
    let baud = if big_timeouts { *t.pick(&[Baudrate::B12000000, Baudrate::B6000000]) } else { BAUDS[t.below(11) as usize] };
    let n = o.min_n + t.below((o.max_n - o.min_n + 1) as u64) as usize;
    // HSA biased towards small values (convergence time is linear in HSA)
    let extra = match t.below(4) {
        0 => t.below(4),
        1 | 2 => t.below(o.max_hsa_extra.min(20) + 1),
        _ => t.below(o.max_hsa_extra + 1),
    };
    let hsa = if big_timeouts { 40 + t.below(87) as u8 } else { ((n as u64) + 1 + extra).min(126) as u8 };
    let mut addrs: Vec<u8> = vec![];
    let mut guard = 0;
    while addrs.len() < n {
        guard += 1;
        let a = match if big_timeouts { 5 + t.below(2) } else { t.below(7) } {
            0 => hsa - 1,
            1 => 0,
            2 if !addrs.is_empty() => (addrs[0] + hsa - 1) % hsa,
            3 if !addrs.is_empty() => (addrs[0] + 1) % hsa,
            4 if !addrs.is_empty() => (addrs[addrs.len() - 1] + 1) % hsa,
            _ if big_timeouts => 28 + t.below(u64::from(hsa) - 28) as u8,
            _ => t.below(u64::from(hsa)) as u8,
        };
        if !addrs.contains(&a) {
            addrs.push(a);
        } else if guard > 50 {
            // fall back to the first free address
            let f = (0..hsa).find(|x| !addrs.contains(x)).unwrap();
            addrs.push(f);
        }
    }
    let min_slot = min_slot_bits(baud);
    let slot_bits = min_slot + if big_timeouts { 400 + t.below(201) as u16 } else if t.bool() { 0 } else { t.below(601) as u16 };
    let gap = if t.chance(1, 8) { 1 + t.below(100) as u8 } else { 1 + t.below(10) as u8 };
    let default_ttr = u32::from(hsa) * 5000;
    let ttr_bits = match t.below(3) {
        0 => default_ttr,
        1 => 256 + t.below(4000) as u32,
        _ => 256 + t.below(u64::from(default_ttr)) as u32,
    };
    let max_retry = 1 + t.below(15) as u8;
    let schedule = match t.weighted(&[5, 2, 1, 2]) {
        0 => Schedule::Jitter,
        1 => Schedule::Fixed,
        2 => Schedule::LockStep,
        _ => Schedule::Aligned,
    };
    let mut cfg = RingCfg {
        baud,
        hsa,
        gap,
        slot_bits,
        ttr_bits,
        max_retry,
        schedule,
        stations: vec![],
        jitter_seed: 0,
    };
    let pmax = cfg.max_period_us();
    let slot_us = cfg.slot_us();
    // periods between pmax/16 and pmax (much smaller periods only cost simulation time)
    let frac = |k: u64| ((pmax * (k as i64 + 1)) / 16).max(1);
    let lock_period = frac(15 - t.below(16));
    // cold start together: first polls within Tslot/2 of each other; late joiners: after the first claim
    let first = t.below(n as u64) as usize;
    // several late joiners often share one instant
    let shared_late = (8 + 2 * 126 + 300 + t.below(2000) as i64) * slot_us;
    let share = t.bool();
    for (i, a) in addrs.iter().enumerate() {
        let period = match cfg.schedule {
            Schedule::LockStep => lock_period,
            _ => {
                frac(15 - t.below(16))
            }
        };
        let mut online = t.below((slot_us / 2).max(1) as u64) as i64;
        if cfg.schedule == Schedule::LockStep {
            online = 0;
        }
        if o.late_joiners && i != first && t.chance(1, 3) {
            // several joiners may share the same instant
            let base = if share { shared_late } else { (8 + 2 * 126 + if t.bool() { 500 } else { t.below(3000) as i64 }) * slot_us };
            online = base + if share || t.bool() { 0 } else { t.below(slot_us as u64 * 50) as i64 };
        }
        cfg.stations.push(StationCfg {
            addr: *a,
            period_us: period,
            online_at_us: online,
        });
    }
    cfg.jitter_seed = u64::from(t.raw()) << 32 | u64::from(t.raw());
    cfg
}

// ---------------------------------------------------------------------------------------------

/// Event driven node (reference slaves, passive responders, scripted masters, misbehaving peers).
pub trait VirtualNode {
    /// Called when a transmission has completely arrived.  `frame` is the decoded telegram if it
    /// arrived intact (no fault, no overlap).  Return transmissions to schedule: (delay after the
    /// end of this telegram in ns, bytes).
    fn on_telegram(&mut self, rec: &TxRecord, frame: Option<&RefFrame>, own_id: usize) -> Vec<(i64, Vec<u8>)>;
}

pub struct RealNode {
    pub addr: u8,
    pub fdl: FdlActiveStation,
    pub phy: SimPhy,
    pub apps: Vec<Box<dyn FdlApplication>>,
    pub next_poll: i64,
    pub period: i64,
    pub online_at: i64,
    pub started: bool,
    /// no polls while stopped (crashed / powered off)
    pub stopped: bool,
    pub polls: u64,
    /// time of every poll (only recorded when `record_polls`)
    pub poll_log: Vec<i64>,
}

pub struct Sim {
    pub cfg: RingCfg,
    pub bus: Bus,
    pub nodes: Vec<RealNode>,
    pub virtuals: Vec<Box<dyn VirtualNode>>,
    /// scheduled virtual transmissions (time_us, bus node id, bytes)
    pub vq: Vec<(i64, usize, Vec<u8>)>,
    pub now: i64,
    seen: usize,
    noted: usize,
    /// instants at which a transmission is complete (virtual nodes react then)
    wake: Vec<i64>,
    jit: SplitMix,
    pub record_polls: bool,
}

pub enum Event {
    Polled(usize),
    VirtualTx(usize),
    Wake,
}

impl Sim {
    pub fn new(cfg: RingCfg, n_virtual: usize) -> Self {
        let n = cfg.stations.len();
        // one extra node id for phantom injections
        let bus = Bus::new(cfg.baud.to_rate(), n + n_virtual + 1);
        let mut nodes = vec![];
        for (i, s) in cfg.stations.iter().enumerate() {
            let p = ParametersBuilder::new(s.addr, cfg.baud)
                .highest_station_address(cfg.hsa)
                .slot_bits(cfg.slot_bits)
                .gap_wait_rotations(cfg.gap)
                .token_rotation_bits(cfg.ttr_bits)
                .max_retry_limit(cfg.max_retry)
                .build();
            let fdl = FdlActiveStation::new(p);
            nodes.push(RealNode {
                addr: s.addr,
                fdl,
                phy: bus.phy(i),
                apps: vec![],
                next_poll: s.online_at_us,
                period: s.period_us,
                online_at: s.online_at_us,
                started: false,
                stopped: false,
                polls: 0,
                poll_log: vec![],
            });
        }
        let jit = SplitMix(cfg.jitter_seed ^ 0x5EED);
        Sim {
            cfg,
            bus,
            nodes,
            virtuals: vec![],
            vq: vec![],
            now: 0,
            seen: 0,
            noted: 0,
            wake: vec![],
            jit,
            record_polls: false,
        }
    }

    pub fn phantom_id(&self) -> usize {
        self.nodes.len() + self.virtuals.len()
    }
    pub fn virtual_id(&self, k: usize) -> usize {
        self.nodes.len() + k
    }

    /// Time of the next event, if any.
    pub fn next_time(&self) -> Option<i64> {
        let p = self.nodes.iter().filter(|n| !n.stopped).map(|n| n.next_poll).min();
        let v = self.vq.iter().map(|x| x.0).chain(self.wake.iter().copied()).min();
        match (p, v) {
            (Some(a), Some(b)) => Some(a.min(b)),
            (a, b) => a.or(b),
        }
    }

    fn deliver_to_virtuals(&mut self) {
        // hand every completed transmission to the virtual nodes exactly once
        loop {
            let rec = {
                let b = self.bus.0.borrow();
                match b.trace.get(self.seen) {
                    Some(r) if r.end_ns <= self.now * 1000 => r.clone(),
                    _ => break,
                }
            };
            self.seen += 1;
            let intact = !rec.faulted && !rec.overlapped && rec.wire == rec.bytes;
            let frame = if intact { rc::decode_one(&rec.wire) } else { None };
            let base = self.nodes.len();
            for k in 0..self.virtuals.len() {
                let id = base + k;
                if rec.sender == id {
                    continue;
                }
                let out = self.virtuals[k].on_telegram(&rec, frame.as_ref(), id);
                for (delay_ns, bytes) in out {
                    let t_us = (rec.end_ns + delay_ns + 999) / 1000;
                    self.vq.push((t_us.max(self.now), id, bytes));
                }
            }
        }
    }

    /// Execute the next event.
    pub fn step(&mut self) -> Option<Event> {
        let t = self.next_time()?;
        self.now = t;
        self.deliver_to_virtuals();
        // virtual transmissions first (they were scheduled for exactly this instant)
        if let Some(pos) = self.vq.iter().position(|x| x.0 <= t) {
            let (_, id, bytes) = self.vq.remove(pos);
            self.bus.inject(id, t, &bytes);
            self.note_new_tx();
            return Some(Event::VirtualTx(id));
        }
        if let Some(pos) = self.wake.iter().position(|x| *x <= t) {
            self.wake.swap_remove(pos);
            return Some(Event::Wake);
        }
        let idx = self
            .nodes
            .iter()
            .enumerate()
            .filter(|(_, n)| !n.stopped && n.next_poll == t)
            .map(|(i, _)| i)
            .next()?;
        if !self.nodes[idx].started {
            // a station that was off until now has an empty UART (DESIGN 5.2)
            self.nodes[idx].started = true;
            self.bus.clear_rx(idx, t);
            self.nodes[idx].fdl.set_online();
        }
        {
            let node = &mut self.nodes[idx];
            let mut apps: Vec<&mut dyn FdlApplication> = node.apps.iter_mut().map(|a| &mut **a as &mut dyn FdlApplication).collect();
            if apps.is_empty() {
                // no applications: through poll() with the unit application or through poll_multi() with an
                // empty list, by address
                if node.addr % 2 == 0 {
                    node.fdl.poll(Instant::from_micros(t), &mut node.phy, &mut ());
                } else {
                    node.fdl.poll_multi(Instant::from_micros(t), &mut node.phy, &mut []);
                }
            } else if apps.len() == 1 {
                node.fdl.poll(Instant::from_micros(t), &mut node.phy, apps[0]);
            } else {
                node.fdl.poll_multi(Instant::from_micros(t), &mut node.phy, &mut apps[..]);
            }
            node.polls += 1;
            if self.record_polls {
                node.poll_log.push(t);
            }
        }
        // next poll time
        let period = self.nodes[idx].period;
        let mut next = match self.cfg.schedule {
            Schedule::Fixed | Schedule::LockStep => t + period,
            Schedule::Jitter | Schedule::Aligned => t + 1 + self.jit.below(period as u64) as i64,
        };
        if self.cfg.schedule == Schedule::Aligned {
            // pull the poll onto the end of the transmission in progress (+-1 us) if that falls into (t, t+P]
            let end_ns = self.bus.0.borrow().busy_until();
            let end_us = end_ns / 1000;
            let cand = end_us - 1 + self.jit.below(3) as i64;
            if cand > t && cand <= t + period {
                next = cand;
            }
        }
        self.nodes[idx].next_poll = next;
        self.note_new_tx();
        Some(Event::Polled(idx))
    }

    fn note_new_tx(&mut self) {
        if self.virtuals.is_empty() {
            self.noted = self.bus.trace_len();
            return;
        }
        let b = self.bus.0.borrow();
        while self.noted < b.trace.len() {
            self.wake.push((b.trace[self.noted].end_ns + 999) / 1000);
            self.noted += 1;
        }
    }

    pub fn stop_station(&mut self, idx: usize) {
        self.nodes[idx].stopped = true;
    }
    /// Restart after a stop: `set_offline(); set_online()` with a cleared receive buffer.
    pub fn restart_station(&mut self, idx: usize, at_us: i64) {
        let n = &mut self.nodes[idx];
        n.stopped = false;
        n.next_poll = at_us;
        n.online_at = at_us;
        n.fdl.set_offline();
        n.started = false;
        let mut b = self.bus.0.borrow_mut();
        for c in b.ref_sa_seen[idx].iter_mut() {
            *c = 0;
        }
    }
}

// ---------------------------------------------------------------------------------------------
// Trace oracles
// ---------------------------------------------------------------------------------------------

/// C01 oracle over the recorded trace of a fault-free run.  `real` = number of real stations
/// (senders >= real are virtual nodes, whose own behaviour is not judged).
/// `online_at_ns[x]` = instant station x went online (for the claim rule).
pub struct AccessStats {
    pub tokens: u64,
    pub requests: u64,
    pub replies: u64,
    pub claims: u64,
    pub retries: u64,
}

pub fn c01_trace_oracle(cfg: &RingCfg, trace: &[TxRecord], real: usize, addr_of: &dyn Fn(usize) -> Option<u8>, online_at_ns: &[i64]) -> Result<AccessStats, Failure> {
    let ev: Vec<Vec<i64>> = online_at_ns.iter().map(|x| vec![*x]).collect();
    c01_trace_oracle_ev(cfg, trace, real, addr_of, &ev)
}

/// As `c01_trace_oracle`, with every instant at which a station went online (a station may leave
/// and rejoin).
pub fn c01_trace_oracle_ev(cfg: &RingCfg, trace: &[TxRecord], real: usize, addr_of: &dyn Fn(usize) -> Option<u8>, online_events_ns: &[Vec<i64>]) -> Result<AccessStats, Failure> {
    let mut stats = AccessStats { tokens: 0, requests: 0, replies: 0, claims: 0, retries: 0 };
    // owner = address of the station that currently has the right to initiate
    let mut owner: Option<u8> = None;
    let us = 1000i64;
    let b33 = cfg.bits_ns(33);
    let b11 = cfg.bits_ns(11);
    let mut prev: Option<(&TxRecord, Option<RefFrame>)> = None;
    // last token pass per sender since nobody else transmitted
    for t in trace.iter() {
        let frame = rc::decode_one(&t.bytes);
        let is_real = t.sender < real;
        if let Some((p, _)) = &prev {
            if p.end_ns > t.start_ns && is_real {
                return Err(Failure::new(
                    "overlap",
                    format!("station #{:?} starts transmitting at {} ns while the transmission of node {} ({}) is in progress until {} ns", addr_of(t.sender), t.start_ns, p.sender, hex(&p.bytes), p.end_ns),
                ));
            }
        }
        if is_real {
            let x = addr_of(t.sender).unwrap();
            let Some(f) = &frame else {
                return Err(Failure::new("undecodable-tx", format!("station #{x} transmitted {}", hex(&t.bytes))));
            };
            let gap = prev.as_ref().map(|(p, _)| t.start_ns - p.end_ns);
            match f {
                RefFrame::Token { da, sa } => {
                    if *sa != x {
                        return Err(Failure::new("foreign-sa", format!("station #{x} sent a token with source {sa}")));
                    }
                    if let Some(g) = gap {
                        if g < b33 - us {
                            return Err(Failure::new("sync-pause", format!("token by #{x} starts {g} ns after the previous telegram (33 bit = {b33} ns) at {} ns", t.start_ns)));
                        }
                    }
                    let is_owner = owner == Some(x);
                    let retry = matches!(&prev, Some((p, Some(RefFrame::Token { .. }))) if p.sender == t.sender);
                    let last_online = online_events_ns[t.sender].iter().copied().filter(|o| *o <= t.start_ns).max().unwrap_or(i64::MIN);
                    let silence_since = prev.as_ref().map(|(p, _)| p.end_ns).unwrap_or(i64::MIN).max(last_online);
                    let tl = cfg.bits_ns(u64::from(cfg.slot_bits) * (6 + 2 * u64::from(x)));
                    let claim = da == sa && t.start_ns - silence_since >= tl - 2 * us;
                    if !(is_owner || retry || claim) {
                        return Err(Failure::new(
                            "no-right-to-transmit",
                            format!("token {sa}->{da} by #{x} at {} ns: not token owner (owner {:?}), not a retry of its own pass, no silence time-out (silent for {} ns, needs {})", t.start_ns, owner, t.start_ns - silence_since, tl),
                        ));
                    }
                    if !is_owner && retry {
                        stats.retries += 1;
                    }
                    if !is_owner && !retry && claim {
                        stats.claims += 1;
                    }
                    stats.tokens += 1;
                    owner = Some(*da);
                }
                RefFrame::Data { da, sa, fc, .. } if rc::fc_is_request(*fc) => {
                    if *sa != x {
                        return Err(Failure::new("foreign-sa", format!("station #{x} sent a request with source {sa}")));
                    }
                    if let Some(g) = gap {
                        if g < b33 - us {
                            return Err(Failure::new("sync-pause", format!("request by #{x} to {da} starts {g} ns after the previous telegram (33 bit = {b33} ns) at {} ns", t.start_ns)));
                        }
                    }
                    if owner != Some(x) {
                        return Err(Failure::new("no-right-to-transmit", format!("request by #{x} to {da} at {} ns without holding the token (owner {:?})", t.start_ns, owner)));
                    }
                    stats.requests += 1;
                }
                RefFrame::Data { da, sa, .. } => {
                    if *sa != x {
                        return Err(Failure::new("foreign-sa", format!("station #{x} sent a response with source {sa}")));
                    }
                    if let Some(g) = gap {
                        if g < b11 - us {
                            return Err(Failure::new("station-delay", format!("reply by #{x} starts {g} ns after the request (11 bit = {b11} ns) at {} ns", t.start_ns)));
                        }
                    }
                    let ok = match &prev {
                        Some((_, Some(RefFrame::Data { da: pda, sa: psa, fc: pfc, .. }))) => rc::fc_is_request(*pfc) && *pda == x && psa == da,
                        _ => false,
                    };
                    if !ok {
                        return Err(Failure::new("unsolicited-reply", format!("response {sa}->{da} by #{x} at {} ns does not answer the preceding telegram {:?}", t.start_ns, prev.as_ref().map(|(p, _)| hex(&p.bytes)))));
                    }
                    stats.replies += 1;
                }
                RefFrame::Sc => {
                    return Err(Failure::new("sc-from-master", format!("station #{x} sent a short confirmation")));
                }
            }
        } else if let Some(RefFrame::Token { da, .. }) = &frame {
            // scripted masters pass tokens too
            owner = Some(*da);
        }
        prev = Some((t, frame));
    }
    Ok(stats)
}

pub fn hex(b: &[u8]) -> String {
    b.iter().map(|x| format!("{:02x}", x)).collect::<Vec<_>>().join(" ")
}

/// Does every online station agree on the LAS = `expect` (sorted), with cyclic neighbours?
pub fn agreement(sim: &Sim, expect: &[u8]) -> Result<(), String> {
    for n in sim.nodes.iter().filter(|n| !n.stopped && n.started) {
        if !expect.contains(&n.addr) {
            continue;
        }
        if !n.fdl.is_in_ring() {
            return Err(format!("#{} is not in the ring", n.addr));
        }
        let tr = n.fdl.inspect_token_ring();
        let las: Vec<u8> = tr.iter_active_stations().collect();
        if las != expect {
            return Err(format!("#{} has LAS {:?}, online stations are {:?}", n.addr, las, expect));
        }
        let pos = expect.iter().position(|a| *a == n.addr).unwrap();
        let ns = expect[(pos + 1) % expect.len()];
        let ps = expect[(pos + expect.len() - 1) % expect.len()];
        if tr.next_station() != ns || tr.previous_station() != ps {
            return Err(format!("#{} has NS {} / PS {}, expected {} / {}", n.addr, tr.next_station(), tr.previous_station(), ns, ps));
        }
    }
    Ok(())
}

/// Generous bound on one token rotation without application traffic (DESIGN 5.4), in us.
pub fn rotation_bound_us(cfg: &RingCfg, n: usize) -> i64 {
    let pmax = cfg.stations.iter().map(|s| s.period_us).max().unwrap_or(1);
    (n as i64) * (4 * cfg.slot_us() + cfg.bits_us(150) + 8 * pmax)
}

/// T_conv of DESIGN 5.4 in us (measured from the instant the population stops changing).
pub fn t_conv_us(cfg: &RingCfg) -> i64 {
    let n = cfg.stations.len() as i64;
    let a_max = i64::from(cfg.stations.iter().map(|s| s.addr).max().unwrap_or(0));
    let hsa = i64::from(cfg.hsa);
    let g = i64::from(cfg.gap);
    let r = rotation_bound_us(cfg, cfg.stations.len());
    4 * ((6 + 2 * a_max) * cfg.slot_us() + hsa * (2 * cfg.slot_us() + cfg.bits_us(100)) + n * (hsa + g + 6) * r)
}

/// Token order check over a window of the trace: in a stable ring token frames follow the
/// ascending cyclic order of `expect`, one receipt per station per rotation, no retries.
pub fn token_order_ok(trace: &[TxRecord], from_ns: i64, expect: &[u8]) -> Result<u64, String> {
    let mut last: Option<(u8, u8)> = None;
    let mut passes = 0u64;
    for t in trace.iter().filter(|t| t.start_ns >= from_ns) {
        if let Some(RefFrame::Token { da, sa }) = rc::decode_one(&t.bytes) {
            let Some(pos) = expect.iter().position(|a| *a == sa) else {
                return Err(format!("token from unknown station {sa}"));
            };
            let want = expect[(pos + 1) % expect.len()];
            if da != want {
                return Err(format!("token {sa}->{da} at {} ns, successor of {sa} is {want}", t.start_ns));
            }
            if let Some((_, pda)) = last {
                if pda != sa {
                    return Err(format!("token {sa}->{da} at {} ns follows a token addressed to {pda} (retry or skipped station)", t.start_ns));
                }
            }
            last = Some((sa, da));
            passes += 1;
        }
    }
    Ok(passes)
}

/// Human readable tail of the bus trace (replay diagnostics; enabled with PBVERIF_DUMP=<n>).
pub fn dump_tail(sim: &Sim) -> String {
    let Some(n) = std::env::var("PBVERIF_DUMP").ok().and_then(|s| s.parse::<usize>().ok()) else { return String::new() };
    let b = sim.bus.0.borrow();
    let mut out = String::from("\n");
    let skip = b.trace.len().saturating_sub(n);
    let from: Option<i64> = std::env::var("PBVERIF_DUMP_FROM").ok().and_then(|s| s.parse().ok());
    let from = match from {
        // negative: start 12 records before the first overlap after |from| us
        Some(f) if f < 0 => b.trace.iter().position(|r| r.overlapped && r.start_ns >= -f * 1000).and_then(|p| b.trace.get(p.saturating_sub(12))).map(|r| r.start_ns / 1000),
        x => x,
    };
    let recs: Vec<&TxRecord> = match from {
        Some(f) => b.trace.iter().filter(|r| r.start_ns >= f * 1000).take(n).collect(),
        None => b.trace[skip..].iter().collect(),
    };
    for r in recs {
        let who = sim.nodes.get(r.sender).map(|x| format!("#{}", x.addr)).unwrap_or_else(|| format!("v{}", r.sender));
        out.push_str(&format!("  {:>12} ns {:>5} {:<40} {}{}\n", r.start_ns, who, match rc::decode_one(&r.bytes) { Some(f) => format!("{:?}", f), None => hex(&r.bytes) }, if r.faulted { "FAULT " } else { "" }, if r.overlapped { "OVERLAP" } else { "" }));
    }
    for nd in &sim.nodes {
        out.push_str(&format!("  station #{} stopped={} started={} next_poll={} {:?}\n", nd.addr, nd.stopped, nd.started, nd.next_poll, nd.fdl));
    }
    out
}
