//! One real station against a scripted environment (used by C05 C11 C12 C18).
use crate::refcodec::{self as rc, RefFrame};
use crate::simbus::{Bus, SimPhy, TxRecord};
use profirust::fdl::{FdlActiveStation, FdlApplication, ParametersBuilder};
use profirust::time::Instant;
use profirust::Baudrate;

pub struct World {
    pub bus: Bus,
    pub fdl: FdlActiveStation,
    pub phy: SimPhy,
    pub now: i64,
    pub baud: Baudrate,
    pub slot_bits: u16,
    pub ts: u8,
    /// poll period in us
    pub step_us: i64,
    pub polls: u64,
}

pub const ENV: usize = 1;

impl World {
    pub fn new(ts: u8, hsa: u8, baud: Baudrate, slot_bits: u16, gap: u8, ttr_bits: Option<u32>) -> Self {
        let bus = Bus::new(baud.to_rate(), 2);
        let mut b = ParametersBuilder::new(ts, baud);
        b.highest_station_address(hsa).slot_bits(slot_bits).gap_wait_rotations(gap);
        if let Some(t) = ttr_bits {
            b.token_rotation_bits(t);
        }
        let mut fdl = FdlActiveStation::new(b.build());
        fdl.set_online();
        let phy = bus.phy(0);
        let byte_us = (11_000_000 / baud.to_rate() as i64).max(1);
        World {
            bus,
            fdl,
            phy,
            now: 0,
            baud,
            slot_bits,
            ts,
            step_us: (byte_us / 4).max(1),
            polls: 0,
        }
    }
    /// bits -> us, rounded up
    pub fn bit_us(&self, bits: i64) -> i64 {
        (bits * 1_000_000 + self.baud.to_rate() as i64 - 1) / self.baud.to_rate() as i64
    }
    pub fn slot_us(&self) -> i64 {
        self.bit_us(i64::from(self.slot_bits))
    }
    pub fn poll(&mut self, app: &mut dyn FdlApplication) {
        self.fdl.poll(Instant::from_micros(self.now), &mut self.phy, app);
        self.polls += 1;
    }
    /// advance time by `us`, polling with the given application
    pub fn run(&mut self, us: i64, app: &mut dyn FdlApplication) {
        let end = self.now + us;
        while self.now < end {
            self.now += self.step_us.min(end - self.now).max(1);
            self.poll(app);
        }
    }
    pub fn step(&mut self, us: i64) {
        self.run(us, &mut ());
    }
    pub fn last_end_us(&self) -> i64 {
        let b = self.bus.0.borrow();
        b.trace.last().map(|t| (t.end_ns + 999) / 1000).unwrap_or(0)
    }
    /// poll until the bus has been idle for `bits`
    pub fn wait_idle(&mut self, bits: i64, app: &mut dyn FdlApplication) {
        let mut guard = 0;
        loop {
            let e = self.last_end_us();
            if self.now >= e + self.bit_us(bits) {
                break;
            }
            let s = self.step_us;
            self.run(s, app);
            guard += 1;
            if guard > 2_000_000 {
                panic!("harness: bus never becomes idle");
            }
        }
    }
    /// The environment transmits `data` now (after waiting for 40 bit times of idle bus) and the
    /// station is polled until the transmission has completely arrived.
    pub fn inject(&mut self, data: &[u8], app: &mut dyn FdlApplication) {
        self.wait_idle(40, app);
        self.inject_now(data, app);
    }
    pub fn inject_now(&mut self, data: &[u8], app: &mut dyn FdlApplication) {
        self.bus.inject(ENV, self.now, data);
        let e = self.last_end_us();
        let d = e - self.now;
        self.run(d.max(1), app);
    }
    pub fn trace_len(&self) -> usize {
        self.bus.trace_len()
    }
    pub fn sent_since(&self, idx: usize) -> Vec<TxRecord> {
        self.bus.0.borrow().trace[idx..].iter().filter(|t| t.sender == 0).cloned().collect()
    }
    pub fn frames_since(&self, idx: usize) -> Vec<(TxRecord, Option<RefFrame>)> {
        self.sent_since(idx).into_iter().map(|t| { let f = rc::decode_one(&t.bytes); (t, f) }).collect()
    }
    /// Name of the FDL state from the Debug output (the `, state: ` field).
    pub fn state_name(&self) -> String {
        let dbg = format!("{:?}", self.fdl);
        match dbg.find(", state: ") {
            Some(p) => dbg[p + 9..].chars().take_while(|c| c.is_alphanumeric()).collect(),
            None => "?".into(),
        }
    }
    pub fn holds_token(&self) -> bool {
        matches!(self.state_name().as_str(), "UseToken" | "PassToken" | "ClaimToken" | "AwaitDataResponse" | "AwaitStatusResponse")
    }
}

pub fn token(sa: u8, da: u8) -> Vec<u8> {
    vec![rc::SD4, da, sa]
}
pub fn status_req(da: u8, sa: u8) -> Vec<u8> {
    rc::encode(&RefFrame::status_request(da, sa))
}
pub fn status_resp(da: u8, sa: u8, state: u8) -> Vec<u8> {
    rc::encode(&RefFrame::status_reply(da, sa, state))
}
