use pbverif::engine::*;

fn usage() -> ! {
    eprintln!("usage: pbcheck <ID> quick|thorough | pbcheck <ID> --replay <file> | pbcheck --list");
    std::process::exit(2);
}

fn main() {
    init_process();
    let args: Vec<String> = std::env::args().skip(1).collect();
    if args.first().map(|s| s.as_str()) == Some("--list") {
        for p in pbverif::all_properties() {
            println!("{}", p.id);
        }
        return;
    }
    if args.len() < 2 {
        usage();
    }
    let id = args[0].as_str();
    let props = pbverif::all_properties();
    let Some(prop) = props.iter().find(|p| p.id == id) else {
        eprintln!("unknown property {id}");
        std::process::exit(2);
    };
    let mut seed: u64 = std::env::var("VERIF_SEED")
        .ok()
        .and_then(|s| s.trim().parse::<i128>().ok())
        .map(|v| v as u64)
        .unwrap_or(1);
    if seed == 0 {
        seed = 0x5EED_0000_0000_0001;
    }
    if args[1] == "--replay" {
        let Some(path) = args.get(2) else { usage() };
        let (p, kind, data) = match read_replay(path) {
            Ok(x) => x,
            Err(e) => {
                eprintln!("cannot read replay: {e}");
                std::process::exit(2);
            }
        };
        if p != id {
            eprintln!("replay file belongs to {p}, not {id}");
            std::process::exit(2);
        }
        let mut runner = Runner::new(prop, Tier::Quick, seed);
        runner.strict = true;
        match runner.replay(&kind, &data) {
            Ok(()) => {
                println!("replay of {path}: property held");
                std::process::exit(0);
            }
            Err(f) => {
                println!("VIOLATION property={} replay={}", id, path);
                println!("  [{}] {}", f.signature, f.msg);
                std::process::exit(1);
            }
        }
    }
    let tier = match std::env::var("VERIF_TIER").ok().as_deref().unwrap_or(args[1].as_str()) {
        "thorough" => Tier::Thorough,
        "quick" => Tier::Quick,
        _ => match args[1].as_str() {
            "thorough" => Tier::Thorough,
            "quick" => Tier::Quick,
            _ => usage(),
        },
    };
    // The command line decides the tier; VERIF_TIER is only informational when both are given.
    let tier = match args[1].as_str() {
        "thorough" => Tier::Thorough,
        "quick" => Tier::Quick,
        _ => tier,
    };
    let t0 = std::time::Instant::now();
    let mut runner = Runner::new(prop, tier, seed);
    runner.run_probes();
    runner.run_regressions();
    runner.run_plan();
    let code = runner.finish(t0.elapsed().as_secs_f64());
    std::process::exit(code);
}
