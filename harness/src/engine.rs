//! Generic machinery shared by all property checks: choice tape, proptest driver, bounded
//! exhaustive driver, panic / hang capture, replay files, known findings, evidence.

use proptest::test_runner::{Config, RngAlgorithm, TestCaseError, TestError, TestRng, TestRunner};
use serde_json::{json, Value};
use std::cell::RefCell;
use std::collections::{BTreeMap, HashSet};
use std::panic::{catch_unwind, AssertUnwindSafe};
use std::sync::atomic::{AtomicBool, AtomicU64, Ordering};
use std::sync::{Arc, Mutex};

/// Directory holding known_findings.json, evidence/, replays/ (the current directory: ./check
/// changes into /verif - or into a snapshot of it - before starting pbcheck).
pub fn verif_dir() -> String {
    std::env::current_dir().map(|p| p.display().to_string()).unwrap_or_else(|_| ".".into())
}

// ---------------------------------------------------------------------------------------------
// Choice tape
// ---------------------------------------------------------------------------------------------

/// A finite sequence of u32 choices produced by the generator library (proptest, an enumerator or
/// libFuzzer).  All case construction reads from it; an exhausted tape yields zeros, which every
/// decoder maps to its simplest alternative, so shorter / smaller tapes are simpler cases.
pub struct Tape<'a> {
    data: &'a [u32],
    pos: usize,
}

impl<'a> Tape<'a> {
    pub fn new(data: &'a [u32]) -> Self {
        Tape { data, pos: 0 }
    }
    pub fn raw(&mut self) -> u32 {
        let v = self.data.get(self.pos).copied().unwrap_or(0);
        self.pos += 1;
        v
    }
    pub fn used(&self) -> usize {
        self.pos
    }
    pub fn exhausted(&self) -> bool {
        self.pos >= self.data.len()
    }
    /// Monotone map of one choice onto 0..n (n > 0).
    pub fn below(&mut self, n: u64) -> u64 {
        debug_assert!(n > 0);
        (u64::from(self.raw()) * n) >> 32
    }
    /// Inclusive range.
    pub fn range(&mut self, lo: i64, hi: i64) -> i64 {
        debug_assert!(lo <= hi);
        lo + self.below((hi - lo + 1) as u64) as i64
    }
    pub fn bool(&mut self) -> bool {
        self.raw() >= 0x8000_0000
    }
    /// True with probability num/den; zero choice gives false.
    pub fn chance(&mut self, num: u64, den: u64) -> bool {
        self.below(den) >= den - num
    }
    pub fn pick<'b, T>(&mut self, items: &'b [T]) -> &'b T {
        &items[self.below(items.len() as u64) as usize]
    }
    pub fn weighted(&mut self, weights: &[u32]) -> usize {
        let total: u64 = weights.iter().map(|w| u64::from(*w)).sum();
        let mut x = self.below(total);
        for (i, w) in weights.iter().enumerate() {
            if x < u64::from(*w) {
                return i;
            }
            x -= u64::from(*w);
        }
        weights.len() - 1
    }
    pub fn u8(&mut self) -> u8 {
        (self.raw() >> 24) as u8
    }
    /// `n` bytes expanded from ONE choice (contents rarely matter; keeps tapes short).  A zero
    /// choice gives all zero bytes.
    pub fn fill(&mut self, n: usize) -> Vec<u8> {
        let seed = self.raw();
        if seed == 0 {
            return vec![0; n];
        }
        let mut r = SplitMix(u64::from(seed));
        (0..n).map(|_| r.next() as u8).collect()
    }
    /// A derived deterministic stream (for per-poll jitter and similar bulk noise).
    /// Everything that is left on the tape, one byte per choice (byte-level fuzz inputs).
    pub fn rest_bytes(&mut self) -> Vec<u8> {
        let v: Vec<u8> = self.data[self.pos.min(self.data.len())..].iter().map(|x| *x as u8).collect();
        self.pos = self.data.len();
        v
    }
    pub fn stream(&mut self) -> SplitMix {
        SplitMix(u64::from(self.raw()) | (u64::from(self.raw()) << 32))
    }
}

/// Small deterministic expander; only ever seeded from tape values, so every run remains a pure
/// function of the tape.
#[derive(Clone, Debug)]
pub struct SplitMix(pub u64);
impl SplitMix {
    pub fn next(&mut self) -> u64 {
        self.0 = self.0.wrapping_add(0x9E37_79B9_7F4A_7C15);
        let mut z = self.0;
        z = (z ^ (z >> 30)).wrapping_mul(0xBF58_476D_1CE4_E5B9);
        z = (z ^ (z >> 27)).wrapping_mul(0x94D0_49BB_1331_11EB);
        z ^ (z >> 31)
    }
    pub fn below(&mut self, n: u64) -> u64 {
        if n == 0 {
            0
        } else {
            ((u128::from(self.next()) * u128::from(n)) >> 64) as u64
        }
    }
}

pub fn tape_from_bytes(bytes: &[u8]) -> Vec<u32> {
    bytes
        .chunks(2)
        .map(|c| {
            let v = u32::from(c[0]) << 8 | u32::from(*c.get(1).unwrap_or(&0));
            v << 16 | v
        })
        .collect()
}

// ---------------------------------------------------------------------------------------------
// Failures, observers
// ---------------------------------------------------------------------------------------------

#[derive(Debug, Clone)]
pub struct Failure {
    /// Stable identifier of *what* failed (oracle clause or panic site) - used to match known
    /// findings.
    pub signature: String,
    pub msg: String,
}

impl Failure {
    pub fn new(signature: impl Into<String>, msg: impl Into<String>) -> Self {
        Failure {
            signature: signature.into(),
            msg: msg.into(),
        }
    }
}

pub type CaseResult = Result<(), Failure>;

#[macro_export]
macro_rules! fail {
    ($sig:expr, $($arg:tt)*) => {
        return Err($crate::engine::Failure::new($sig, format!($($arg)*)))
    };
}

#[macro_export]
macro_rules! ensure {
    ($cond:expr, $sig:expr, $($arg:tt)*) => {
        if !($cond) {
            return Err($crate::engine::Failure::new($sig, format!($($arg)*)));
        }
    };
}

/// Per-worker statistics collected while cases run.
#[derive(Default)]
pub struct Obs {
    pub labels: BTreeMap<String, u64>,
    pub nontrivial: HashSet<u64>,
    pub samples: Vec<Value>,
    pub counters: BTreeMap<String, u64>,
    want_sample: bool,
    frozen: bool,
    // per-case scratch
    case_labels: Vec<String>,
    case_nontrivial: Vec<u64>,
    case_sample: Option<Value>,
    case_counters: Vec<(String, u64)>,
}

impl Obs {
    pub fn label(&mut self, l: &str) {
        self.case_labels.push(l.to_string());
    }
    pub fn count(&mut self, name: &str, n: u64) {
        self.case_counters.push((name.to_string(), n));
    }
    /// Mark the current case as non-trivial with a fingerprint used for distinctness.
    pub fn nontrivial(&mut self, fingerprint: u64) {
        self.case_nontrivial.push(fingerprint);
    }
    /// Offer a sample description (only built when the engine wants one).
    pub fn sample(&mut self, f: impl FnOnce() -> Value) {
        if self.want_sample && self.case_sample.is_none() {
            self.case_sample = Some(f());
        }
    }
    /// For drivers outside this module: open / close one pseudo case.
    pub fn begin_public(&mut self) {
        self.begin(true);
    }
    pub fn commit_public(&mut self) {
        self.commit();
    }
    pub fn sample_force(&mut self, v: Value) {
        self.samples.push(v);
    }
    pub fn wants_sample(&self) -> bool {
        self.want_sample
    }
    fn begin(&mut self, want_sample: bool) {
        self.case_labels.clear();
        self.case_nontrivial.clear();
        self.case_counters.clear();
        self.case_sample = None;
        self.want_sample = want_sample && !self.frozen;
    }
    fn commit(&mut self) {
        if self.frozen {
            return;
        }
        for l in self.case_labels.drain(..) {
            *self.labels.entry(l).or_default() += 1;
        }
        for (k, n) in self.case_counters.drain(..) {
            *self.counters.entry(k).or_default() += n;
        }
        for f in self.case_nontrivial.drain(..) {
            self.nontrivial.insert(f);
        }
        if let Some(s) = self.case_sample.take() {
            self.samples.push(s);
        }
    }
    fn merge(&mut self, other: Obs) {
        for (k, v) in other.labels {
            *self.labels.entry(k).or_default() += v;
        }
        for (k, v) in other.counters {
            *self.counters.entry(k).or_default() += v;
        }
        self.nontrivial.extend(other.nontrivial);
        self.samples.extend(other.samples);
    }
}

pub fn fingerprint<T: std::hash::Hash>(t: &T) -> u64 {
    use std::hash::Hasher;
    // FNV-1a based hasher: stable across runs (no random state).
    struct Fnv(u64);
    impl Hasher for Fnv {
        fn finish(&self) -> u64 {
            self.0
        }
        fn write(&mut self, bytes: &[u8]) {
            for b in bytes {
                self.0 ^= u64::from(*b);
                self.0 = self.0.wrapping_mul(0x100_0000_01b3);
            }
        }
    }
    let mut h = Fnv(0xcbf2_9ce4_8422_2325);
    t.hash(&mut h);
    h.finish()
}

// ---------------------------------------------------------------------------------------------
// Panic capture and logging
// ---------------------------------------------------------------------------------------------

thread_local! {
    static LAST_PANIC: RefCell<Option<(String, String)>> = RefCell::new(None);
}

struct FmtLogger;
struct NullSink(usize);
impl std::fmt::Write for NullSink {
    fn write_str(&mut self, s: &str) -> std::fmt::Result {
        self.0 = self.0.wrapping_add(s.len());
        Ok(())
    }
}
static SHOWLOG: AtomicBool = AtomicBool::new(false);
impl log::Log for FmtLogger {
    fn enabled(&self, _: &log::Metadata) -> bool {
        true
    }
    fn log(&self, record: &log::Record) {
        use std::fmt::Write;
        if SHOWLOG.load(Ordering::Relaxed) {
            eprintln!("[{}] {}", record.level(), record.args());
        } else {
            // Format every record so that the arguments of all log statements are evaluated.
            let mut s = NullSink(0);
            let _ = write!(s, "{}", record.args());
            std::hint::black_box(s.0);
        }
    }
    fn flush(&self) {}
}
static LOGGER: FmtLogger = FmtLogger;

/// Install the formatting logger (idempotent).
pub fn init_logging() {
    static ONCE: std::sync::Once = std::sync::Once::new();
    ONCE.call_once(|| {
        let _ = log::set_logger(&LOGGER);
        log::set_max_level(log::LevelFilter::Trace);
        if std::env::var("PBVERIF_SHOWLOG").is_ok() {
            SHOWLOG.store(true, Ordering::Relaxed);
        }
    });
}

pub fn init_process() {
    init_logging();
    std::panic::set_hook(Box::new(|info| {
        let msg = if let Some(s) = info.payload().downcast_ref::<&str>() {
            s.to_string()
        } else if let Some(s) = info.payload().downcast_ref::<String>() {
            s.clone()
        } else {
            "<non-string panic>".to_string()
        };
        let loc = info
            .location()
            .map(|l| format!("{}:{}", l.file(), l.line()))
            .unwrap_or_else(|| "<unknown>".into());
        LAST_PANIC.with(|p| *p.borrow_mut() = Some((msg, loc)));
    }));
}

fn strip_repo_prefix(loc: &str) -> String {
    loc.trim_start_matches("/repo/").to_string()
}

/// Run one case closure, converting a panic into a `Failure` whose signature is the panic site.
pub fn guarded<R>(f: impl FnOnce() -> Result<R, Failure>) -> Result<R, Failure> {
    LAST_PANIC.with(|p| *p.borrow_mut() = None);
    match catch_unwind(AssertUnwindSafe(f)) {
        Ok(r) => r,
        Err(_) => {
            let (msg, loc) = LAST_PANIC
                .with(|p| p.borrow_mut().take())
                .unwrap_or_else(|| ("<no message>".into(), "<unknown>".into()));
            let loc = strip_repo_prefix(&loc);
            Err(Failure::new(
                format!("panic@{}", loc),
                format!("panic at {}: {}", loc, msg),
            ))
        }
    }
}

// ---------------------------------------------------------------------------------------------
// Sub-checks and plans
// ---------------------------------------------------------------------------------------------

pub type TapeFn = Box<dyn Fn(&mut Tape, &mut Obs) -> CaseResult + Send + Sync>;
pub type IndexFn = Box<dyn Fn(u64, &mut Obs) -> CaseResult + Send + Sync>;

pub enum CaseFn {
    Tape(TapeFn),
    Index(IndexFn),
}

pub struct SubCheck {
    pub kind: &'static str,
    pub what: &'static str,
    pub f: CaseFn,
}

impl SubCheck {
    pub fn tape(
        kind: &'static str,
        what: &'static str,
        f: impl Fn(&mut Tape, &mut Obs) -> CaseResult + Send + Sync + 'static,
    ) -> Self {
        SubCheck {
            kind,
            what,
            f: CaseFn::Tape(Box::new(f)),
        }
    }
    pub fn index(
        kind: &'static str,
        what: &'static str,
        f: impl Fn(u64, &mut Obs) -> CaseResult + Send + Sync + 'static,
    ) -> Self {
        SubCheck {
            kind,
            what,
            f: CaseFn::Index(Box::new(f)),
        }
    }
}

#[derive(Clone, Copy, PartialEq, Eq, Debug)]
pub enum Tier {
    Quick,
    Thorough,
}

pub enum Step {
    /// `cases` generated by proptest over tapes of up to `max_len` choices.
    Pbt {
        kind: &'static str,
        cases: u64,
        max_len: usize,
    },
    /// Indices 0..count, all of them (bounded exhaustive).
    Enumerate { kind: &'static str, count: u64 },
    /// Indices lo..hi of an enumerated space (a slice of it; not flagged exhaustive).
    EnumerateRange {
        kind: &'static str,
        lo: u64,
        hi: u64,
    },
    /// libFuzzer campaign (thorough tier).  `runs` executions.
    Fuzz { target: &'static str, runs: u64 },
}

pub struct KnownProbe {
    pub signature: &'static str,
    pub kind: &'static str,
    /// tape or index for the probe
    pub data: ReplayData,
}

#[derive(Clone, Debug)]
pub enum ReplayData {
    Tape(Vec<u32>),
    Index(u64),
}

pub struct Property {
    pub id: &'static str,
    pub rule: &'static str,
    pub assumptions: Vec<&'static str>,
    pub subchecks: Vec<SubCheck>,
    pub plan: fn(Tier) -> Vec<Step>,
    /// Whether a hang inside a case is a violation of this property (totality clauses) or just an
    /// inconclusive run (exit 2).
    pub hang_is_violation: bool,
    /// per-case wall clock limit in seconds (0 = default)
    pub hang_limit_s: u64,
    pub probes: Vec<KnownProbe>,
}

// ---------------------------------------------------------------------------------------------
// Known findings
// ---------------------------------------------------------------------------------------------

#[derive(Debug, Clone)]
pub struct KnownFinding {
    pub property: String,
    pub status: String,
    pub signature: String,
    pub what: String,
}

pub fn load_known_findings() -> Vec<KnownFinding> {
    let path = format!("{}/known_findings.json", verif_dir());
    let Ok(text) = std::fs::read_to_string(&path) else {
        return vec![];
    };
    let v: Value = serde_json::from_str(&text).expect("known_findings.json is not valid JSON");
    v["findings"]
        .as_array()
        .cloned()
        .unwrap_or_default()
        .iter()
        .map(|e| KnownFinding {
            property: e["property"].as_str().unwrap_or("").to_string(),
            status: e["status"].as_str().unwrap_or("").to_string(),
            signature: e["signature"].as_str().unwrap_or("").to_string(),
            what: e["what"].as_str().unwrap_or("").to_string(),
        })
        .collect()
}

// ---------------------------------------------------------------------------------------------
// Run context
// ---------------------------------------------------------------------------------------------

pub struct StepReport {
    pub kind: String,
    pub what: String,
    pub mode: String,
    pub evaluations: u64,
    pub exhaustive: bool,
    pub obs: Obs,
    pub tolerated: BTreeMap<String, u64>,
}

pub struct Violation {
    pub kind: String,
    pub data: ReplayData,
    pub failure: Failure,
}

fn seed_bytes(seed: u64, prop: &str, kind: &str, worker: u64) -> [u8; 32] {
    let mut out = [0u8; 32];
    let mut s = SplitMix(seed ^ fingerprint(&(prop, kind, worker)));
    for chunk in out.chunks_mut(8) {
        chunk.copy_from_slice(&s.next().to_le_bytes());
    }
    out
}

pub fn workers() -> usize {
    std::env::var("PBVERIF_WORKERS")
        .ok()
        .and_then(|s| s.parse().ok())
        .unwrap_or_else(|| {
            std::thread::available_parallelism()
                .map(|n| n.get())
                .unwrap_or(4)
                .min(16)
        })
        .max(1)
}

const DEFAULT_HANG_LIMIT_S: u64 = 30;

struct HangWatch {
    // (start millis since epoch-of-run, data)
    slots: Vec<Mutex<Option<(std::time::Instant, ReplayData)>>>,
}

pub struct Runner<'p> {
    pub prop: &'p Property,
    pub tier: Tier,
    pub seed: u64,
    pub known: Vec<KnownFinding>,
    pub reports: Vec<StepReport>,
    pub violations: Vec<Violation>,
    pub strict: bool,
}

impl<'p> Runner<'p> {
    pub fn new(prop: &'p Property, tier: Tier, seed: u64) -> Self {
        let known = load_known_findings()
            .into_iter()
            .filter(|k| k.property == prop.id && k.status == "known")
            .collect();
        Runner {
            prop,
            tier,
            seed,
            known,
            reports: vec![],
            violations: vec![],
            strict: false,
        }
    }

    fn is_known(&self, sig: &str) -> bool {
        !self.strict && self.known.iter().any(|k| k.signature == sig)
    }

    fn sub(&self, kind: &str) -> &'p SubCheck {
        self.prop
            .subchecks
            .iter()
            .find(|s| s.kind == kind)
            .unwrap_or_else(|| panic!("unknown sub-check {kind}"))
    }

    fn spawn_watchdog(
        &self,
        watch: Arc<HangWatch>,
        done: Arc<AtomicBool>,
        kind: String,
    ) -> std::thread::JoinHandle<()> {
        let prop_id = self.prop.id;
        let hang_is_violation = self.prop.hang_is_violation;
        #[allow(non_snake_case)]
        let HANG_LIMIT_S = if self.prop.hang_limit_s == 0 { DEFAULT_HANG_LIMIT_S } else { self.prop.hang_limit_s };
        std::thread::spawn(move || {
            while !done.load(Ordering::Relaxed) {
                std::thread::sleep(std::time::Duration::from_millis(250));
                for slot in &watch.slots {
                    let g = slot.lock().unwrap();
                    if let Some((t0, data)) = &*g {
                        if t0.elapsed().as_secs() >= HANG_LIMIT_S {
                            let f = Failure::new(
                                "hang",
                                format!("case did not finish within {HANG_LIMIT_S} s"),
                            );
                            let path = write_replay(prop_id, &kind, data, &f);
                            if hang_is_violation {
                                println!("VIOLATION property={} replay={}", prop_id, path);
                                println!("  hang: case did not finish within {HANG_LIMIT_S} s");
                                std::process::exit(1);
                            } else {
                                eprintln!(
                                    "INCONCLUSIVE: a case of {prop_id}/{kind} did not finish within {HANG_LIMIT_S} s (replay {path})"
                                );
                                std::process::exit(2);
                            }
                        }
                    }
                }
            }
        })
    }

    /// Saved cases (shrunk failures of the past, probes of fixed findings) are replayed first, in
    /// strict mode: /verif/regress/<ID>/*.json.
    pub fn run_regressions(&mut self) {
        if std::env::var("PBVERIF_NO_REGRESS").is_ok() {
            return; // development aid: judge the generators alone
        }
        let dir = format!("{}/regress/{}", verif_dir(), self.prop.id);
        let Ok(rd) = std::fs::read_dir(&dir) else { return };
        let mut files: Vec<String> = rd.filter_map(|e| e.ok()).map(|e| e.path().display().to_string()).filter(|p| p.ends_with(".json")).collect();
        files.sort();
        let mut n = 0u64;
        let mut obs = Obs::default();
        for f in files {
            let Ok((p, kind, data)) = read_replay(&f) else {
                eprintln!("note: unreadable regression file {f}");
                continue;
            };
            if p != self.prop.id || !self.prop.subchecks.iter().any(|s| s.kind == kind) {
                continue;
            }
            n += 1;
            let was = self.strict;
            self.strict = true;
            let r = self.replay(&kind, &data);
            self.strict = was;
            obs.begin(false);
            obs.nontrivial(fingerprint(&f));
            obs.commit();
            if let Err(fl) = r {
                if self.is_known(&fl.signature) {
                    continue;
                }
                self.violations.push(Violation { kind, data, failure: Failure::new(fl.signature, format!("regression case {f}: {}", fl.msg)) });
                break;
            }
        }
        if n > 0 {
            self.reports.push(StepReport {
                kind: "regressions".into(),
                what: "saved cases replayed in strict mode".into(),
                mode: format!("{n} saved cases from regress/{}", self.prop.id),
                evaluations: n,
                exhaustive: false,
                obs,
                tolerated: BTreeMap::new(),
            });
        }
    }

    pub fn run_plan(&mut self) {
        let steps = (self.prop.plan)(self.tier);
        // development aid: PBVERIF_ONLY_STEP=<sub-check or fuzz target> runs just that step
        let only = std::env::var("PBVERIF_ONLY_STEP").ok();
        for step in steps {
            if !self.violations.is_empty() {
                break;
            }
            if let Some(o) = &only {
                let name = match &step {
                    Step::Pbt { kind, .. } | Step::Enumerate { kind, .. } | Step::EnumerateRange { kind, .. } => *kind,
                    Step::Fuzz { target, .. } => *target,
                };
                if name != o {
                    continue;
                }
            }
            match step {
                Step::Pbt {
                    kind,
                    cases,
                    max_len,
                } => self.run_pbt(kind, cases, max_len),
                Step::Enumerate { kind, count } => self.run_enum(kind, 0, count, true),
                Step::EnumerateRange { kind, lo, hi } => self.run_enum(kind, lo, hi, false),
                Step::Fuzz { target, runs } => crate::fuzzdrv::run_fuzz(self, target, runs),
            }
        }
    }

    pub fn run_pbt(&mut self, kind: &'static str, cases: u64, max_len: usize) {
        let sub = self.sub(kind);
        let CaseFn::Tape(f) = &sub.f else {
            panic!("{kind} is not a tape sub-check")
        };
        let w = workers().min(cases.max(1) as usize).max(1);
        let watch = Arc::new(HangWatch {
            slots: (0..w).map(|_| Mutex::new(None)).collect(),
        });
        let done = Arc::new(AtomicBool::new(false));
        let wd = self.spawn_watchdog(watch.clone(), done.clone(), kind.to_string());
        let stop = AtomicBool::new(false);
        let evals = AtomicU64::new(0);
        let this: &Runner = self;
        let results: Vec<(Obs, BTreeMap<String, u64>, Option<(Vec<u32>, Failure)>)> =
            std::thread::scope(|scope| {
                let handles: Vec<_> = (0..w)
                    .map(|wi| {
                        let watch = watch.clone();
                        let stop = &stop;
                        let evals = &evals;
                        scope.spawn(move || {
                            let my_cases = cases / w as u64 + u64::from((wi as u64) < cases % w as u64);
                            let config = Config {
                                cases: my_cases as u32,
                                failure_persistence: None,
                                max_shrink_iters: 200_000,
                                max_shrink_time: 45_000,
                                verbose: 0,
                                fork: false,
                                ..Config::default()
                            };
                            let rng = TestRng::from_seed(
                                RngAlgorithm::ChaCha,
                                &seed_bytes(this.seed, this.prop.id, kind, wi as u64),
                            );
                            let mut runner = TestRunner::new_with_rng(config, rng);
                            // Tape lengths: mostly long (substantial cases), sometimes short.
                            let strategy = proptest::collection::vec(
                                proptest::num::u32::ANY,
                                0..=max_len,
                            );
                            let obs = RefCell::new(Obs::default());
                            let tolerated = RefCell::new(BTreeMap::<String, u64>::new());
                            let failed = std::cell::Cell::new(false);
                            let n_samples = std::cell::Cell::new(0u32);
                            let res = runner.run(&strategy, |tape_vec| {
                                if stop.load(Ordering::Relaxed) && !failed.get() {
                                    return Ok(());
                                }
                                *watch.slots[wi].lock().unwrap() = Some((
                                    std::time::Instant::now(),
                                    ReplayData::Tape(tape_vec.clone()),
                                ));
                                let mut o = obs.borrow_mut();
                                let want = wi == 0 && n_samples.get() < 4 && !failed.get();
                                o.begin(want);
                                let r = guarded(|| {
                                    let mut tape = Tape::new(&tape_vec);
                                    f(&mut tape, &mut o)
                                });
                                *watch.slots[wi].lock().unwrap() = None;
                                if !failed.get() {
                                    evals.fetch_add(1, Ordering::Relaxed);
                                }
                                match r {
                                    Ok(()) => {
                                        if o.case_sample.is_some() {
                                            n_samples.set(n_samples.get() + 1);
                                        }
                                        o.commit();
                                        Ok(())
                                    }
                                    Err(fl) => {
                                        if this.is_known(&fl.signature) {
                                            if std::env::var("PBVERIF_SAVE_TOLERATED").is_ok() {
                                                let p = write_replay(this.prop.id, &format!("{kind}"), &ReplayData::Tape(tape_vec.clone()), &fl);
                                                eprintln!("tolerated case saved: {p}");
                                            }
                                            if !failed.get() {
                                                *tolerated
                                                    .borrow_mut()
                                                    .entry(fl.signature.clone())
                                                    .or_default() += 1;
                                                o.commit();
                                            }
                                            Ok(())
                                        } else {
                                            if !failed.get() {
                                                failed.set(true);
                                                o.frozen = true;
                                                stop.store(true, Ordering::Relaxed);
                                            }
                                            Err(TestCaseError::fail(fl.msg))
                                        }
                                    }
                                }
                            });
                            let failure = match res {
                                Ok(()) => None,
                                Err(TestError::Fail(_, tape_vec)) => {
                                    // Re-run the shrunk case to obtain its own failure text.
                                    let mut o = Obs::default();
                                    o.frozen = true;
                                    let r = guarded(|| {
                                        let mut tape = Tape::new(&tape_vec);
                                        f(&mut tape, &mut o)
                                    });
                                    let fl = match r {
                                        Err(fl) => fl,
                                        Ok(()) => Failure::new(
                                            "flaky",
                                            "shrunk case did not fail when re-run (non-deterministic check?)",
                                        ),
                                    };
                                    Some((tape_vec, fl))
                                }
                                Err(TestError::Abort(reason)) => Some((
                                    vec![],
                                    Failure::new("abort", format!("proptest aborted: {reason}")),
                                )),
                            };
                            (obs.into_inner(), tolerated.into_inner(), failure)
                        })
                    })
                    .collect();
                handles.into_iter().map(|h| h.join().unwrap()).collect()
            });
        done.store(true, Ordering::Relaxed);
        let _ = wd.join();
        let mut obs = Obs::default();
        let mut tolerated = BTreeMap::new();
        for (o, t, failure) in results {
            obs.merge(o);
            for (k, v) in t {
                *tolerated.entry(k).or_default() += v;
            }
            if let Some((tape, fl)) = failure {
                if fl.signature == "flaky" || fl.signature == "abort" {
                    eprintln!("INCONCLUSIVE: {}/{}: {}", self.prop.id, kind, fl.msg);
                    std::process::exit(2);
                }
                if self.violations.is_empty() {
                    let tape = minimise_tape(&tape, &fl.signature, |t| {
                        let mut o = Obs::default();
                        o.frozen = true;
                        guarded(|| {
                            let mut tape = Tape::new(t);
                            f(&mut tape, &mut o)
                        })
                    });
                    self.violations.push(Violation {
                        kind: kind.to_string(),
                        data: ReplayData::Tape(tape),
                        failure: fl,
                    });
                }
            }
        }
        self.reports.push(StepReport {
            kind: kind.to_string(),
            what: sub.what.to_string(),
            mode: format!("proptest, {cases} cases, tapes up to {max_len} choices, {w} workers"),
            evaluations: evals.load(Ordering::Relaxed),
            exhaustive: false,
            obs,
            tolerated,
        });
    }

    pub fn run_enum(&mut self, kind: &'static str, lo: u64, hi: u64, exhaustive: bool) {
        let sub = self.sub(kind);
        let CaseFn::Index(f) = &sub.f else {
            panic!("{kind} is not an index sub-check")
        };
        let count = hi - lo;
        let w = workers().min(count.max(1) as usize).max(1);
        let watch = Arc::new(HangWatch {
            slots: (0..w).map(|_| Mutex::new(None)).collect(),
        });
        let done = Arc::new(AtomicBool::new(false));
        let wd = self.spawn_watchdog(watch.clone(), done.clone(), kind.to_string());
        let next = AtomicU64::new(lo);
        let first_fail = AtomicU64::new(u64::MAX);
        let this: &Runner = self;
        const CHUNK: u64 = 64;
        let results: Vec<(Obs, BTreeMap<String, u64>, u64, Option<(u64, Failure)>)> =
            std::thread::scope(|scope| {
                let handles: Vec<_> = (0..w)
                    .map(|wi| {
                        let watch = watch.clone();
                        let next = &next;
                        let first_fail = &first_fail;
                        scope.spawn(move || {
                            let mut obs = Obs::default();
                            let mut tolerated = BTreeMap::<String, u64>::new();
                            let mut evals = 0u64;
                            let mut failure: Option<(u64, Failure)> = None;
                            let mut n_samples = 0;
                            loop {
                                let start = next.fetch_add(CHUNK, Ordering::Relaxed);
                                if start >= hi || start > first_fail.load(Ordering::Relaxed) {
                                    break;
                                }
                                for i in start..(start + CHUNK).min(hi) {
                                    if i > first_fail.load(Ordering::Relaxed) {
                                        break;
                                    }
                                    *watch.slots[wi].lock().unwrap() =
                                        Some((std::time::Instant::now(), ReplayData::Index(i)));
                                    let want = n_samples < 2
                                        && (i - lo) % (count / 4).max(1) == 0;
                                    obs.begin(want);
                                    let r = guarded(|| f(i, &mut obs));
                                    *watch.slots[wi].lock().unwrap() = None;
                                    evals += 1;
                                    match r {
                                        Ok(()) => {
                                            if obs.case_sample.is_some() {
                                                n_samples += 1;
                                            }
                                            obs.commit();
                                        }
                                        Err(fl) => {
                                            if this.is_known(&fl.signature) {
                                                *tolerated
                                                    .entry(fl.signature.clone())
                                                    .or_default() += 1;
                                                obs.commit();
                                            } else {
                                                first_fail.fetch_min(i, Ordering::Relaxed);
                                                if failure.as_ref().map(|(j, _)| i < *j).unwrap_or(true) {
                                                    failure = Some((i, fl));
                                                }
                                                break;
                                            }
                                        }
                                    }
                                }
                            }
                            (obs, tolerated, evals, failure)
                        })
                    })
                    .collect();
                handles.into_iter().map(|h| h.join().unwrap()).collect()
            });
        done.store(true, Ordering::Relaxed);
        let _ = wd.join();
        let mut obs = Obs::default();
        let mut tolerated = BTreeMap::new();
        let mut evals = 0;
        let mut best: Option<(u64, Failure)> = None;
        for (o, t, e, failure) in results {
            obs.merge(o);
            evals += e;
            for (k, v) in t {
                *tolerated.entry(k).or_default() += v;
            }
            if let Some((i, fl)) = failure {
                if best.as_ref().map(|(j, _)| i < *j).unwrap_or(true) {
                    best = Some((i, fl));
                }
            }
        }
        if let Some((i, fl)) = best {
            self.violations.push(Violation {
                kind: kind.to_string(),
                data: ReplayData::Index(i),
                failure: fl,
            });
        }
        self.reports.push(StepReport {
            kind: kind.to_string(),
            what: sub.what.to_string(),
            mode: if exhaustive {
                format!("bounded exhaustive, all {count} cases")
            } else {
                format!("enumerated slice {lo}..{hi}")
            },
            evaluations: evals,
            exhaustive: exhaustive && self.violations.is_empty(),
            obs,
            tolerated,
        });
    }

    /// Strict re-execution of one saved case.
    pub fn replay(&self, kind: &str, data: &ReplayData) -> CaseResult {
        let sub = self.sub(kind);
        let mut o = Obs::default();
        o.frozen = true;
        match (&sub.f, data) {
            (CaseFn::Tape(f), ReplayData::Tape(t)) => guarded(|| {
                let mut tape = Tape::new(t);
                f(&mut tape, &mut o)
            }),
            (CaseFn::Index(f), ReplayData::Index(i)) => guarded(|| f(*i, &mut o)),
            _ => Err(Failure::new(
                "replay-format",
                "replay data does not match the sub-check type",
            )),
        }
    }

    /// Known-finding probes: print KNOWN-FINDING for each listed finding whose probe still fails
    /// with exactly that signature.
    pub fn run_probes(&mut self) {
        for k in self.known.clone() {
            let Some(probe) = self.prop.probes.iter().find(|p| p.signature == k.signature) else {
                println!(
                    "KNOWN-FINDING: property={} {} (no dedicated probe; tolerated by signature '{}')",
                    self.prop.id, k.what, k.signature
                );
                continue;
            };
            let was = self.strict;
            self.strict = true;
            let r = self.replay(probe.kind, &probe.data);
            self.strict = was;
            match r {
                Err(fl) if fl.signature == k.signature => {
                    println!("KNOWN-FINDING: property={} {}", self.prop.id, k.what);
                }
                Err(fl) => {
                    // The probe fails differently: that is a new violation.
                    self.violations.push(Violation {
                        kind: probe.kind.to_string(),
                        data: probe.data.clone(),
                        failure: fl,
                    });
                }
                Ok(()) => {
                    eprintln!(
                        "note: known finding '{}' of {} no longer reproduces",
                        k.signature, self.prop.id
                    );
                }
            }
        }
    }

    pub fn finish(&mut self, wall_s: f64) -> i32 {
        let mut exit = 0;
        let mut paths = vec![];
        for v in &self.violations {
            let path = write_replay(self.prop.id, &v.kind, &v.data, &v.failure);
            println!("VIOLATION property={} replay={}", self.prop.id, path);
            println!("  [{}] {}", v.failure.signature, v.failure.msg);
            paths.push(path);
            exit = 1;
        }
        self.write_evidence(wall_s);
        for r in &self.reports {
            let nt = r.obs.nontrivial.len();
            println!(
                "{} {:<18} {:>10} cases, {:>8} distinct non-trivial  ({})",
                self.prop.id, r.kind, r.evaluations, nt, r.mode
            );
            for (k, n) in &r.tolerated {
                println!("    tolerated known finding '{}': {} cases", k, n);
            }
        }
        exit
    }

    fn write_evidence(&self, wall_s: f64) {
        let mut evaluations = 0u64;
        let mut all_nt: HashSet<u64> = HashSet::new();
        let mut samples = vec![];
        let mut steps = vec![];
        let mut all_exhaustive = !self.reports.is_empty();
        for r in &self.reports {
            evaluations += r.evaluations;
            for f in &r.obs.nontrivial {
                all_nt.insert(fingerprint(&(r.kind.as_str(), *f)));
            }
            for s in r.obs.samples.iter().take(3) {
                samples.push(json!({"sub_check": r.kind, "case": s}));
            }
            all_exhaustive &= r.exhaustive;
            steps.push(json!({
                "sub_check": r.kind,
                "what": r.what,
                "mode": r.mode,
                "evaluations": r.evaluations,
                "distinct_nontrivial": r.obs.nontrivial.len(),
                "exhaustive": r.exhaustive,
                "labels": r.obs.labels,
                "counters": r.obs.counters,
                "tolerated_known_findings": r.tolerated,
            }));
        }
        let ev = json!({
            "property_id": self.prop.id,
            "tier": match self.tier { Tier::Quick => "quick", Tier::Thorough => "thorough" },
            "seed": self.seed,
            "level": "exploration",
            "coverage": {
                "evaluations": evaluations,
                "distinct_nontrivial": all_nt.len(),
                "rule": self.prop.rule,
                "samples": samples,
                "exhaustive": all_exhaustive,
                "sub_checks": steps,
            },
            "assumptions": self.prop.assumptions,
            "wall_s": wall_s,
            "violations": self.violations.len(),
        });
        let dir = format!("{}/evidence", verif_dir());
        let _ = std::fs::create_dir_all(&dir);
        let path = format!("{}/{}.json", dir, self.prop.id);
        std::fs::write(&path, serde_json::to_string_pretty(&ev).unwrap() + "\n")
            .unwrap_or_else(|e| panic!("cannot write {path}: {e}"));
    }
}

/// Greedy post-pass after proptest's own shrinking: delete blocks and zero entries while the same
/// failure signature remains.  Bounded work.
fn minimise_tape(
    tape: &[u32],
    signature: &str,
    run: impl Fn(&[u32]) -> CaseResult,
) -> Vec<u32> {
    let mut cur = tape.to_vec();
    let mut budget = 600;
    let same = |t: &[u32], budget: &mut i32| -> bool {
        *budget -= 1;
        matches!(run(t), Err(f) if f.signature == signature)
    };
    // drop tail
    let mut n = cur.len();
    while n > 0 && budget > 0 {
        let half = n / 2;
        if same(&cur[..cur.len() - (n - half).min(cur.len())], &mut budget) {
            let keep = cur.len() - (n - half).min(cur.len());
            cur.truncate(keep);
            n = cur.len();
        } else {
            n = half;
        }
    }
    // zero entries
    let mut i = 0;
    while i < cur.len() && budget > 0 {
        if cur[i] != 0 {
            let old = cur[i];
            cur[i] = 0;
            if !same(&cur, &mut budget) {
                cur[i] = old;
            }
        }
        i += 1;
    }
    cur
}

pub fn write_replay(prop: &str, kind: &str, data: &ReplayData, f: &Failure) -> String {
    let dir = format!("{}/replays/{}", verif_dir(), prop);
    let _ = std::fs::create_dir_all(&dir);
    let (dj, h) = match data {
        ReplayData::Tape(t) => (json!({"tape": t}), fingerprint(&(kind, t))),
        ReplayData::Index(i) => (json!({"index": i}), fingerprint(&(kind, i))),
    };
    let path = format!("{}/{}-{:016x}.json", dir, kind, h);
    let v = json!({
        "property": prop,
        "sub_check": kind,
        "data": dj,
        "signature": f.signature,
        "failure": f.msg,
    });
    std::fs::write(&path, serde_json::to_string_pretty(&v).unwrap() + "\n")
        .unwrap_or_else(|e| panic!("cannot write {path}: {e}"));
    path
}

pub fn read_replay(path: &str) -> Result<(String, String, ReplayData), String> {
    let text = std::fs::read_to_string(path).map_err(|e| format!("{path}: {e}"))?;
    let v: Value = serde_json::from_str(&text).map_err(|e| format!("{path}: {e}"))?;
    let prop = v["property"].as_str().ok_or("missing property")?.to_string();
    let kind = v["sub_check"].as_str().ok_or("missing sub_check")?.to_string();
    let data = if let Some(t) = v["data"]["tape"].as_array() {
        ReplayData::Tape(t.iter().map(|x| x.as_u64().unwrap_or(0) as u32).collect())
    } else if let Some(i) = v["data"]["index"].as_u64() {
        ReplayData::Index(i)
    } else {
        return Err("missing data.tape / data.index".into());
    };
    Ok((prop, kind, data))
}
