//! pbverif - property-based testing / fuzzing harness for Rahix/profirust (see /verif/DESIGN.md).
pub mod apps;
pub mod dpdrv;
pub mod dpfull;
pub mod dporacles;
pub mod engine;
pub mod envsim;
pub mod fuzzdrv;
pub mod fuzzentry;
pub mod props;
pub mod refcodec;
pub mod ringsim;
pub mod simbus;

pub fn all_properties() -> Vec<engine::Property> {
    props::all()
}
