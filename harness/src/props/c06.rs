//! C06 The token ring recovers from lost stations, lost tokens and corrupted traffic.
use crate::engine::*;
use crate::ringsim::*;
use crate::simbus::Fault;
use crate::{ensure, fail};
use profirust::fdl::ConnectivityState;
use serde_json::json;

#[derive(Debug, Clone)]
enum FaultAct {
    NextTx(usize, Fault),
    Garbage(Vec<u8>),
    CorruptWindow(i64),
    Stop { station: usize, cut: bool },
    Restart { station: usize },
    /// garble the first transmission of whoever receives `station`'s next token pass
    GarbleAfterPass { station: usize, fault: Fault },
    /// lose `station`'s next token pass; garble the first transmission after the repeated pass
    LostPassThenGarble { station: usize, fault: Fault },
    /// lose `station`'s next token pass (only a token pass, whatever it transmits before)
    LostPass { station: usize },
}

fn fdl_state_name(dbg: &str) -> String {
    // the `, state: ` field of the Debug output (not `connectivity_state:`)
    match dbg.find(", state: ") {
        Some(p) => dbg[p + 9..].chars().take_while(|c| c.is_alphanumeric()).collect(),
        None => "?".into(),
    }
}

fn recovery_case(t: &mut Tape, obs: &mut Obs) -> CaseResult {
    let unsync = t.chance(1, 6);
    let cfg = gen_ring_cfg(t, &GenOpts { min_n: 2, max_n: 5, max_hsa_extra: 20, late_joiners: false });
    recovery_core(cfg, unsync, t, obs)
}

/// The claim race constructed on purpose: two stations whose silence time-outs expire together.
fn claim_race_case(i: u64, obs: &mut Obs) -> CaseResult {
    let (a, b) = [(0u8, 2u8), (1, 2), (0, 1), (3, 5)][(i % 4) as usize];
    let baud = [profirust::Baudrate::B500000, profirust::Baudrate::B1500000, profirust::Baudrate::B19200][((i / 4) % 3) as usize];
    let slot_bits = min_slot_bits(baud) + 100;
    let mut cfg = RingCfg { baud, hsa: 8, gap: 1, slot_bits, ttr_bits: 40000, max_retry: 1, schedule: Schedule::Jitter, stations: vec![], jitter_seed: i + 1 };
    let slot = cfg.slot_us();
    // poll much faster than a byte time, so that neither station can hear the other's first byte
    // before it transmits itself
    let p = (cfg.bits_us(11) / 10).max(1);
    // b's time-out is 2(b-a) slot times longer: it goes online that much earlier
    let d = 2 * i64::from(b - a) * slot;
    cfg.stations.push(StationCfg { addr: a, period_us: p.max(1), online_at_us: d });
    cfg.stations.push(StationCfg { addr: b, period_us: p.max(1), online_at_us: 0 });
    let empty: [u32; 0] = [];
    let mut t = Tape::new(&empty);
    obs.sample(|| json!({"config": cfg.describe()}));
    recovery_core_opts(cfg, false, &mut t, obs, true)
}

fn recovery_core(cfg: RingCfg, unsync: bool, t: &mut Tape, obs: &mut Obs) -> CaseResult {
    recovery_core_opts(cfg, unsync, t, obs, false)
}

fn recovery_core_opts(mut cfg: RingCfg, unsync: bool, t: &mut Tape, obs: &mut Obs, keep_online_times: bool) -> CaseResult {
    let _ = keep_online_times;
    if unsync {
        // the un-synchronised cold start (claim race) as a disturbance: stations go online far apart
        let su = cfg.slot_us() as u64;
        for s in cfg.stations.iter_mut() {
            s.online_at_us = t.below(40 * su) as i64;
        }
        obs.label("unsynchronised-cold-start");
    }
    // Schedules that poll two stations at identical instants for ever are excluded here: two token
    // holders transmitting in the very same microsecond are deaf to each other on a half-duplex bus
    // and stay synchronous for ever - that needs perfectly synchronous clocks (see DESIGN 6, C06).
    let mut periods: Vec<i64> = cfg.stations.iter().map(|s| s.period_us).collect();
    periods.sort();
    if cfg.schedule == Schedule::LockStep || (cfg.schedule == Schedule::Fixed && periods.windows(2).any(|w| w[0] == w[1])) {
        cfg.schedule = Schedule::Jitter;
    }
    let n = cfg.stations.len();
    let slot = cfg.slot_us();
    let mut sim = Sim::new(cfg.clone(), 0);
    let sorted = cfg.sorted_addrs();
    // phase 0: let the ring form (bounded by T_conv; if it does not form that is C02's business, but
    // after the fault window the recovery demand applies anyway)
    let form_deadline = t_conv_us(&cfg).min(20_000 * slot);
    let mut formed_at = None;
    let mut last_check = -(1i64 << 60);
    while let Some(tn) = sim.next_time() {
        if tn > form_deadline {
            break;
        }
        sim.step();
        if sim.now - last_check > slot {
            last_check = sim.now;
            if agreement(&sim, &sorted).is_ok() {
                formed_at = Some(sim.now);
                break;
            }
        }
    }
    let t0 = sim.now + slot * (1 + t.below(30) as i64);
    // fault plan: timed actions inside [t0, t1]
    let n_faults = 1 + t.below(10) as usize;
    let window = slot * (20 + t.below(400) as i64);
    let mut plan: Vec<(i64, FaultAct)> = vec![];
    let mut stopped: Vec<bool> = vec![false; n];
    let mut times: Vec<i64> = (0..n_faults).map(|_| t0 + t.below(window as u64) as i64).collect();
    times.sort();
    for at in times {
        let station = t.below(n as u64) as usize;
        let act = match t.weighted(&[4, 2, 2, 2, 2, 1, 3, 2, 2, 2, 1, 2]) {
            0 => FaultAct::NextTx(station, Fault::Drop),
            1 => FaultAct::NextTx(station, Fault::Truncate(1 + t.below(5) as usize)),
            2 => FaultAct::NextTx(station, Fault::FlipBit(t.below(8) as usize, t.below(8) as u8)),
            3 => FaultAct::NextTx(station, Fault::Substitute(t.below(6) as usize, t.u8())),
            4 => {
                let k = 1 + t.below(6) as usize;
                FaultAct::Garbage(t.fill(k))
            }
            8 | 9 => {
                let fault = match t.below(3) {
                    0 => Fault::FlipBit(t.below(8) as usize, t.below(8) as u8),
                    1 => Fault::Truncate(1 + t.below(4) as usize),
                    _ => Fault::Substitute(t.below(6) as usize, t.u8()),
                };
                if t.bool() {
                    FaultAct::GarbleAfterPass { station, fault }
                } else {
                    FaultAct::LostPassThenGarble { station, fault }
                }
            }
            10 => FaultAct::LostPass { station },
            11 => {
                // rubble: the remains of a damaged telegram whose inside looks like token telegrams
                // naming stations of this ring (token telegrams carry no checksum)
                let mut g = vec![t.u8() | 0x01];
                if [0x11u8, 0x69, 0xA3, 0xDD, 0xE5].contains(&g[0]) {
                    g[0] = 0x01;
                }
                let victim = cfg.stations[station].addr;
                for _ in 0..(1 + t.below(6)) {
                    let a = cfg.stations[t.below(n as u64) as usize].addr;
                    let b = if t.chance(3, 4) { victim } else { cfg.stations[t.below(n as u64) as usize].addr };
                    g.extend_from_slice(&[0xDC, a, b]);
                }
                FaultAct::Garbage(g)
            }
            5 => FaultAct::CorruptWindow(slot * (1 + t.below(6) as i64)),
            6 => {
                if stopped[station] {
                    stopped[station] = false;
                    FaultAct::Restart { station }
                } else if stopped.iter().filter(|s| !**s).count() > 1 || t.bool() {
                    stopped[station] = true;
                    FaultAct::Stop { station, cut: t.bool() }
                } else {
                    FaultAct::NextTx(station, Fault::Drop)
                }
            }
            _ => {
                if stopped[station] {
                    stopped[station] = false;
                    FaultAct::Restart { station }
                } else {
                    FaultAct::NextTx(station, Fault::Drop)
                }
            }
        };
        plan.push((at, act));
    }
    // at the end of the window a generated subset of the stopped stations comes back
    let t1 = t0 + window;
    for s in 0..n {
        if stopped[s] && t.bool() {
            stopped[s] = false;
            plan.push((t1, FaultAct::Restart { station: s }));
        }
    }
    if stopped.iter().all(|s| *s) {
        stopped[0] = false;
        plan.push((t1, FaultAct::Restart { station: 0 }));
    }
    let mut hit_token = false;
    let mut garbled_after_pass = false;
    let mut stopped_owner = false;
    let mut pi = 0;
    let trace_mark = sim.bus.trace_len();
    // token-correlated faults waiting for a token pass of their station: (station, fault, lose first)
    let mut chains: Vec<(usize, Fault, bool)> = vec![];
    let mut seen_records = trace_mark;
    // run through the fault window
    loop {
        let tn = match sim.next_time() {
            Some(tn) => tn,
            None if pi < plan.len() => i64::MAX,
            None => break,
        };
        if pi >= plan.len() && tn > t1 {
            break;
        }
        if pi < plan.len() && plan[pi].0 <= tn {
            let (at, act) = plan[pi].clone();
            pi += 1;
            let now = at.max(sim.now);
            match act {
                FaultAct::NextTx(s, f) => {
                    sim.bus.0.borrow_mut().next_fault[s] = Some(f);
                }
                FaultAct::Garbage(g) => {
                    let id = sim.phantom_id();
                    sim.bus.inject(id, now, &g);
                }
                FaultAct::CorruptWindow(d) => {
                    sim.bus.0.borrow_mut().corrupt_windows.push((now * 1000, (now + d) * 1000));
                }
                FaultAct::Stop { station, cut } => {
                    let dbg = format!("{:?}", sim.nodes[station].fdl);
                    let st = fdl_state_name(&dbg);
                    obs.label(&format!("stop-in-{st}"));
                    if ["UseToken", "PassToken", "ClaimToken", "AwaitDataResponse", "AwaitStatusResponse", "CheckTokenPass"].contains(&st.as_str()) {
                        stopped_owner = true;
                    }
                    sim.stop_station(station);
                    if cut {
                        sim.bus.cut_transmission(station, now);
                        obs.label("stop-mid-transmission-cut");
                    }
                }
                FaultAct::Restart { station } => {
                    sim.restart_station(station, now + 1);
                }
                FaultAct::GarbleAfterPass { station, fault } => chains.push((station, fault, false)),
                FaultAct::LostPassThenGarble { station, fault } => {
                    sim.bus.0.borrow_mut().next_token_fault[station] = Some(Fault::Drop);
                    chains.push((station, fault, true));
                }
                FaultAct::LostPass { station } => {
                    sim.bus.0.borrow_mut().next_token_fault[station] = Some(Fault::Drop);
                }
            }
            continue;
        }
        sim.step();
        // token-correlated faults: look at the transmissions that just started
        if !chains.is_empty() {
            let mut b = sim.bus.0.borrow_mut();
            while seen_records < b.trace.len() {
                let r = b.trace[seen_records].clone();
                seen_records += 1;
                if r.bytes.len() == 3 && r.bytes[0] == 0xDC && r.bytes[1] != r.bytes[2] {
                    if let Some(ci) = chains.iter().position(|c| c.0 == r.sender) {
                        if chains[ci].2 {
                            // this is the pass that is lost (or was damaged otherwise); the next one counts
                            chains[ci].2 = false;
                        } else {
                            let (_, fault, _) = chains.remove(ci);
                            if let Some(di) = sim.nodes.iter().position(|nd| nd.addr == r.bytes[1]) {
                                b.next_fault[di] = Some(fault);
                                garbled_after_pass = true;
                            }
                        }
                    }
                }
            }
        } else {
            seen_records = sim.bus.trace_len();
        }
    }
    {
        let b = sim.bus.0.borrow();
        for r in &b.trace[trace_mark..] {
            if (r.faulted || r.overlapped) && r.bytes.first() == Some(&0xDC) {
                hit_token = true;
            }
        }
    }
    // faults armed for a 'next transmission' that did not happen inside the window are disarmed:
    // after the window the bus is fault free
    for f in sim.bus.0.borrow_mut().next_fault.iter_mut() {
        *f = None;
    }
    for f in sim.bus.0.borrow_mut().next_token_fault.iter_mut() {
        *f = None;
    }
    let last_disturbance = sim.now.max(t1);
    if std::env::var("PBVERIF_DUMP").is_ok() {
        eprintln!("t0={t0} t1={t1} last_disturbance={last_disturbance} formed_at={formed_at:?} plan={plan:?}");
    }
    // recovery phase: fault free
    let a_max = i64::from(*sorted.last().unwrap());
    let t_rec = (6 + 2 * a_max) * slot + 3 * (slot + cfg.bits_us(100)) + t_conv_us(&cfg);
    let deadline = last_disturbance + t_rec;
    // consequences of the last disturbance (lost token noticed, three pass attempts) play out within this time
    let settle = (6 + 2 * a_max) * slot + 3 * (slot + cfg.bits_us(100)) + 4 * rotation_bound_us(&cfg, n);
    let rot = rotation_bound_us(&cfg, n);
    let stab = 3 * (i64::from(cfg.gap) + 2 + i64::from(cfg.hsa)) * rot;
    let mut converged_at: Option<(i64, Vec<u8>)> = None;
    let mut last_check = -(1i64 << 60);
    let expect_now = |sim: &Sim| -> Vec<u8> {
        let mut v: Vec<u8> = sim
            .nodes
            .iter()
            .filter(|nd| !nd.stopped && (!nd.started || nd.fdl.connectivity_state() == ConnectivityState::Online))
            .map(|nd| nd.addr)
            .collect();
        v.sort();
        v
    };
    loop {
        let Some(tn) = sim.next_time() else { break };
        if let Some((c, _)) = &converged_at {
            if tn > c + stab {
                break;
            }
        } else if tn > deadline {
            let e = expect_now(&sim);
            let why = agreement(&sim, &e).err().unwrap_or_default();
            let silent_for = sim.now * 1000 - sim.bus.0.borrow().busy_until();
            // classify the 'two token holders transmitting in lock step' failure mode
            let lockstep = {
                let b = sim.bus.0.borrow();
                let tail = &b.trace[b.trace.len().saturating_sub(60)..];
                tail.len() == 60 && tail.iter().filter(|r| r.overlapped).count() >= 25
            };
            // ... and whether it began with two stations claiming the token in the same instant (their
            // silence time-outs ran out together): upstream issue #25, a recorded known finding
            let mut early_claim = false;
            let claim_race = lockstep && {
                let b = sim.bus.0.borrow();
                let tr = &b.trace;
                // start of the final streak: after the last window of 20 records without any overlap
                let mut start = 0;
                for j in (20..tr.len()).rev() {
                    if tr[j - 20..j].iter().all(|r| !r.overlapped) {
                        start = j;
                        break;
                    }
                }
                match (start..tr.len()).find(|k| tr[*k].overlapped) {
                    Some(k) if k >= 1 => {
                        let (a, bb) = (&tr[k - 1], &tr[k]);
                        let is_claim = |r: &crate::simbus::TxRecord| r.bytes.len() == 3 && r.bytes[0] == 0xDC && r.bytes[1] == r.bytes[2];
                        let quiet_before = if k >= 2 { a.start_ns - tr[k - 2].end_ns >= 5 * cfg.bits_ns(u64::from(cfg.slot_bits)) } else { true };
                        // the known finding is about two stations that each waited for their OWN
                        // silence time-out (6 + 2 addr) Tslot; a station claiming earlier is
                        // something else
                        let silence_from = if k >= 2 { tr[k - 2].end_ns } else { i64::MIN };
                        let waited = |r: &crate::simbus::TxRecord| {
                            let Some(nd) = sim.nodes.get(r.sender) else { return false };
                            let since = silence_from.max(nd.online_at * 1000);
                            let tl = cfg.bits_ns(u64::from(cfg.slot_bits) * (6 + 2 * u64::from(nd.addr)));
                            r.start_ns - since >= tl - 2000
                        };
                        if is_claim(a) && is_claim(bb) && a.sender != bb.sender && quiet_before && !(waited(a) && waited(bb)) {
                            early_claim = true;
                        }
                        is_claim(a) && is_claim(bb) && a.sender != bb.sender && quiet_before && waited(a) && waited(bb)
                    }
                    _ => false,
                }
            };
            if early_claim {
                fail!("claim-before-timeout", "two stations claimed the token together and at least one of them did so before its own silence time-out (6 + 2 addr) Tslot had elapsed; they transmit simultaneously ever since: no single agreed ring over {:?} within T_rec = {} Tslot after the last disturbance at {} us: {}{}", e, t_rec / slot, last_disturbance, why, dump_tail(&sim));
            }
            if claim_race {
                fail!("claim-race-lockstep", "two stations claimed the token in the same instant and transmit simultaneously ever since (both deaf while transmitting): no single agreed ring over {:?} within T_rec = {} Tslot after the last disturbance at {} us: {}{}", e, t_rec / slot, last_disturbance, why, dump_tail(&sim));
            }
            if lockstep {
                fail!("dual-token-lockstep", "two stations each hold a token and transmit simultaneously for ever (both deaf while transmitting): no single agreed ring over {:?} within T_rec = {} Tslot after the last disturbance at {} us: {}{}", e, t_rec / slot, last_disturbance, why, dump_tail(&sim));
            }
            fail!("not-recovered", "no single agreed ring over {:?} within T_rec = {} Tslot after the last disturbance at {} us: {} (bus silent for {} us){}", e, t_rec / slot, last_disturbance, why, silent_for / 1000, dump_tail(&sim));
        }
        let ev = sim.step();
        let Some(Event::Polled(_)) = ev else { continue };
        match &converged_at {
            None => {
                if sim.now - last_check >= slot {
                    last_check = sim.now;
                    let e = expect_now(&sim);
                    // every station of the population must have been started
                    if sim.nodes.iter().all(|nd| nd.stopped || nd.started) && agreement(&sim, &e).is_ok() {
                        converged_at = Some((sim.now, e));
                    }
                }
            }
            Some((c, e)) => {
                let e2 = expect_now(&sim);
                if &e2 != e {
                    // a station took itself offline (duplicate-address rule) - population changed
                    converged_at = None;
                    continue;
                }
                if let Err(why) = agreement(&sim, e) {
                    if sim.now <= last_disturbance + settle {
                        // still a consequence of the last disturbance (token loss being detected)
                        converged_at = None;
                        continue;
                    }
                    fail!("agreement-lost", "ring recovered at {} us but agreement is lost again at {} us without any further disturbance: {}{}", c, sim.now, why, dump_tail(&sim));
                }
            }
        }
    }
    let Some((c, e)) = converged_at else { fail!("not-recovered", "simulation ended without recovery") };
    if e.len() >= 2 {
        let b = sim.bus.0.borrow();
        let passes = token_order_ok(&b.trace, (c + rot) * 1000, &e).map_err(|x| Failure::new("token-order", format!("after recovery at {} us: {}", c, x)))?;
        ensure!(passes >= 2, "token-order", "only {} token passes after recovery", passes);
    }
    let self_offline = sim.nodes.iter().filter(|nd| !nd.stopped && nd.started && nd.fdl.connectivity_state() != ConnectivityState::Online).count();
    if self_offline > 0 {
        obs.label("station-went-offline-by-duplicate-address-rule");
    }
    // ... which is only legitimate after two telegrams carrying the station's own address as source
    // have reached it - judged by a reference receive path (reference decoder; a decode error
    // discards everything buffered) that was shown the same receive buffers
    for (i, nd) in sim.nodes.iter().enumerate() {
        if !nd.stopped && nd.started && nd.fdl.connectivity_state() != ConnectivityState::Online {
            let seen = sim.bus.0.borrow().ref_sa_seen[i][usize::from(nd.addr)];
            ensure!(seen >= 2, "offline-without-collision", "station #{} took itself offline although only {} telegram(s) with its own address as source reached it (two are needed by the duplicate-address rule); damaged telegrams must vanish as a whole{}", nd.addr, seen, dump_tail(&sim));
        }
    }
    if garbled_after_pass {
        obs.label("garbled-first-transmission-after-token-pass");
    }
    if formed_at.is_none() {
        obs.label("ring-not-formed-before-faults");
    }
    if sim.nodes.iter().any(|nd| nd.stopped) {
        obs.label("station-gone-for-good");
    }
    obs.count("recovered_after_slots", ((c - last_disturbance) / slot).max(0) as u64);
    obs.count("t_rec_slots", (t_rec / slot) as u64);
    if hit_token {
        obs.label("token-frame-hit");
    }
    if stopped_owner {
        obs.label("token-owner-stopped");
    }
    if hit_token || stopped_owner {
        obs.nontrivial(fingerprint(&(format!("{:?}", cfg.baud), &sorted, cfg.hsa, cfg.gap, cfg.slot_bits, format!("{:?}", plan))));
    }
    obs.sample(|| json!({"config": cfg.describe(), "fault_plan": plan.iter().map(|(at, a)| format!("{} us: {:?}", at, a)).collect::<Vec<_>>(), "population_after": e}));
    Ok(())
}

/// A station that is waiting for the reply to one of its GAP polls hears the token telegram of
/// another station: there is a second token holder.  It must withdraw (no further transmission as
/// token holder) until its own silence time-out has run out - otherwise both keep their tokens.
/// `i`: bit 0 the foreign token comes from the polled address / from a third address; bit 1 it is
/// addressed to a third station / to the station itself; bits 2.. which poll is answered that way
/// (0..=2: during the scan that follows the claim, 3..=5: regular polls, one per visit).
fn second_holder_case(i: u64, obs: &mut Obs) -> CaseResult {
    use crate::envsim::{token, World, ENV};
    use crate::refcodec::{self as rc, RefFrame};
    const TS: u8 = 4;
    const SLOT: i64 = 300;
    let from_polled = i & 1 == 0;
    let to_self = i & 2 != 0;
    let which = (i >> 2) % 8;
    // which 6, 7: the station waits for the reply to an application request (the 1st / 3rd one)
    let mut asker = Asker { target: 9 };
    let mut idle = ();
    let app: &mut dyn profirust::fdl::FdlApplication = if which >= 6 { &mut asker } else { &mut idle };
    let mut app_requests = 0u64;
    let mut w = World::new(TS, 12, profirust::Baudrate::B1500000, SLOT as u16, 1, None);
    let mut seen = 0usize;
    let mut polls = 0u64;
    let mut regular_polls = 0u64;
    let mut own_tokens = 0u64;
    let mut injected_at: Option<(i64, u8)> = None;
    let t_lost = w.bit_us((6 + 2 * i64::from(TS)) * SLOT);
    let t_end = 400 * w.bit_us(SLOT) + 40 * t_lost;
    let mut after: Vec<(i64, Vec<u8>)> = vec![];
    while w.now < t_end {
        w.run(7, app);
        let recs = w.sent_since(seen);
        seen = w.trace_len();
        for r in recs {
            if r.sender != 0 {
                continue;
            }
            if let Some((at, _)) = injected_at {
                after.push((r.start_ns / 1000 - at, r.bytes.clone()));
                continue;
            }
            match rc::decode_one(&r.bytes) {
                Some(RefFrame::Token { .. }) => own_tokens += 1,
                Some(RefFrame::Data { dsap: Some(40), da, .. }) if which >= 6 => {
                    app_requests += 1;
                    if app_requests == [1, 3][(which - 6) as usize] {
                        let end = (r.end_ns + 999) / 1000;
                        let sa = if from_polled { da } else { 10 };
                        let to = if to_self { TS } else { 2 };
                        while w.now < end + w.bit_us(40) {
                            w.run(7, app);
                        }
                        w.bus.inject(ENV, w.now, &token(sa, to));
                        injected_at = Some(((w.bus.0.borrow().trace.last().unwrap().end_ns + 999) / 1000, sa));
                        seen = w.trace_len();
                    } else {
                        // the peer answers properly
                        let end = (r.end_ns + 999) / 1000;
                        while w.now < end + w.bit_us(30) {
                            w.run(7, app);
                        }
                        w.bus.inject(ENV, w.now, &rc::encode(&RefFrame::Data { da: TS, sa: da, dsap: Some(41), ssap: Some(40), fc: 0x08, pdu: vec![1] }));
                        seen = w.trace_len();
                    }
                }
                Some(RefFrame::Data { fc: 0x49, da, dsap: None, ssap: None, .. }) => {
                    // polls 0.. belong to the scan after the claim (two claim tokens before), the
                    // regular ones follow after the first token pass to itself
                    let regular = own_tokens > 2;
                    let idx = if regular {
                        regular_polls += 1;
                        3 + (regular_polls - 1)
                    } else {
                        polls += 1;
                        if polls <= 3 { polls - 1 } else { u64::MAX }
                    };
                    if idx == which {
                        let end = (r.end_ns + 999) / 1000;
                        let sa = if from_polled { da } else { (da + 2) % 12 };
                        let sa = if sa == TS { (sa + 1) % 12 } else { sa };
                        let to = if to_self { TS } else { 9 };
                        while w.now < end + w.bit_us(40) {
                            w.run(7, app);
                        }
                        w.bus.inject(ENV, w.now, &token(sa, to));
                        injected_at = Some(((w.bus.0.borrow().trace.last().unwrap().end_ns + 999) / 1000, sa));
                        seen = w.trace_len();
                    }
                }
                _ => {}
            }
        }
        if let Some((at, _)) = injected_at {
            if w.now > at + 2 * t_lost {
                break;
            }
        }
    }
    let Some((_, sa)) = injected_at else {
        obs.label("poll-not-reached");
        return Ok(());
    };
    // withdrawal: nothing before the silence time-out has run out (a token addressed to the station
    // by a stranger is a first offer and not to be used either)
    let early: Vec<String> = after.iter().filter(|(dt, _)| *dt < t_lost - w.bit_us(20)).map(|(dt, b)| format!("{} us: {}", dt, crate::props::c09::hex(b))).collect();
    ensure!(early.is_empty(), "second-holder-not-withdrawn", "station #{TS} heard the token telegram of #{sa} while it was waiting for the reply to its {} (a second token holder) but went on transmitting before its silence time-out of {} us had run out: {:?}", if which >= 6 { "application request" } else { "GAP poll" }, t_lost, early);
    // and it must come back afterwards (claim) - the bus must not stay silent
    ensure!(!after.is_empty(), "silent-after-withdrawal", "station #{TS} never transmitted again within two silence time-outs after it withdrew");
    obs.label(if which < 3 { "during-claim-scan" } else if which < 6 { "during-regular-poll" } else { "during-application-request" });
    obs.label(if from_polled { "token-from-polled-address" } else { "token-from-third-address" });
    obs.nontrivial(i);
    obs.sample(|| json!({"polled_reply": format!("token {} -> {}", sa, if to_self { TS } else { 9 }), "poll_index": which, "first_transmission_after_us": after.first().map(|x| x.0)}));
    Ok(())
}

/// Application that always wants to send one SRD request to `target`.
struct Asker {
    target: u8,
}
impl profirust::fdl::FdlApplication for Asker {
    fn transmit_telegram(&mut self, _now: profirust::time::Instant, fdl: &profirust::fdl::FdlActiveStation, tx: profirust::fdl::TelegramTx, _hp: profirust::fdl::HighPrioOnly) -> Option<profirust::fdl::TelegramTxResponse> {
        Some(tx.send_data_telegram(
            profirust::fdl::DataTelegramHeader {
                da: self.target,
                sa: fdl.parameters().address,
                dsap: Some(40),
                ssap: Some(41),
                fc: profirust::fdl::FunctionCode::Request { fcb: profirust::fdl::FrameCountBit::First, req: profirust::fdl::RequestType::SrdLow },
            },
            1,
            |b| b[0] = 0x11,
        ))
    }
    fn receive_reply(&mut self, _now: profirust::time::Instant, _fdl: &profirust::fdl::FdlActiveStation, _addr: u8, _telegram: profirust::fdl::Telegram) {}
    fn handle_timeout(&mut self, _now: profirust::time::Instant, _fdl: &profirust::fdl::FdlActiveStation, _addr: u8) {}
}

pub fn property() -> Property {
    Property {
        id: "C06",
        rule: "cases: rings of 2..5 real stations (as C01/C02) that first form, then suffer a generated fault plan inside a window (per-telegram drop / truncation / bit flip / byte substitution, garbage bursts from a phantom sender that may collide with traffic, corruption windows, station stop at a generated instant - i.e. in whatever FDL state it is in, with the transmission in progress completing or cut - and restart with cleared receive buffer, the un-synchronised cold-start claim race), then a fault-free continuation. Within T_rec after the last disturbance all stations that are still online must agree (after every poll) on one ring over exactly the online population, stopped stations are in nobody's LAS, and the token frames follow the ascending order through a stability window; no panic at any time. Non-trivial = the plan damaged at least one token frame or stopped a station that was holding the token; distinct by configuration + plan.",
        assumptions: vec![
            "T_rec = (6+2 a_max) Tslot + 3 (Tslot+100 bit) + T_conv (DESIGN 5.4)",
            "a station that takes itself Offline under the duplicate-address rule (corrupted token frames carry no checksum and can fake its own address) counts as gone and is not required to be re-admitted (counted in the labels)",
            "collisions are modelled as garbled bytes for all listeners; a transmitting station hears nothing (half duplex)",
        ],
        subchecks: vec![
            SubCheck::tape("recovery", "fault plan after ring formation, then fault-free recovery", recovery_case),
            SubCheck::index("second_holder", "a station waiting for the reply to a GAP poll or an application request hears another station's token telegram (second token holder): it withdraws until its silence time-out (32 constructed scenarios: during the scan after a claim, a regular GAP poll, an application request)", second_holder_case),
            SubCheck::index("claim_race", "two stations whose silence time-outs run out in the same instant (constructed; probe of the known finding claim-race-lockstep)", claim_race_case),
        ],
        plan: |tier| match tier {
            Tier::Quick => vec![Step::Enumerate { kind: "second_holder", count: 32 }, Step::Enumerate { kind: "claim_race", count: 12 }, Step::Pbt { kind: "recovery", cases: 800, max_len: 160 }],
            Tier::Thorough => vec![Step::Enumerate { kind: "second_holder", count: 32 }, Step::Enumerate { kind: "claim_race", count: 12 }, Step::Pbt { kind: "recovery", cases: 8000, max_len: 160 }],
        },
        hang_is_violation: true,
        hang_limit_s: 900,
        probes: vec![KnownProbe { signature: "claim-race-lockstep", kind: "claim_race", data: ReplayData::Index(0) }],
    }
}
