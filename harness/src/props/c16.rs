//! C16 The receive path reassembles the byte stream independent of chunking.
use crate::engine::*;
use crate::props::c09::hex;
use crate::props::c10::gen_valid_frame;
use crate::refcodec::{self as rc, RefFrame, RefVerdict};
use crate::simbus::{Bus, ChunkPhy};
use crate::{ensure, fail};
use profirust::fdl::Telegram;
use profirust::phy::{ProfibusPhy, SimulatorPhy};
use profirust::time::{Duration, Instant};
use serde_json::json;
use std::collections::VecDeque;

fn to_ref(t: &Telegram) -> RefFrame {
    match t {
        Telegram::Token(t) => RefFrame::Token { da: t.da, sa: t.sa },
        Telegram::ShortConfirmation(_) => RefFrame::Sc,
        Telegram::Data(d) => RefFrame::Data {
            da: d.h.da,
            sa: d.h.sa,
            dsap: d.h.dsap,
            ssap: d.h.ssap,
            fc: d.h.fc.to_byte(),
            pdu: d.pdu.to_vec(),
        },
    }
}

fn ref_of(bytes: &[u8]) -> RefFrame {
    match rc::decode(bytes) {
        RefVerdict::Accept(f, n) if n == bytes.len() => f.normalised(),
        o => panic!("generator produced an invalid frame {}: {:?}", hex(bytes), o),
    }
}

#[derive(Clone, Debug)]
struct Seg {
    id: usize,
    garbage: bool,
    bytes: Vec<u8>,
    arrived: usize,
}

/// Reference model of the receive buffer with known segment boundaries.
struct Model {
    buf: VecDeque<Seg>,
}

impl Model {
    fn len(&self) -> usize {
        self.buf.iter().map(|s| s.arrived).sum()
    }
    /// What receive_telegram must do: Some(segment) delivered, or None.
    fn rx_one(&mut self) -> Option<Seg> {
        let head = self.buf.front()?.clone();
        if head.garbage {
            // undecodable: everything buffered is discarded
            self.drop_all();
            None
        } else if head.arrived == head.bytes.len() {
            self.buf.pop_front();
            Some(head)
        } else {
            None
        }
    }
    fn drop_all(&mut self) {
        // segments that are not completely arrived yet keep their not-yet-arrived tail
        let mut rest = VecDeque::new();
        for mut s in self.buf.drain(..) {
            if s.arrived < s.bytes.len() {
                s.bytes.drain(..s.arrived);
                s.arrived = 0;
                // what arrives later of a valid telegram is no longer a valid telegram: the
                // generator never lets this happen (see forced drains), assert it
                assert!(s.garbage, "generator let a valid telegram be cut by a discard");
                rest.push_back(s);
            }
        }
        self.buf = rest;
    }
}

fn gen_garbage(t: &mut Tape) -> Vec<u8> {
    let nd = |b: u8| if [rc::SD1, rc::SD2, rc::SD3, rc::SD4, rc::SC].contains(&b) { b ^ 0x01 } else { b };
    match t.weighted(&[3, 2, 2]) {
        // bytes that start no telegram
        0 => {
            let n = 1 + t.below(6) as usize;
            t.fill(n).into_iter().map(nd).collect()
        }
        // rubble: a byte that starts no telegram, followed by bytes that on their own would be valid
        // telegrams - the whole chunk is undecodable and vanishes as a whole
        1 => {
            let mut out = vec![nd(t.u8())];
            for _ in 0..(1 + t.below(2)) {
                out.extend(gen_valid_frame(t));
            }
            out
        }
        // a damaged telegram (one flipped bit) that the reference decoder rejects as a whole
        _ => {
            let mut f = gen_valid_frame(t);
            // anywhere, or (a third of the variable-length telegrams) in the first length byte
            let bit = if f[0] == rc::SD2 && t.chance(1, 3) { 8 + t.below(8) as usize } else { t.below(8 * f.len() as u64) as usize };
            f[bit / 8] ^= 1 << (bit % 8);
            if t.bool() {
                f.extend(gen_valid_frame(t));
            }
            match rc::decode(&f) {
                RefVerdict::Reject => f,
                _ => vec![nd(f[0]) ^ 0x02, 0xDC, 0x01, 0x02],
            }
        }
    }
}

fn chunks_case(t: &mut Tape, obs: &mut Obs) -> CaseResult {
    let nseg = 1 + t.below(8) as usize;
    let mut segs: Vec<Seg> = vec![];
    for id in 0..nseg {
        let garbage = id > 0 && t.chance(1, 6);
        let bytes = if garbage { gen_garbage(t) } else { gen_valid_frame(t) };
        segs.push(Seg { id, garbage, bytes, arrived: 0 });
    }
    let mut phy = ChunkPhy::default();
    let mut model = Model { buf: VecDeque::new() };
    let now = Instant::ZERO;
    let mut delivered: Vec<usize> = vec![];
    let mut partial_behind = 0u64;
    let mut multi = 0u64;
    let mut mid_arrivals = 0u64;

    // one poll of either helper, compared against the model
    // `arrival`: (k, n) - n further bytes of the segment being delivered arrive right before the k-th
    // receive_data call of this invocation (already scheduled in the PHY)
    let poll = |mode: u64, arrival: Option<(usize, usize)>, phy: &mut ChunkPhy, model: &mut Model, delivered: &mut Vec<usize>, partial_behind: &mut u64, multi: &mut u64| -> CaseResult {
        let before = model.len();
        phy.calls = 0;
        phy.counting = false;
        if std::env::var("PBVERIF_DUMP").is_ok() {
            eprintln!("poll mode {mode} arrival {arrival:?} phy.buf {:02x?} phy.arrival {:?} model {:?}", phy.buf, phy.arrival, model.buf.iter().map(|s| (s.id, s.garbage, s.arrived, s.bytes.len())).collect::<Vec<_>>());
        }
        ensure!(phy.poll_pending_received_bytes(now) == before, "pending", "poll_pending_received_bytes {} but {} bytes are buffered", phy.poll_pending_received_bytes(now), before);
        if mode == 0 {
            let got = phy.receive_telegram(now, |tel| to_ref(&tel));
            let want = model.rx_one();
            match (&got, &want) {
                (None, None) => {}
                (Some(g), Some(w)) => {
                    ensure!(*g == ref_of(&w.bytes), "wrong-telegram", "receive_telegram delivered {:?}, expected segment {} = {}", g, w.id, hex(&w.bytes));
                    delivered.push(w.id);
                }
                _ => fail!("delivery", "receive_telegram delivered {:?} but the reference reassembler expects {:?}", got, want.map(|w| hex(&w.bytes))),
            }
        } else {
            let mut calls: Vec<(RefFrame, bool)> = vec![];
            phy.counting = true;
            let ret = phy.receive_all_telegrams(now, |tel, is_last| {
                calls.push((to_ref(&tel), is_last));
                calls.len()
            });
            phy.counting = false;
            // reference behaviour
            let mut want: Vec<(Seg, bool)> = vec![];
            let mut want_ret = None;
            let mut call = 0;
            loop {
                if let Some((k, n)) = arrival {
                    if k == call {
                        model.buf.back_mut().unwrap().arrived += n;
                    }
                }
                call += 1;
                let Some(head) = model.buf.front().cloned() else { break };
                if head.garbage {
                    model.drop_all();
                    break;
                }
                if head.arrived < head.bytes.len() {
                    break;
                }
                model.buf.pop_front();
                let last = model.len() == 0;
                want.push((head, last));
                if last {
                    want_ret = Some(want.len());
                    break;
                }
            }
            ensure!(calls.len() == want.len(), "delivery", "receive_all_telegrams made {} callbacks, the reference reassembler expects {}", calls.len(), want.len());
            for (i, ((g, gl), (w, wl))) in calls.iter().zip(want.iter()).enumerate() {
                ensure!(*g == ref_of(&w.bytes), "wrong-telegram", "callback {} delivered {:?}, expected segment {} = {}", i, g, w.id, hex(&w.bytes));
                ensure!(gl == wl, "is-last", "callback {} has is_last={} but {} bytes are buffered behind the telegram", i, gl, if *wl { 0 } else { 1 });
                delivered.push(w.id);
            }
            ensure!(ret == want_ret, "return-value", "receive_all_telegrams returned {:?}, expected {:?}", ret, want_ret);
            if !calls.is_empty() && model.len() > 0 {
                *partial_behind += 1;
            }
            if calls.len() > 1 {
                *multi += 1;
            }
            // an arrival scheduled for a call that was not made any more happens now
            if let Some((k, n)) = arrival {
                if k >= call {
                    let Some((_, bytes)) = phy.arrival.take() else { fail!("calls", "receive_all_telegrams made a receive_data call before its first decode attempt or more calls than the reference reassembler ({call})") };
                    phy.buf.extend_from_slice(&bytes);
                    model.buf.back_mut().unwrap().arrived += n;
                }
            }
            ensure!(phy.arrival.is_none(), "calls", "receive_all_telegrams made more receive_data calls than the reference reassembler ({})", call);
        }
        ensure!(phy.poll_pending_received_bytes(now) == model.len(), "pending", "after the poll {} bytes are pending but the reference expects {}", phy.poll_pending_received_bytes(now), model.len());
        Ok(())
    };

    for si in 0..segs.len() {
        let seg = segs[si].clone();
        model.buf.push_back(Seg { arrived: 0, ..seg.clone() });
        let n = seg.bytes.len();
        // cut points
        let mut cuts = vec![n];
        let ncuts = if seg.garbage { 0 } else { t.below(4) as usize };
        for _ in 0..ncuts {
            if n > 1 {
                cuts.push(1 + t.below(n as u64 - 1) as usize);
            }
        }
        cuts.sort();
        cuts.dedup();
        let mut pos = 0;
        for c in cuts {
            let forced = seg.garbage || segs.get(si + 1).map(|s| s.garbage).unwrap_or(false) && c == n;
            if !forced && t.chance(1, 5) {
                // these bytes arrive in the middle of one invocation of receive_all_telegrams
                let k = t.below(3) as usize;
                phy.arrival = Some((k, seg.bytes[pos..c].to_vec()));
                mid_arrivals += 1;
                poll(1, Some((k, c - pos)), &mut phy, &mut model, &mut delivered, &mut partial_behind, &mut multi)?;
                pos = c;
                continue;
            }
            phy.buf.extend_from_slice(&seg.bytes[pos..c]);
            model.buf.back_mut().unwrap().arrived = c;
            pos = c;
            if forced {
                // drain completely so that a discard can never cut a later valid telegram
                let mut guard = 0;
                while model.len() > 0 {
                    poll(1, None, &mut phy, &mut model, &mut delivered, &mut partial_behind, &mut multi)?;
                    guard += 1;
                    ensure!(guard < 20, "drain", "buffer does not drain");
                }
            } else if t.chance(2, 3) {
                let mode = t.below(2);
                poll(mode, None, &mut phy, &mut model, &mut delivered, &mut partial_behind, &mut multi)?;
            }
        }
    }
    // final polls until nothing is left
    for _ in 0..(2 * nseg + 2) {
        let mode = t.below(2);
        poll(mode, None, &mut phy, &mut model, &mut delivered, &mut partial_behind, &mut multi)?;
    }
    let want: Vec<usize> = segs.iter().filter(|s| !s.garbage).map(|s| s.id).collect();
    ensure!(delivered == want, "sequence", "delivered segments {:?}, expected {:?}", delivered, want);
    if segs.iter().any(|s| s.garbage) {
        obs.label("with-garbage");
    }
    if partial_behind > 0 {
        obs.label("partial-behind-delivered");
    }
    if multi > 0 {
        obs.label("several-in-one-poll");
    }
    if mid_arrivals > 0 {
        obs.label("bytes-arrive-during-an-invocation");
    }
    obs.count("polls_with_partial_behind", partial_behind);
    if segs.len() >= 2 {
        obs.nontrivial(fingerprint(&segs.iter().map(|s| s.bytes.clone()).collect::<Vec<_>>()));
    }
    obs.sample(|| json!({"segments": segs.iter().map(|s| json!({"garbage": s.garbage, "bytes": hex(&s.bytes)})).collect::<Vec<_>>()}));
    Ok(())
}

fn timed_case(t: &mut Tape, obs: &mut Obs) -> CaseResult {
    let bauds = [profirust::Baudrate::B19200, profirust::Baudrate::B500000, profirust::Baudrate::B1500000, profirust::Baudrate::B12000000];
    let baud = *t.pick(&bauds);
    let nseg = 1 + t.below(6) as usize;
    let tels: Vec<Vec<u8>> = (0..nseg).map(|_| gen_valid_frame(t)).collect();
    let expect: Vec<RefFrame> = tels.iter().map(|b| ref_of(b)).collect();
    let use_all = t.bool();
    let mut jit = t.stream();
    let byte_us = |n: usize| baud.bits_to_time(11 * n as u32).total_micros().max(1) as u64;

    // ---- harness SimPhy: back-to-back or separated transmissions from a virtual node
    {
        let bus = Bus::new(baud.to_rate(), 2);
        let mut phy = bus.phy(0);
        let mut tnow = 0i64;
        let mut sched: Vec<(i64, usize)> = vec![];
        for (i, tel) in tels.iter().enumerate() {
            sched.push((tnow, i));
            let dur = byte_us(tel.len()) as i64 + 1;
            tnow += dur + if jit.below(2) == 0 { 0 } else { jit.below(600) as i64 };
        }
        let t_end = tnow + byte_us(300) as i64;
        let mut got: Vec<RefFrame> = vec![];
        let mut now = 0i64;
        let mut next_tx = 0usize;
        let step = byte_us(1 + jit.below(40) as usize);
        while now < t_end {
            now += 1 + jit.below(step) as i64;
            while next_tx < sched.len() && sched[next_tx].0 <= now {
                bus.inject(1, sched[next_tx].0, &tels[sched[next_tx].1]);
                next_tx += 1;
            }
            let inst = Instant::from_micros(now);
            let before = phy.poll_pending_received_bytes(inst);
            if use_all {
                let mut flags = vec![];
                let mut local = vec![];
                let r = phy.receive_all_telegrams(inst, |tel, is_last| {
                    local.push(to_ref(&tel));
                    flags.push(is_last);
                    local.len()
                });
                let after = phy.poll_pending_received_bytes(inst);
                for (i, f) in flags.iter().enumerate() {
                    ensure!(!*f || i + 1 == flags.len(), "is-last", "is_last set on a telegram that was not the final callback");
                }
                if let Some(f) = flags.last() {
                    ensure!(*f == (after == 0), "is-last", "is_last={} but {} bytes are buffered behind the telegram", f, after);
                    ensure!(if *f { r == Some(local.len()) } else { r.is_none() }, "return-value", "return value {:?} with is_last={}", r, f);
                } else {
                    ensure!(after == before, "dropped-bytes", "{} bytes pending before, {} after a poll that delivered nothing (stream is valid)", before, after);
                    ensure!(r.is_none(), "return-value", "return value without a callback");
                }
                got.extend(local);
            } else {
                let r = phy.receive_telegram(inst, |tel| to_ref(&tel));
                let after = phy.poll_pending_received_bytes(inst);
                match r {
                    Some(x) => got.push(x),
                    None => ensure!(after == before, "dropped-bytes", "{} bytes pending before, {} after a poll that delivered nothing", before, after),
                }
            }
        }
        ensure!(got == expect, "sequence", "SimPhy: received {} telegrams {:?}, expected {} {:?}", got.len(), got, expect.len(), expect);
    }
    // ---- the crate's SimulatorPhy
    {
        let mut ctl = SimulatorPhy::new(baud, "tx");
        let mut rx = ctl.duplicate("rx");
        let mut noop_tx = 0u64;
        let mut noise = 0u64;
        let mut got: Vec<RefFrame> = vec![];
        let mut now = Instant::ZERO;
        // a receiver that is later still: it picks a telegram up only when the first character of
        // the next one is already on its way (nothing of that one has arrived yet)
        let mut late_pending = false;
        let mut late_polls = 0u64;
        for (ti, tel) in tels.iter().enumerate() {
            if !late_pending && jit.below(5) == 0 {
                // line noise while the receiver is not polling: one or two bursts of bytes that start no
                // telegram (together possibly more than one telegram can be long); a single poll afterwards
                // discards all of it, and the telegram that follows separately is received
                let bursts = 1 + jit.below(2);
                for _ in 0..bursts {
                    let n = 1 + jit.below(250) as usize;
                    now += Duration::from_micros(baud.bits_to_time(40).total_micros() + 1);
                    ctl.set_bus_time(now);
                    ctl.transmit_data(now, |b| {
                        b[..n].fill(0x55);
                        (n, ())
                    });
                    now += Duration::from_micros(byte_us(n) + 2);
                    ctl.set_bus_time(now);
                }
                if use_all {
                    rx.receive_all_telegrams(now, |tel, _| got.push(to_ref(&tel)));
                } else if let Some(x) = rx.receive_telegram(now, |tel| to_ref(&tel)) {
                    got.push(x);
                }
                ensure!(rx.poll_pending_received_bytes(now) == 0, "noise-not-discarded", "SimulatorPhy: {} bytes still pending after the poll that met the line noise", rx.poll_pending_received_bytes(now));
                noise += 1;
            }
            // leave 40 bit times of pause, as the simulator demands for any kind of telegram
            now += Duration::from_micros(baud.bits_to_time(40).total_micros() + 1 + jit.below(200));
            ctl.set_bus_time(now);
            ctl.transmit_data(now, |b| {
                b[..tel.len()].copy_from_slice(tel);
                (tel.len(), ())
            });
            let end = now + Duration::from_micros(byte_us(tel.len()) + 2);
            if late_pending {
                late_pending = false;
                late_polls += 1;
                now += Duration::from_micros(1 + jit.below(baud.bits_to_time(10).total_micros().max(1)));
                ctl.set_bus_time(now);
                if use_all {
                    rx.receive_all_telegrams(now, |tel, _| got.push(to_ref(&tel)));
                } else if let Some(x) = rx.receive_telegram(now, |tel| to_ref(&tel)) {
                    got.push(x);
                }
            }
            let step = byte_us(1 + jit.below(30) as usize);
            // a slow receiver: it does not poll while the telegram arrives; afterwards - the bus is idle -
            // it first makes a transmit call that sends nothing (what the FDL does when it has nothing
            // to say), which must not touch what is waiting to be received
            let lazy = jit.below(4) == 0;
            while now < end {
                now += Duration::from_micros(1 + jit.below(step));
                ctl.set_bus_time(now);
                if lazy {
                    continue;
                }
                if use_all {
                    let mut flags = vec![];
                    let r = rx.receive_all_telegrams(now, |tel, is_last| {
                        got.push(to_ref(&tel));
                        flags.push(is_last);
                    });
                    let after = rx.poll_pending_received_bytes(now);
                    if let Some(f) = flags.last() {
                        ensure!(*f == (after == 0), "is-last", "SimulatorPhy: is_last={} but {} bytes buffered behind", f, after);
                        ensure!(r.is_some() == *f, "return-value", "SimulatorPhy: return value {:?} with is_last={}", r.is_some(), f);
                    }
                } else if let Some(x) = rx.receive_telegram(now, |tel| to_ref(&tel)) {
                    got.push(x);
                }
            }
            if lazy && ti + 1 < tels.len() && jit.below(2) == 0 {
                late_pending = true;
            } else if lazy {
                rx.transmit_data(now, |_| (0, ()));
                noop_tx += 1;
                if use_all {
                    rx.receive_all_telegrams(now, |tel, _| got.push(to_ref(&tel)));
                } else if let Some(x) = rx.receive_telegram(now, |tel| to_ref(&tel)) {
                    got.push(x);
                }
            }
        }
        ensure!(got == expect, "sequence", "SimulatorPhy: received {:?}, expected {:?}", got, expect);
        if noop_tx > 0 {
            obs.label("receiver-made-empty-transmit-calls");
        }
        if noise > 0 {
            obs.label("line-noise-before-a-telegram");
        }
        if late_polls > 0 {
            obs.label("telegram-picked-up-while-the-next-one-starts");
        }
    }
    obs.label(if use_all { "receive_all_telegrams" } else { "receive_telegram" });
    if tels.len() >= 2 {
        obs.nontrivial(fingerprint(&tels));
    }
    obs.sample(|| json!({"baud": format!("{:?}", baud), "telegrams": tels.iter().map(|b| hex(b)).collect::<Vec<_>>()}));
    Ok(())
}

pub fn property() -> Property {
    Property {
        id: "C16",
        rule: "cases: sequences of 1..8 valid telegrams (token, SC, SD1/SD2/SD3 of all lengths, optional undecodable garbage segments) delivered to a PHY in generated chunks with polls (receive_telegram / receive_all_telegrams / poll_pending_received_bytes) in between; compared with a reference reassembler that knows the segment boundaries. Run over an explicit-chunk PHY, the harness SimPhy (chunks arise from bus time) and the crate's SimulatorPhy. Non-trivial = at least two segments; distinct by the byte content of all segments.",
        assumptions: vec![
            "garbage segments (bytes that start no telegram; such a byte followed by valid telegrams; a telegram with a flipped bit that the reference decoder rejects) arrive in one piece and are followed by polls before the next telegram's first byte ('arrives separately'); everything buffered at the decode error is expected to vanish (anchor: everything on error)",
            "the generic helper methods of the ProfibusPhy trait are exercised; hardware PHYs are not",
        ],
        subchecks: vec![
            SubCheck::tape("chunks", "explicit chunking with a reference reassembler (callbacks, is_last, return value, pending bytes)", chunks_case),
            SubCheck::tape("timed", "time-driven chunking over SimPhy and over the crate's SimulatorPhy (receivers that poll all the time, only after the telegram, or only when the first character of the next telegram is already on its way; line noise)", timed_case),
        ],
        plan: |tier| match tier {
            Tier::Quick => vec![
                Step::Pbt { kind: "chunks", cases: 200_000, max_len: 160 },
                Step::Pbt { kind: "timed", cases: 30_000, max_len: 80 },
            ],
            Tier::Thorough => vec![
                Step::Pbt { kind: "chunks", cases: 2_000_000, max_len: 160 },
                Step::Pbt { kind: "timed", cases: 200_000, max_len: 80 },
            ],
        },
        hang_is_violation: true,
        hang_limit_s: 0,
        probes: vec![],
    }
}
