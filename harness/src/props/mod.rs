//! One module per property.
use crate::engine::Property;

pub mod c01;
pub mod c02;
pub mod c05;
pub mod c06;
pub mod c09;
pub mod c10;
pub mod c11;
pub mod c12;
pub mod c16;
pub mod c17;
pub mod c18;
pub mod c19;
pub mod c20;
pub mod dp;
pub mod traffic;

pub fn all() -> Vec<Property> {
    vec![c01::property(), c02::property(), dp::c03(), dp::c04(), c05::property(), c06::property(), dp::c07(), dp::c08(), c09::property(), c10::property(), c11::property(), c12::property(), traffic::c13(), dp::c14(), traffic::c15(), c16::property(), c17::property(), c18::property(), c19::property(), c20::property()]
}
