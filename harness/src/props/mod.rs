//! One module per property.
use crate::engine::Property;

pub mod c01;
pub mod c02;
pub mod c06;
pub mod c09;
pub mod c10;
pub mod c16;
pub mod c17;
pub mod c19;
pub mod c20;

pub fn all() -> Vec<Property> {
    vec![c01::property(), c02::property(), c06::property(), c09::property(), c10::property(), c16::property(), c17::property(), c19::property(), c20::property()]
}
