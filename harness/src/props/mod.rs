//! One module per property.
use crate::engine::Property;

pub mod c09;
pub mod c10;
pub mod c16;
pub mod c17;

pub fn all() -> Vec<Property> {
    vec![c09::property(), c10::property(), c16::property(), c17::property()]
}
