//! C05 poll() is total: no panic, no hang, whatever arrives on the bus.
//!
//! One real station with applications against an environment that is cooperative most of the time
//! (answers GAP polls and DP requests plausibly, returns the token) and adversarial at generated
//! instants.  The oracle is the engine itself: any panic (including debug assertions, overflow
//! checks, unreachable!, slice indexing, unwrap) fails the case, and so does a case that does not
//! finish (watchdog).  The same `program_case` is driven by proptest, by the bounded exhaustive
//! enumerator and by the libFuzzer target fz_station.
use crate::engine::*;
use crate::refcodec::{self as rc, RefFrame};
use crate::simbus::Bus;
use profirust::dp;
use profirust::fdl::live_list::LiveList;
use profirust::fdl::{FdlActiveStation, FdlApplication, ParametersBuilder};
use profirust::phy::ProfibusPhy;
use profirust::time::Instant;
use profirust::Baudrate;
use serde_json::json;
use std::collections::BTreeSet;

#[derive(Clone, Copy, Debug, PartialEq, Eq, Hash)]
pub enum AppMode {
    None,
    Dp,
    LiveList,
    Scanner,
    DpAndScanner,
    LiveListAndDp,
}

#[derive(Clone, Debug)]
pub struct Setup {
    pub baud: Baudrate,
    pub hsa: u8,
    pub ts: u8,
    pub gap: u8,
    pub max_retry: u8,
    pub app: AppMode,
    /// per peripheral: (address, in_len, out_len, diag buffer size, complete options)
    pub pers: Vec<(u8, usize, usize, Option<usize>, bool)>,
    pub coop_seed: u64,
    /// probability (in 1/16) that the cooperative environment reacts at all
    pub coop: u64,
}

#[derive(Clone, Debug, PartialEq, Eq, Hash)]
pub enum Adv {
    TokenFromPartner,
    TokenFromStranger,
    TokenOwnSource,
    TokenBetweenOthers,
    TokenInvalidAddr,
    StatusRequest(u8),
    StatusReply(u8),
    ShortConfirmation,
    DataReply(u8, usize),
    DiagReply(Vec<u8>),
    RequestToUs,
    Garbage(Vec<u8>),
    MutateOwn(u8, u8),
    EchoOwn,
    // API calls the documentation allows
    OfflineOnline,
    /// go offline, continue with a different application list (allowed while offline), go online
    OfflineSwitchApps(u8),
    RequestDiagnostics,
    WriteOutputs(u8),
    Silence(u32),
}

pub const ALPHABET_LEN: u64 = 14;

/// The 14 adversarial telegram symbols used by the exhaustive front end.
pub fn adv_symbol(i: u64) -> Adv {
    match i {
        0 => Adv::TokenFromPartner,
        1 => Adv::TokenFromStranger,
        2 => Adv::TokenOwnSource,
        3 => Adv::TokenBetweenOthers,
        4 => Adv::TokenInvalidAddr,
        5 => Adv::StatusRequest(0),
        6 => Adv::StatusReply(2),
        7 => Adv::ShortConfirmation,
        8 => Adv::DataReply(0x08, 2),
        9 => Adv::DiagReply(vec![0x00, 0x40, 0x81]),
        10 => Adv::RequestToUs,
        11 => Adv::Garbage(vec![0x68, 0x03, 0x03]),
        12 => Adv::MutateOwn(1, 3),
        _ => Adv::EchoOwn,
    }
}

pub fn gen_adv(t: &mut Tape) -> Adv {
    match t.weighted(&[3, 3, 2, 2, 1, 3, 3, 3, 4, 4, 2, 3, 3, 2, 1, 1, 1, 2, 1]) {
        0 => Adv::TokenFromPartner,
        1 => Adv::TokenFromStranger,
        2 => Adv::TokenOwnSource,
        3 => Adv::TokenBetweenOthers,
        4 => Adv::TokenInvalidAddr,
        5 => Adv::StatusRequest(t.below(3) as u8),
        6 => Adv::StatusReply(t.below(4) as u8),
        7 => Adv::ShortConfirmation,
        8 => Adv::DataReply(*t.pick(&[0x08u8, 0x00, 0x0A, 0x03, 0x01, 0x02, 0x09, 0x0C, 0x0D, 0x38]), t.below(7) as usize),
        9 => {
            let n = t.below(10) as usize;
            let mut v = vec![];
            for _ in 0..n {
                v.push(match t.below(5) {
                    0 => 0x00,
                    1 => 0x40,
                    2 => 0x80 | t.below(64) as u8,
                    3 => 0xC0,
                    _ => t.u8(),
                });
            }
            Adv::DiagReply(v)
        }
        10 => Adv::RequestToUs,
        11 => {
            let n = 1 + t.below(8) as usize;
            let mut g = t.fill(n);
            if t.bool() {
                g[0] = *t.pick(&[0x10u8, 0x68, 0xA2, 0xDC, 0xE5]);
            }
            Adv::Garbage(g)
        }
        12 => Adv::MutateOwn(t.u8(), t.below(8) as u8),
        13 => Adv::EchoOwn,
        14 => Adv::OfflineOnline,
        15 => Adv::RequestDiagnostics,
        16 => Adv::WriteOutputs(t.u8()),
        17 => Adv::Silence(*t.pick(&[1u32, 2, 8, 40])),
        _ => Adv::OfflineSwitchApps(t.below(6) as u8),
    }
}

pub fn gen_setup(t: &mut Tape) -> Setup {
    let baud = *t.pick(&[Baudrate::B500000, Baudrate::B9600, Baudrate::B1500000, Baudrate::B12000000, Baudrate::B93750]);
    let hsa = if t.chance(1, 10) { 126 } else { 2 + t.below(12) as u8 };
    let ts = t.below(u64::from(hsa)) as u8;
    let app = *t.pick(&[AppMode::Dp, AppMode::None, AppMode::LiveList, AppMode::Scanner, AppMode::DpAndScanner, AppMode::LiveListAndDp]);
    let nper = if matches!(app, AppMode::Dp | AppMode::DpAndScanner | AppMode::LiveListAndDp) { t.below(4) as usize } else { 0 };
    let mut pers = vec![];
    for i in 0..nper {
        let mut a = 20 + 5 * i as u8 + t.below(3) as u8;
        if a == ts {
            a += 1;
        }
        pers.push((a, t.below(5) as usize, t.below(5) as usize, if t.bool() { Some(1 + t.below(20) as usize) } else { None }, !t.chance(1, 8)));
    }
    Setup {
        baud,
        hsa,
        ts,
        gap: 1 + t.below(3) as u8,
        max_retry: 1 + t.below(3) as u8,
        app,
        pers,
        coop_seed: u64::from(t.raw()) | 1,
        coop: *t.pick(&[13u64, 16, 10, 4, 0]),
    }
}

pub struct Outcome {
    pub states: BTreeSet<String>,
    pub delivered_while_holding: u64,
    pub polls: u64,
    pub own_tx: u64,
}

fn state_name(f: &FdlActiveStation) -> String {
    let dbg = format!("{:?}", f);
    match dbg.find(", state: ") {
        Some(p) => dbg[p + 9..].chars().take_while(|c| c.is_alphanumeric()).collect(),
        None => "?".into(),
    }
}

fn holding(s: &str) -> bool {
    matches!(s, "UseToken" | "PassToken" | "ClaimToken" | "AwaitDataResponse" | "AwaitStatusResponse" | "CheckTokenPass")
}

/// `schedule`: adversarial actions with the number of polls to wait before each.  `until_state`:
/// if given, the first action is held back until the station is in that FDL state.
pub fn run_program(s: &Setup, schedule: &[(u32, Adv)], until_state: Option<&str>, tail_polls: u32) -> Outcome {
    let slot_bits = crate::ringsim::min_slot_bits(s.baud);
    let bus = Bus::new(s.baud.to_rate(), 2);
    let mut f = FdlActiveStation::new(
        ParametersBuilder::new(s.ts, s.baud).highest_station_address(s.hsa).slot_bits(slot_bits).gap_wait_rotations(s.gap).max_retry_limit(s.max_retry).build(),
    );
    f.set_online();
    let mut phy = bus.phy(0);
    // applications
    let mut master = dp::DpMaster::new(vec![]);
    let mut handles = vec![];
    for (a, inl, outl, dbuf, complete) in &s.pers {
        let opts = dp::PeripheralOptions {
            ident_number: 0x1234,
            user_parameters: if *complete { Some(&[1u8, 2, 3][..]) } else { None },
            config: Some(&[0x11u8, 0x22][..]),
            ..Default::default()
        };
        let p = dp::Peripheral::new(*a, opts, vec![0u8; *inl], vec![0u8; *outl]);
        handles.push(master.add(match dbuf {
            Some(n) => p.with_diag_buffer(vec![0u8; *n]),
            None => p,
        }));
    }
    master.enter_operate();
    let mut ll = LiveList::new();
    let mut sc = dp::scan::DpScanner::new();
    let bits_us = |b: u64| ((b * 1_000_000 + s.baud.to_rate() - 1) / s.baud.to_rate()) as i64;
    let slot_us = bits_us(u64::from(slot_bits));
    let poll_us = (slot_us / 6).max(1);
    let partner = (s.ts + 1) % s.hsa;
    let stranger = (s.ts + s.hsa - 1) % s.hsa;
    let mut coop = SplitMix(s.coop_seed);
    let mut now = 0i64;
    let mut handled = 0usize;
    let mut last_own: Option<Vec<u8>> = None;
    let mut pending: Vec<(i64, Vec<u8>)> = vec![];
    let mut out = Outcome { states: BTreeSet::new(), delivered_while_holding: 0, polls: 0, own_tx: 0 };
    let mut si = 0usize;
    let mut wait = schedule.first().map(|x| x.0).unwrap_or(0);
    let mut held_back = until_state.is_some();
    let mut tail = tail_polls;
    let mut mode = s.app;
    let max_polls = 40_000u64;
    loop {
        if out.polls >= max_polls {
            break;
        }
        // next adversarial action?
        let st = state_name(&f);
        out.states.insert(st.clone());
        if si < schedule.len() {
            if held_back {
                if Some(st.as_str()) == until_state || out.polls > 6000 {
                    held_back = false;
                    wait = 0;
                }
            }
            if !held_back && wait == 0 {
                let adv = schedule[si].1.clone();
                si += 1;
                wait = schedule.get(si).map(|x| x.0).unwrap_or(0);
                let bytes: Option<Vec<u8>> = match adv {
                    Adv::TokenFromPartner => Some(vec![rc::SD4, s.ts, partner]),
                    Adv::TokenFromStranger => Some(vec![rc::SD4, s.ts, stranger]),
                    Adv::TokenOwnSource => Some(vec![rc::SD4, partner, s.ts]),
                    Adv::TokenBetweenOthers => Some(vec![rc::SD4, stranger, partner]),
                    Adv::TokenInvalidAddr => Some(vec![rc::SD4, s.ts, 200]),
                    Adv::StatusRequest(w) => Some(rc::encode(&RefFrame::status_request(s.ts, [partner, stranger, 99][w as usize % 3]))),
                    Adv::StatusReply(stt) => Some(rc::encode(&RefFrame::status_reply(s.ts, partner, stt & 3))),
                    Adv::ShortConfirmation => Some(vec![rc::SC]),
                    Adv::DataReply(fc, len) => {
                        let sa = s.pers.first().map(|p| p.0).unwrap_or(partner);
                        Some(rc::encode(&RefFrame::Data { da: s.ts, sa, dsap: None, ssap: None, fc: fc & 0x3F, pdu: vec![0x77; len] }))
                    }
                    Adv::DiagReply(ext) => {
                        let sa = s.pers.first().map(|p| p.0).unwrap_or(partner);
                        let mut pdu = vec![0x08, 0x04, 0x00, s.ts, 0x12, 0x34];
                        pdu.extend_from_slice(&ext);
                        Some(rc::encode(&RefFrame::Data { da: s.ts, sa, dsap: Some(62), ssap: Some(60), fc: 0x08, pdu }))
                    }
                    Adv::RequestToUs => {
                        // a request addressed to the station: from a peripheral's address (as a second
                        // master misconfigured with that address would send) or from the partner
                        let from_peripheral = s.pers.first().map(|p| p.0);
                        Some(match (from_peripheral, out.polls % 3) {
                            (Some(sa), 0) => rc::encode(&RefFrame::status_request(s.ts, sa)),
                            (Some(sa), 1) => rc::encode(&RefFrame::Data { da: s.ts, sa, dsap: None, ssap: None, fc: 0x7D, pdu: vec![1, 2] }),
                            _ => rc::encode(&RefFrame::Data { da: s.ts, sa: partner, dsap: Some(61), ssap: Some(62), fc: 0x6C, pdu: vec![0x80, 1, 1, 11, 0x12, 0x34, 0] }),
                        })
                    }
                    Adv::Garbage(g) => Some(g),
                    Adv::MutateOwn(pos, bit) => last_own.clone().map(|mut v| {
                        let i = pos as usize % v.len();
                        v[i] ^= 1 << (bit % 8);
                        v
                    }),
                    Adv::EchoOwn => last_own.clone(),
                    Adv::OfflineOnline => {
                        f.set_offline();
                        f.set_online();
                        None
                    }
                    Adv::OfflineSwitchApps(k) => {
                        f.set_offline();
                        mode = [AppMode::None, AppMode::Dp, AppMode::LiveList, AppMode::Scanner, AppMode::DpAndScanner, AppMode::LiveListAndDp][k as usize % 6];
                        f.set_online();
                        None
                    }
                    Adv::RequestDiagnostics => {
                        if let Some(h) = handles.first() {
                            master.get_mut(*h).request_diagnostics();
                        }
                        None
                    }
                    Adv::WriteOutputs(v) => {
                        for h in &handles {
                            master.get_mut(*h).pi_q_mut().fill(v);
                        }
                        None
                    }
                    Adv::Silence(slots) => {
                        now += slot_us * i64::from(slots);
                        None
                    }
                };
                if let Some(b) = bytes {
                    if !b.is_empty() {
                        if holding(&st) {
                            out.delivered_while_holding += 1;
                        }
                        bus.inject(1, now, &b);
                    }
                }
            } else if !held_back {
                wait -= 1;
            }
        } else {
            if tail == 0 {
                break;
            }
            tail -= 1;
        }
        // time passes, scheduled cooperative reactions go out
        now += 1 + coop.below(poll_us as u64) as i64;
        let mut due = vec![];
        pending.retain(|(t, d)| {
            if *t <= now {
                due.push((*t, d.clone()));
                false
            } else {
                true
            }
        });
        for (t, d) in due {
            bus.inject(1, t.max(now - poll_us), &d);
        }
        let inst = Instant::from_micros(now);
        match mode {
            AppMode::None => f.poll(inst, &mut phy, &mut ()),
            AppMode::Dp => f.poll(inst, &mut phy, &mut master),
            AppMode::LiveList => f.poll(inst, &mut phy, &mut ll),
            AppMode::Scanner => f.poll(inst, &mut phy, &mut sc),
            AppMode::DpAndScanner => {
                let mut apps: [&mut dyn FdlApplication; 2] = [&mut master, &mut sc];
                f.poll_multi(inst, &mut phy, &mut apps)
            }
            AppMode::LiveListAndDp => {
                let mut apps: [&mut dyn FdlApplication; 2] = [&mut ll, &mut master];
                f.poll_multi(inst, &mut phy, &mut apps)
            }
        }
        out.polls += 1;
        // the user looks at events and diagnostics after every poll (Debug formatting included)
        let ev = master.take_last_events();
        if let Some((h, _)) = ev.peripheral {
            let p = master.get_mut(h);
            if let Some(d) = p.last_diagnostics() {
                let n = d.extended_diagnostics.iter_diag_blocks().count();
                std::hint::black_box(n);
                std::hint::black_box(format!("{:?}", d).len());
            }
        }
        std::hint::black_box(ll.take_last_event());
        std::hint::black_box(sc.take_last_event());
        std::hint::black_box(phy.poll_pending_received_bytes(inst));
        // cooperative reactions to what the station transmitted
        let recs: Vec<_> = {
            let b = bus.0.borrow();
            let r = b.trace[handled..].to_vec();
            handled = b.trace.len();
            r
        };
        for t in recs {
            if t.sender != 0 {
                continue;
            }
            out.own_tx += 1;
            last_own = Some(t.bytes.clone());
            let end = (t.end_ns + 999) / 1000 + bits_us(12);
            if coop.below(16) >= s.coop {
                continue;
            }
            match rc::decode_one(&t.bytes) {
                Some(RefFrame::Token { da, .. }) if da == partner && da != s.ts => {
                    // the partner uses the token briefly and returns it
                    pending.push((end + bits_us(40) + coop.below(300) as i64, vec![rc::SD4, s.ts, partner]));
                }
                Some(RefFrame::Data { da, fc, dsap, .. }) if rc::fc_is_request(fc) && rc::request_expects_reply(fc) => {
                    let r: Option<Vec<u8>> = if fc & 0x0F == 9 && dsap.is_none() {
                        // FDL status: the partner is a ready master, some addresses are slaves
                        if da == partner {
                            Some(rc::encode(&RefFrame::status_reply(s.ts, da, if coop.below(2) == 0 { 2 } else { 3 })))
                        } else if da % 7 == 3 {
                            Some(rc::encode(&RefFrame::status_reply(s.ts, da, 0)))
                        } else {
                            None
                        }
                    } else {
                        match dsap {
                            Some(60) => {
                                let b0 = if coop.below(4) == 0 { 0x02 } else { 0 } | if coop.below(6) == 0 { 0x08 } else { 0 };
                                let b1 = 0x04 | if coop.below(8) == 0 { 1 } else { 0 };
                                let mut pdu = vec![b0, b1, 0, s.ts, 0x12, 0x34];
                                if b0 & 8 != 0 {
                                    for _ in 0..coop.below(6) {
                                        pdu.push(coop.next() as u8);
                                    }
                                }
                                Some(rc::encode(&RefFrame::Data { da: s.ts, sa: da, dsap: Some(62), ssap: Some(60), fc: 0x08, pdu }))
                            }
                            Some(61) | Some(62) => Some(if coop.below(8) == 0 { rc::encode(&RefFrame::Data { da: s.ts, sa: da, dsap: None, ssap: None, fc: 0x03, pdu: vec![] }) } else { vec![rc::SC] }),
                            None => {
                                let want = s.pers.iter().find(|p| p.0 == da).map(|p| p.1).unwrap_or(0);
                                let len = if coop.below(8) == 0 { coop.below(5) as usize } else { want };
                                Some(if want == 0 && coop.below(2) == 0 { vec![rc::SC] } else { rc::encode(&RefFrame::Data { da: s.ts, sa: da, dsap: None, ssap: None, fc: [0x08u8, 0x08, 0x08, 0x0A, 0x03, 0x00][coop.below(6) as usize], pdu: vec![7u8; len] }) })
                            }
                            _ => None,
                        }
                    };
                    if let Some(r) = r {
                        pending.push((end, r));
                    }
                }
                _ => {}
            }
        }
    }
    out
}

fn judge(out: &Outcome, obs: &mut Obs, key: u64) {
    obs.count("polls", out.polls);
    obs.count("station_transmissions", out.own_tx);
    obs.label(&format!("fdl-states-visited={}", out.states.len().min(9)));
    if out.delivered_while_holding > 0 {
        obs.label("telegram-delivered-while-holding-token");
    }
    if out.states.len() >= 5 && out.delivered_while_holding >= 1 {
        obs.nontrivial(key);
    }
}

pub fn program_case(t: &mut Tape, obs: &mut Obs) -> CaseResult {
    program_case_scaled(t, obs, false)
}

/// `small`: shorter waits and tail (for the coverage-guided front end, where executions are slower).
pub fn program_case_scaled(t: &mut Tape, obs: &mut Obs, small: bool) -> CaseResult {
    let s = gen_setup(t);
    let n = t.below(if small { 24 } else { 40 }) as usize;
    let mut schedule = vec![];
    for _ in 0..n {
        let wait = match t.below(4) {
            0 => 0,
            1 => t.below(8) as u32,
            2 => t.below(if small { 30 } else { 80 }) as u32,
            _ => t.below(if small { 90 } else { 600 }) as u32,
        };
        schedule.push((wait, gen_adv(t)));
    }
    let tail = if small { 100 + t.below(200) as u32 } else { 200 + t.below(1500) as u32 };
    obs.label(&format!("app-{:?}", s.app));
    if s.pers.is_empty() && matches!(s.app, AppMode::Dp | AppMode::DpAndScanner | AppMode::LiveListAndDp) {
        obs.label("dp-master-without-peripherals");
    }
    obs.sample(|| json!({"setup": format!("{:?}", s), "adversarial_schedule": schedule.iter().map(|(w, a)| format!("after {w} polls: {:?}", a)).collect::<Vec<_>>(), "tail_polls": tail}));
    let out = run_program(&s, &schedule, None, tail);
    judge(&out, obs, fingerprint(&(format!("{:?}", s), format!("{:?}", schedule))));
    Ok(())
}

pub const TARGET_STATES: [&str; 8] = ["ListenToken", "ClaimToken", "UseToken", "AwaitDataResponse", "PassToken", "CheckTokenPass", "ActiveIdle", "AwaitStatusResponse"];

/// Bounded exhaustive: every sequence of `depth` adversarial telegrams (14 symbols), injected
/// back to back from the moment the station is in a given FDL state, for three application setups.
pub fn exhaustive_case(i: u64, depth: u32, obs: &mut Obs) -> CaseResult {
    let state = TARGET_STATES[(i % 8) as usize];
    let setup_sel = (i / 8) % 3;
    let mut code = i / 24;
    let mut schedule = vec![];
    for k in 0..depth {
        schedule.push((if k == 0 { 0 } else { (code % 3) as u32 * 4 }, adv_symbol(code % ALPHABET_LEN)));
        code /= ALPHABET_LEN;
    }
    let s = Setup {
        baud: Baudrate::B500000,
        hsa: 6,
        ts: 2,
        gap: 1,
        max_retry: 1,
        app: [AppMode::Dp, AppMode::None, AppMode::LiveListAndDp][setup_sel as usize],
        pers: if setup_sel == 1 { vec![] } else { vec![(20, 2, 1, Some(8), true), (25, 0, 0, None, true)] },
        coop_seed: 0x1234_5678 + i % 5,
        coop: 14,
    };
    let out = run_program(&s, &schedule, Some(state), 300);
    if out.states.contains(state) {
        obs.label(&format!("reached-{state}"));
        obs.nontrivial(i);
    } else {
        obs.label(&format!("not-reached-{state}"));
    }
    if i % 5003 == 0 {
        obs.sample(|| json!({"inject_when_state": state, "app": format!("{:?}", s.app), "telegrams": schedule.iter().map(|(_, a)| format!("{:?}", a)).collect::<Vec<_>>()}));
    }
    obs.count("polls", out.polls);
    Ok(())
}

pub fn property() -> Property {
    Property {
        id: "C05",
        rule: "cases: one real FdlActiveStation (baud, HSA incl. 126, address, gap factor, max_retry generated) with (), LiveList, DpScanner, DpMaster with 0..3 peripherals (with / without diagnostics buffer, complete / incomplete options) or two of them through poll_multi, against an environment that reacts plausibly most of the time (partner master answers GAP polls and returns the token; DP requests are answered by a sloppy slave) and performs up to 40 adversarial actions at generated instants: tokens from/to own, partner, stranger and invalid addresses, status requests/replies, SC, data replies with every status and length, diagnostics replies with crafted extended blocks, requests addressed to the station, garbage (also starting with delimiters), bit-flipped or echoed copies of the station's own last transmission, set_offline/set_online, request_diagnostics, output writes, silence; events, diagnostics (Debug + block iteration) are consumed after every poll. Plus ALL sequences of 2 (quick) / 3 (thorough) telegrams from a 14-symbol alphabet injected from the moment the station is in each of 8 FDL states, for 3 application setups. Oracle: no panic of any kind (debug assertions and overflow checks enabled, every log record formatted) and every case finishes. Non-trivial = the station visited >= 5 distinct FDL states and at least one telegram was delivered while it held the token (random programs) / the target state was reached (enumerated).",
        assumptions: vec![
            "time is non-decreasing and the PHY honours its contract; application lists do not change while online",
            "DpMaster operating states Clear/Stop and the passive connectivity state are todo!() in the crate and are not called",
            "Peripheral::reset_address() is not called while a request to that peripheral is outstanding",
        ],
        subchecks: vec![
            SubCheck::tape("programs", "random environment programs (up to 40 adversarial actions)", program_case),
            SubCheck::tape("programs_small", "shorter programs (up to 24 actions, short waits; entry of the libFuzzer target fz_station)", |t, obs| program_case_scaled(t, obs, true)),
            SubCheck::index("exh2", "all sequences of 2 adversarial telegrams in each of 8 FDL states x 3 setups", |i, obs| exhaustive_case(i, 2, obs)),
            SubCheck::index("exh3", "all sequences of 3 adversarial telegrams in each of 8 FDL states x 3 setups", |i, obs| exhaustive_case(i, 3, obs)),
        ],
        plan: |tier| match tier {
            Tier::Quick => vec![Step::Enumerate { kind: "exh2", count: 24 * 14 * 14 }, Step::Pbt { kind: "programs", cases: 16_000, max_len: 220 }],
            Tier::Thorough => vec![
                Step::Enumerate { kind: "exh3", count: 24 * 14 * 14 * 14 },
                Step::Pbt { kind: "programs", cases: 150_000, max_len: 220 },
                Step::Fuzz { target: "fz_station", runs: 2_000_000 },
            ],
        },
        hang_is_violation: true,
        hang_limit_s: 30,
        probes: vec![],
    }
}
