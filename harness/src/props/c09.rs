//! C09 Telegram encoding and decoding are mutually inverse.
use crate::engine::*;
use crate::refcodec::{self as rc, RefFrame, RefVerdict};
use crate::{ensure, fail};
use profirust::fdl::{
    DataTelegramHeader, FrameCountBit, FunctionCode, RequestType, ResponseState, ResponseStatus,
    Telegram, TelegramTx,
};
use serde_json::json;

pub const REQS: [RequestType; 12] = [
    RequestType::ClockValue,
    RequestType::TimeEvent,
    RequestType::SdaLow,
    RequestType::SdnLow,
    RequestType::SdaHigh,
    RequestType::SdnHigh,
    RequestType::MulticastSrd,
    RequestType::FdlStatus,
    RequestType::SrdLow,
    RequestType::SrdHigh,
    RequestType::Ident,
    RequestType::LsapStatus,
];
pub const FCBS: [FrameCountBit; 4] = [
    FrameCountBit::First,
    FrameCountBit::High,
    FrameCountBit::Low,
    FrameCountBit::Inactive,
];
pub const STATES: [ResponseState; 4] = [
    ResponseState::Slave,
    ResponseState::MasterNotReady,
    ResponseState::MasterWithoutToken,
    ResponseState::MasterInRing,
];
pub const STATUSES: [ResponseStatus; 9] = [
    ResponseStatus::Ok,
    ResponseStatus::UserError,
    ResponseStatus::NoResources,
    ResponseStatus::SapNotEnabled,
    ResponseStatus::DataLow,
    ResponseStatus::NoDataReady,
    ResponseStatus::DataHigh,
    ResponseStatus::NotReceivedDataLow,
    ResponseStatus::NotReceivedDataHigh,
];

pub const N_FC: u64 = 12 * 4 + 4 * 9;

/// All 84 function codes the stack can express.
pub fn fc_by_index(i: u64) -> FunctionCode {
    let i = i as usize;
    if i < 48 {
        FunctionCode::Request {
            req: REQS[i / 4],
            fcb: FCBS[i % 4],
        }
    } else {
        let j = i - 48;
        FunctionCode::Response {
            state: STATES[j / 9],
            status: STATUSES[j % 9],
        }
    }
}

/// The byte a function code must have on the wire, written from the frame format:
/// bit 6 = request; requests: bit 5 FCB, bit 4 FCV, bits 0-3 service (bit 7 set only for the
/// clock value service); responses: bits 4-5 station type, bits 0-3 status.
pub fn ref_fc_byte(fc: FunctionCode) -> u8 {
    match fc {
        FunctionCode::Request { fcb, req } => {
            let service = match req {
                RequestType::ClockValue => 0x80,
                RequestType::TimeEvent => 0,
                RequestType::SdaLow => 3,
                RequestType::SdnLow => 4,
                RequestType::SdaHigh => 5,
                RequestType::SdnHigh => 6,
                RequestType::MulticastSrd => 7,
                RequestType::FdlStatus => 9,
                RequestType::SrdLow => 12,
                RequestType::SrdHigh => 13,
                RequestType::Ident => 14,
                RequestType::LsapStatus => 15,
            };
            let (fcv, fcb) = match fcb {
                FrameCountBit::First => (0, 1),
                FrameCountBit::High => (1, 1),
                FrameCountBit::Low => (1, 0),
                FrameCountBit::Inactive => (0, 0),
            };
            0x40 | service | fcv << 4 | fcb << 5
        }
        FunctionCode::Response { state, status } => {
            let st = match state {
                ResponseState::Slave => 0,
                ResponseState::MasterNotReady => 1,
                ResponseState::MasterWithoutToken => 2,
                ResponseState::MasterInRing => 3,
            };
            let s = match status {
                ResponseStatus::Ok => 0,
                ResponseStatus::UserError => 1,
                ResponseStatus::NoResources => 2,
                ResponseStatus::SapNotEnabled => 3,
                ResponseStatus::DataLow => 8,
                ResponseStatus::NoDataReady => 9,
                ResponseStatus::DataHigh => 10,
                ResponseStatus::NotReceivedDataLow => 12,
                ResponseStatus::NotReceivedDataHigh => 13,
            };
            st << 4 | s
        }
    }
}

pub fn max_pdu(dsap: bool, ssap: bool) -> usize {
    246 - usize::from(dsap) - usize::from(ssap)
}

/// Round-trip oracle for one data telegram.
pub fn check_data(
    da: u8,
    sa: u8,
    dsap: Option<u8>,
    ssap: Option<u8>,
    fc: FunctionCode,
    pdu: &[u8],
    obs: &mut Obs,
) -> CaseResult {
    let header = DataTelegramHeader {
        da,
        sa,
        dsap,
        ssap,
        fc,
    };
    let refframe = RefFrame::Data {
        da,
        sa,
        dsap,
        ssap,
        fc: ref_fc_byte(fc),
        pdu: pdu.to_vec(),
    };
    let expect = rc::encode(&refframe);
    let mut buf = [0xAAu8; 300];
    let resp = TelegramTx::new(&mut buf).send_data_telegram(header.clone(), pdu.len(), |b| {
        b.copy_from_slice(pdu)
    });
    let n = resp.bytes_sent();
    ensure!(
        n == expect.len(),
        "enc-len",
        "bytes_sent {} but the frame format needs {} bytes for {:?} pdu_len={}",
        n,
        expect.len(),
        header,
        pdu.len()
    );
    ensure!(
        header.telegram_len(pdu.len()) == expect.len(),
        "telegram-len",
        "telegram_len {} != {} for {:?} pdu_len={}",
        header.telegram_len(pdu.len()),
        expect.len(),
        header,
        pdu.len()
    );
    ensure!(
        buf[..n] == expect[..],
        "enc-bytes",
        "encoded {:02x?} but the frame format gives {:02x?} for {:?}",
        &buf[..n],
        expect,
        header
    );
    ensure!(
        buf[n..].iter().all(|b| *b == 0xAA),
        "enc-overrun",
        "bytes beyond the reported length were written for {:?} pdu_len={}",
        header,
        pdu.len()
    );
    // the same telegram into a buffer that is exactly as long as the telegram (a PHY may hand out
    // any buffer that is large enough): the encoder needs the bytes it reports, not more
    let mut exact = vec![0xAAu8; expect.len()];
    let n2 = TelegramTx::new(&mut exact)
        .send_data_telegram(header.clone(), pdu.len(), |b| b.copy_from_slice(pdu))
        .bytes_sent();
    ensure!(
        n2 == n && exact[..] == expect[..],
        "enc-exact-fit",
        "encoding into a buffer of exactly {} bytes gives {:02x?} ({} bytes) for {:?}",
        expect.len(),
        exact,
        n2,
        header
    );
    let want_reply = match fc {
        FunctionCode::Request { .. } if rc::request_expects_reply(ref_fc_byte(fc)) => Some(da),
        _ => None,
    };
    ensure!(
        resp.expects_reply() == want_reply,
        "expects-reply",
        "expects_reply {:?} but {:?} is right for {:?}",
        resp.expects_reply(),
        want_reply,
        header
    );
    // decode back, also with trailing bytes present
    let followers: [&[u8]; 5] = [&[], &[0x16], &[0x16; 7], &[0xDC, 0x02, 0x01], &[0x68, 0x05, 0x05]];
    for follower in followers {
        let mut input = expect.clone();
        input.extend_from_slice(follower);
        match Telegram::deserialize(&input) {
            Some(Ok((Telegram::Data(t), used))) => {
                ensure!(
                    used == n,
                    "dec-len",
                    "decoder consumed {} of a {}-byte frame {:02x?}",
                    used,
                    n,
                    expect
                );
                ensure!(
                    t.h == header && t.pdu == pdu,
                    "dec-content",
                    "decoded {:?} from the encoding of {:?} pdu={:02x?}",
                    t,
                    header,
                    pdu
                );
                ensure!(
                    t.telegram_len() == n,
                    "dec-telegram-len",
                    "decoded telegram reports telegram_len {} for a {}-byte frame",
                    t.telegram_len(),
                    n
                );
            }
            other => fail!(
                "dec-verdict",
                "encoding {:02x?} of {:?} decodes to {:?}",
                expect,
                header,
                other
            ),
        }
    }
    // the reference decoder must agree with the reference encoder (sanity of the oracle itself)
    match rc::decode(&expect) {
        RefVerdict::Accept(f, used) if f == refframe && used == n => {}
        other => fail!(
            "oracle-selfcheck",
            "reference codec does not round-trip: {:?}",
            other
        ),
    }
    // every proper prefix asks for more data
    for k in 0..n {
        let r = Telegram::deserialize(&expect[..k]);
        ensure!(
            r.is_none(),
            "prefix",
            "prefix of length {} of valid frame {:02x?} gives {:?} instead of 'need more data'",
            k,
            expect,
            r
        );
    }
    let le = pdu.len() + 3 + usize::from(dsap.is_some()) + usize::from(ssap.is_some());
    if matches!(le, 3 | 4 | 10 | 11 | 12 | 249) {
        obs.label(&format!("le={le}"));
    }
    if dsap.is_some() && ssap.is_some() {
        obs.label("both-saps");
    }
    obs.nontrivial(fingerprint(&(da, sa, dsap, ssap, ref_fc_byte(fc), pdu.len())));
    obs.sample(|| json!({"header": format!("{:?}", header), "pdu_len": pdu.len(), "wire": hex(&expect)}));
    Ok(())
}

pub fn hex(b: &[u8]) -> String {
    b.iter().map(|x| format!("{:02x}", x)).collect::<Vec<_>>().join(" ")
}

fn content(kind: u64, n: usize, seed: u64) -> Vec<u8> {
    match kind % 6 {
        0 => vec![0x00; n],
        1 => vec![0xFF; n],
        2 => vec![0x16; n],
        3 => vec![0x68; n],
        4 => vec![0xE5; n],
        _ => {
            let mut r = SplitMix(seed);
            (0..n).map(|_| r.next() as u8).collect()
        }
    }
}

const ADDR_CORNERS: [u8; 8] = [0, 1, 2, 62, 125, 126, 127, 100];

pub fn property() -> Property {
    Property {
        id: "C09",
        rule: "cases: data telegrams over all structural dimensions (all 84 function codes x 4 SAP-presence combinations x every payload length 0..=limit; all 128x128 address pairs; all 256x256 SAP values), all 65536 token frames, SC, all 256 function code bytes, plus random telegrams; each is encoded through TelegramTx, compared byte for byte with a reference encoder written from the frame format, decoded back and every proper prefix is fed to the decoder. Non-trivial = a data telegram (any) - distinct by (da, sa, dsap, ssap, fc byte, pdu length); tokens and FC-byte cases are counted in evaluations only.",
        assumptions: vec![
            "reference codec (harness/src/refcodec.rs) is a faithful rendering of the PROFIBUS FDL frame format",
            "payload lengths are limited to what DataTelegramHeader::serialize documents (length byte <= 249)",
        ],
        subchecks: vec![
            SubCheck::index("fc_bytes", "all 256 function code bytes: from_byte is an error or inverts to_byte (reserved bit 7 of responses ignored)", |i, _obs| {
                let b = i as u8;
                match FunctionCode::from_byte(b) {
                    Ok(fc) => {
                        ensure!(rc::fc_valid(b), "fc-valid", "from_byte(0x{:02x}) = {:?} but the code is not defined by the frame format", b, fc);
                        let back = fc.to_byte();
                        let norm = if b & 0x40 == 0 { b & 0x7F } else { b };
                        ensure!(back == norm, "fc-byte-roundtrip", "from_byte(0x{:02x}) = {:?} whose to_byte is 0x{:02x}", b, fc, back);
                        ensure!(ref_fc_byte(fc) == norm, "fc-meaning", "from_byte(0x{:02x}) = {:?} but that code is written 0x{:02x}", b, fc, ref_fc_byte(fc));
                    }
                    Err(_) => {
                        ensure!(!rc::fc_valid(b), "fc-valid", "from_byte(0x{:02x}) is an error but the code is defined", b);
                    }
                }
                Ok(())
            }),
            SubCheck::index("fc_codes", "all 84 function codes: from_byte(to_byte(fc)) == fc and the byte is the one the frame format defines", |i, obs| {
                let fc = fc_by_index(i);
                let b = fc.to_byte();
                ensure!(b == ref_fc_byte(fc), "fc-encoding", "{:?}.to_byte() = 0x{:02x}, frame format says 0x{:02x}", fc, b, ref_fc_byte(fc));
                ensure!(FunctionCode::from_byte(b) == Ok(fc), "fc-roundtrip", "from_byte(to_byte({:?})) = {:?}", fc, FunctionCode::from_byte(b));
                obs.nontrivial(i);
                obs.sample(|| json!({"fc": format!("{:?}", fc), "byte": format!("0x{:02x}", b)}));
                Ok(())
            }),
            SubCheck::index("token_sc", "all 65536 token frames and the short confirmation", |i, obs| {
                let mut buf = [0xAAu8; 16];
                if i == 65536 {
                    let r = TelegramTx::new(&mut buf).send_short_confirmation();
                    ensure!(r.bytes_sent() == 1 && buf[0] == 0xE5 && buf[1] == 0xAA, "sc-enc", "SC encodes to {:02x?} ({} bytes)", &buf[..2], r.bytes_sent());
                    ensure!(r.expects_reply().is_none(), "expects-reply", "SC expects a reply");
                    // alone in the buffer and with anything behind it (the next telegram, noise)
                    let followers: [&[u8]; 6] = [&[], &[0xAA], &[0xDC, 0x02, 0x01], &[0xE5], &[0x10, 0x02, 0x01, 0x49, 0x4C, 0x16], &[0x68, 0x05]];
                    for f in followers {
                        let mut input = vec![0xE5u8];
                        input.extend_from_slice(f);
                        match Telegram::deserialize(&input) {
                            Some(Ok((Telegram::ShortConfirmation(_), 1))) => {}
                            o => fail!("sc-dec", "SC followed by {:02x?} decodes to {:?} (expected SC, 1 byte consumed)", f, o),
                        }
                    }
                    return Ok(());
                }
                let (da, sa) = ((i >> 8) as u8, i as u8);
                let r = TelegramTx::new(&mut buf).send_token_telegram(da, sa);
                ensure!(r.bytes_sent() == 3 && buf[..4] == [0xDC, da, sa, 0xAA], "token-enc", "token {}->{} encodes to {:02x?} ({} bytes)", sa, da, &buf[..4], r.bytes_sent());
                ensure!(r.expects_reply().is_none(), "expects-reply", "token expects a reply");
                for extra in [0usize, 2] {
                    match Telegram::deserialize(&buf[..3 + extra]) {
                        Some(Ok((Telegram::Token(t), 3))) if t.da == da && t.sa == sa => {}
                        o => fail!("token-dec", "token {:02x?} decodes to {:?}", &buf[..3], o),
                    }
                }
                for k in 0..3 {
                    ensure!(Telegram::deserialize(&buf[..k]).is_none(), "prefix", "prefix {} of token gives a verdict", k);
                }
                obs.sample(|| json!({"token": format!("{}->{}", sa, da)}));
                Ok(())
            }),
            SubCheck::index("data_struct", "every function code x SAP presence x payload length 0..=limit", |i, obs| {
                let len = (i % 247) as usize;
                let fci = (i / 247) % N_FC;
                let saps = i / 247 / N_FC; // 0..4
                let (hd, hs) = (saps & 1 != 0, saps & 2 != 0);
                if len > max_pdu(hd, hs) {
                    return Ok(());
                }
                let mut r = SplitMix(i.wrapping_mul(0x9E37_79B9) ^ 0xC09);
                let da = if r.below(3) == 0 { ADDR_CORNERS[r.below(8) as usize] } else { r.below(128) as u8 };
                let sa = if r.below(3) == 0 { ADDR_CORNERS[r.below(8) as usize] } else { r.below(128) as u8 };
                let dsap = hd.then(|| r.next() as u8);
                let ssap = hs.then(|| r.next() as u8);
                let pdu = content(r.next(), len, r.next());
                check_data(da, sa, dsap, ssap, fc_by_index(fci), &pdu, obs)
            }),
            SubCheck::index("data_addr", "all 128x128 address pairs x SAP presence x lengths {0, 8, 9}", |i, obs| {
                let da = (i & 127) as u8;
                let sa = ((i >> 7) & 127) as u8;
                let saps = (i >> 14) & 3;
                let len = [0usize, 8, 9][((i >> 16) % 3) as usize];
                let mut r = SplitMix(i ^ 0xADD2);
                let dsap = (saps & 1 != 0).then(|| r.next() as u8);
                let ssap = (saps & 2 != 0).then(|| r.next() as u8);
                let pdu = content(5, len, r.next());
                check_data(da, sa, dsap, ssap, fc_by_index(r.below(N_FC)), &pdu, obs)
            }),
            SubCheck::index("data_saps", "all 256x256 DSAP/SSAP values", |i, obs| {
                let dsap = (i & 255) as u8;
                let ssap = (i >> 8) as u8;
                let mut r = SplitMix(i ^ 0x5A95);
                let len = r.below(12) as usize;
                let pdu = content(r.next(), len, r.next());
                check_data(r.below(128) as u8, r.below(128) as u8, Some(dsap), Some(ssap), fc_by_index(r.below(N_FC)), &pdu, obs)
            }),
            SubCheck::tape("data_random", "random data telegrams (all fields random, payload fillers 00/FF/16/68/E5/random)", |t, obs| {
                let hd = t.bool();
                let hs = t.bool();
                let da = t.below(128) as u8;
                let sa = t.below(128) as u8;
                let dsap = hd.then(|| t.u8());
                let ssap = hs.then(|| t.u8());
                let fc = fc_by_index(t.below(N_FC));
                let lim = max_pdu(hd, hs);
                let len = match t.below(4) {
                    0 => t.below(13) as usize,
                    1 => lim - t.below(4) as usize,
                    _ => t.below(lim as u64 + 1) as usize,
                };
                let kind = t.below(6);
                let seed = u64::from(t.raw()) + 1;
                let pdu = content(kind, len, seed);
                check_data(da, sa, dsap, ssap, fc, &pdu, obs)
            }),
        ],
        plan: |tier| match tier {
            Tier::Quick => vec![
                Step::Enumerate { kind: "fc_bytes", count: 256 },
                Step::Enumerate { kind: "fc_codes", count: N_FC },
                Step::Enumerate { kind: "token_sc", count: 65537 },
                Step::Enumerate { kind: "data_struct", count: 247 * N_FC * 4 },
                Step::Enumerate { kind: "data_addr", count: 3 << 16 },
                Step::Enumerate { kind: "data_saps", count: 1 << 16 },
                Step::Pbt { kind: "data_random", cases: 400_000, max_len: 12 },
            ],
            Tier::Thorough => vec![
                Step::Enumerate { kind: "fc_bytes", count: 256 },
                Step::Enumerate { kind: "fc_codes", count: N_FC },
                Step::Enumerate { kind: "token_sc", count: 65537 },
                Step::Enumerate { kind: "data_struct", count: 247 * N_FC * 4 },
                Step::Enumerate { kind: "data_addr", count: 3 << 16 },
                Step::Enumerate { kind: "data_saps", count: 1 << 16 },
                Step::Pbt { kind: "data_random", cases: 4_000_000, max_len: 12 },
            ],
        },
        hang_is_violation: false,
        hang_limit_s: 0,
        probes: vec![],
    }
}
