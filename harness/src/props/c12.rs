//! C12 GAP maintenance polls exactly the own GAP and status replies are truthful.
use crate::engine::*;
use crate::envsim::*;
use crate::refcodec::{self as rc, RefFrame};
use crate::{ensure, fail};
use profirust::Baudrate;
use serde_json::json;

/// Addresses strictly between TS and NS, walking upwards from TS and wrapping at HSA.
pub fn gap_set(ts: u8, ns: u8, hsa: u8) -> Vec<u8> {
    let mut v = vec![];
    let mut a = ts;
    loop {
        a = if a + 1 >= hsa { 0 } else { a + 1 };
        if a == ts || a == ns {
            break;
        }
        v.push(a);
    }
    v
}

/// One station TS with a partner NS that answers the GAP poll as a ready master and returns the
/// token after holding it briefly.  `newcomer`: a station inside the GAP that starts answering
/// (as ready master) after `newcomer_after` token visits.
pub fn gap_case(ts: u8, ns: u8, hsa: u8, g: u8, newcomer: Option<(u8, usize)>, obs: &mut Obs) -> CaseResult {
    gap_case_ext(ts, ns, hsa, g, newcomer, None, obs)
}

/// `lose_after`: after that many token visits the successor keeps the token for good (it was
/// lost); the station must claim a new one and then poll its WHOLE GAP at once again.
pub fn gap_case_ext(ts: u8, ns: u8, hsa: u8, g: u8, newcomer: Option<(u8, usize)>, lose_after: Option<usize>, obs: &mut Obs) -> CaseResult {
    gap_case_full(ts, ns, hsa, g, newcomer, lose_after, &[], obs)
}

/// `passive`: addresses inside the GAP at which a passive station (DP slave) answers the status
/// request with 'slave' - it must neither become successor nor change the sweep.
#[allow(clippy::too_many_arguments)]
/// Flag in the `after` component of `newcomer`: the newcomer reports 'master in ring' instead of
/// 'master ready' (a station that was dropped from the ring without noticing it).
pub const NEWCOMER_IN_RING: usize = 1 << 20;
/// Flag: the newcomer never answers a poll; the station learns about it from a witnessed token
/// pass newcomer -> successor (the successor changes to an address that may lie behind the
/// current sweep position).
pub const NEWCOMER_WITNESSED: usize = 1 << 21;
/// Flag: the newcomer answers every poll with 'master ready' but never takes the token: it is
/// adopted, dropped after three passes, and the sweep has to go on behind it.
pub const NEWCOMER_ZOMBIE: usize = 1 << 22;

thread_local! {
    /// Set by the `gap_stray` sub-check for the duration of one case: a single stray character
    /// reaches the station in the token visits v with v % m == r, between the poll in which the
    /// station decided to pass the token on and its next poll.
    static STRAY: std::cell::Cell<Option<(usize, usize)>> = const { std::cell::Cell::new(None) };
}
struct StrayGuard;
impl Drop for StrayGuard {
    fn drop(&mut self) {
        STRAY.with(|s| s.set(None));
    }
}

pub fn gap_case_full(ts: u8, ns: u8, hsa: u8, g: u8, newcomer: Option<(u8, usize)>, lose_after: Option<usize>, passive: &[u8], obs: &mut Obs) -> CaseResult {
    let newcomer_state = if newcomer.map(|n| n.1 & NEWCOMER_IN_RING != 0).unwrap_or(false) { 3 } else { 2 };
    let newcomer_witnessed = newcomer.map(|n| n.1 & NEWCOMER_WITNESSED != 0).unwrap_or(false);
    let newcomer_zombie = newcomer.map(|n| n.1 & NEWCOMER_ZOMBIE != 0).unwrap_or(false);
    let newcomer = newcomer.map(|(a, after)| (a, after & !(NEWCOMER_IN_RING | NEWCOMER_WITNESSED | NEWCOMER_ZOMBIE)));
    let mut zombie_passes = 0;
    let mut zombie_removed_at: Option<usize> = None;
    let mut w = World::new(ts, hsa, Baudrate::B1500000, 300, g, None);
    w.step_us = 13;
    let gap0 = gap_set(ts, ns, hsa);
    let want_visits = (gap0.len() + g as usize + 4) * if newcomer_zombie { 5 } else { 3 } + 4;
    let mut handled = 0usize;
    let mut pending: Vec<(i64, Vec<u8>)> = vec![];
    // token visits: polled addresses per visit, with the NS valid during that visit
    let mut visits: Vec<(Vec<u8>, u8)> = vec![];
    let mut cur: Option<Vec<u8>> = None;
    let mut claim_scan: Vec<u8> = vec![];
    let mut established = false;
    let mut seen_first_pass = false;
    let mut cur_ns = ns; // successor as the environment plays it
    let mut newcomer_active = false;
    let mut newcomer_joined_at: Option<usize> = None;
    let t_max = 400_000_000i64;
    let mut own_tokens = 0;
    let mut claim_ns: Option<u8> = None;
    let mut last_returner = ns;
    let mut awaiting_ts: Option<(i64, u32, u8)> = None;
    let mut lose_after = lose_after;
    let mut reclaiming = false;
    let mut reclaim_scan: Vec<u8> = vec![];
    let mut reclaim_tokens = 0;
    let mut reclaimed_at: Option<usize> = None;
    let stray = STRAY.with(|s| s.get());
    let mut stray_done: Option<usize> = None;
    while visits.len() < want_visits {
        w.now += w.step_us;
        ensure!(w.now < t_max, "gap-timeout", "only {} token visits within the simulated time (TS={ts} NS={ns} HSA={hsa} G={g})", visits.len());
        let now = w.now;
        pending.retain(|(t, d)| {
            if *t <= now {
                w.bus.inject(ENV, *t, d);
                false
            } else {
                true
            }
        });
        w.poll(&mut ());
        if let Some((m, r)) = stray {
            if seen_first_pass && visits.len() % m == r && stray_done != Some(visits.len()) && w.state_name() == "PassToken" {
                w.bus.inject(ENV, w.now, &[0x00]);
                stray_done = Some(visits.len());
                obs.count("stray_characters", 1);
            }
        }
        // a real master repeats its token pass when the receiver stays silent for a slot time
        if let Some((since, attempts, from)) = awaiting_ts {
            if w.now > since + w.bit_us(300 + 40) && attempts < 2 {
                w.bus.inject(ENV, w.now, &token(from, ts));
                awaiting_ts = Some(((w.bus.0.borrow().trace.last().unwrap().end_ns + 999) / 1000, attempts + 1, from));
            }
        }
        if let Some((_, after)) = newcomer {
            if visits.len() >= after {
                newcomer_active = true;
            }
        }
        let recs: Vec<_> = {
            let b = w.bus.0.borrow();
            let r = b.trace[handled..].to_vec();
            handled = b.trace.len();
            r
        };
        if seen_first_pass && claim_ns.is_none() {
            claim_ns = Some(cur_ns);
        }
        for t in recs {
            if t.sender != 0 {
                // token returned by the partner: a new visit starts when it has arrived
                if t.bytes == token(last_returner, ts) && seen_first_pass {
                    cur = Some(vec![]);
                    if awaiting_ts.is_none() {
                        awaiting_ts = Some(((t.end_ns + 999) / 1000, 0, last_returner));
                    }
                }
                continue;
            }
            awaiting_ts = None;
            let end = (t.end_ns + 999) / 1000;
            let Some(f) = rc::decode_one(&t.bytes) else { fail!("undecodable-tx", "station transmitted {}", crate::props::c09::hex(&t.bytes)) };
            match f {
                RefFrame::Data { da, sa, fc: 0x49, dsap: None, ssap: None, ref pdu } if pdu.is_empty() => {
                    ensure!(sa == ts, "foreign-sa", "status request with source {sa}");
                    ensure!(da != ts, "polled-itself", "status request addressed to the own address #{ts} (NS={cur_ns} HSA={hsa})");
                    ensure!(da < hsa, "polled-beyond-hsa", "status request to #{da} with HSA {hsa}");
                    if reclaiming {
                        ensure!(reclaim_tokens >= 2, "poll-outside-visit", "status request to #{da} after the token was lost, before the station claimed a new one");
                        reclaim_scan.push(da);
                    } else if !seen_first_pass {
                        claim_scan.push(da);
                    } else if let Some(c) = cur.as_mut() {
                        c.push(da);
                    } else {
                        fail!("poll-outside-visit", "status request to #{da} while the station does not hold the token");
                    }
                    if da == cur_ns && cur_ns != ts {
                        pending.push((end + w.bit_us(12), status_resp(ts, cur_ns, if established && !reclaiming { 3 } else { 2 })));
                    } else if passive.contains(&da) && Some(da) != newcomer.map(|n| n.0) {
                        pending.push((end + w.bit_us(12), status_resp(ts, da, 0)));
                    } else if newcomer_active && !newcomer_witnessed && (!newcomer_zombie || claim_ns.is_some()) && Some(da) == newcomer.map(|n| n.0) && da != cur_ns {
                        // the newcomer answers as a ready master: it must become the successor
                        pending.push((end + w.bit_us(12), status_resp(ts, da, newcomer_state)));
                        if newcomer_joined_at.is_none() {
                            newcomer_joined_at = Some(visits.len());
                        }
                        cur_ns = da;
                    }
                }
                RefFrame::Token { da, sa } => {
                    ensure!(sa == ts, "foreign-sa", "token with source {sa}");
                    own_tokens += 1;
                    if reclaiming {
                        if da == ts {
                            reclaim_tokens += 1;
                            continue;
                        }
                        // first pass after the new claim: the scan in between must have covered the whole GAP
                        // (the successor is still known, so the GAP ends before it and it is not polled itself)
                        let want: Vec<u8> = gap_set(ts, cur_ns, hsa);
                        if reclaim_scan != want {
                            let b = w.bus.0.borrow();
                            let tail: String = if std::env::var("PBVERIF_DUMP").is_ok() { b.trace.iter().rev().take(24).rev().map(|r| format!("\n  {} ns node{} {}", r.start_ns, r.sender, crate::props::c09::hex(&r.bytes))).collect() } else { String::new() };
                            fail!("reclaim-scan", "after losing and re-claiming the token the station polled {:?} before passing it on, expected the whole GAP {:?} (TS={ts} NS={cur_ns} HSA={hsa} G={g}){}", reclaim_scan, want, tail);
                        }
                        ensure!(da == cur_ns, "token-to-wrong-station", "token passed to #{da} after the re-claim but the responding successor is #{cur_ns}");
                        reclaiming = false;
                        reclaimed_at = Some(visits.len());
                        obs.label("token-lost-and-reclaimed");
                    }
                    if da == ts {
                        if !seen_first_pass {
                            // the two claim tokens come first; a self-pass after the scan starts the visits
                            if own_tokens > 2 {
                                seen_first_pass = true;
                                cur = Some(vec![]);
                            }
                        } else {
                            if let Some(c) = cur.take() {
                                visits.push((c, cur_ns));
                            }
                            cur = Some(vec![]);
                        }
                        if !(cur_ns == ts || !established) {
                            let b = w.bus.0.borrow();
                            let tail: String = b.trace.iter().rev().take(14).rev().map(|r| format!("\n  {} ns node{} {}", r.start_ns, r.sender, crate::props::c09::hex(&r.bytes))).collect();
                            fail!("token-kept", "token passed to itself although the successor #{cur_ns} is known and alive (TS={ts} NS={ns} HSA={hsa} G={g} newcomer={:?}){}", newcomer, tail);
                        }
                    } else if newcomer_zombie && da == cur_ns && Some(da) == newcomer.map(|n| n.0) {
                        // the zombie never takes the token: three passes, then it is dropped and the
                        // token goes to the old successor
                        if let Some(c) = cur.take() {
                            visits.push((c, cur_ns));
                        }
                        zombie_passes += 1;
                        if zombie_passes == 3 {
                            zombie_passes = 0;
                            cur_ns = ns;
                            if zombie_removed_at.is_none() {
                                zombie_removed_at = Some(visits.len());
                            }
                        }
                    } else if da == cur_ns {
                        established = true;
                        if !seen_first_pass {
                            seen_first_pass = true;
                        } else if let Some(c) = cur.take() {
                            visits.push((c, cur_ns));
                        }
                        if lose_after == Some(visits.len()) && cur_ns != ts {
                            // the token gets lost now: the successor takes it (it is heard once) and
                            // then dies while holding it - nobody returns it
                            pending.push((end + w.bit_us(60), status_req(100, cur_ns)));
                            lose_after = None;
                            reclaiming = true;
                            reclaim_scan.clear();
                            reclaim_tokens = 0;
                            cur = None;
                            continue;
                        }
                        // the other masters hold the token briefly and pass it on until it is back
                        let mut chain: Vec<u8> = vec![cur_ns];
                        if cur_ns != ns && ns != ts {
                            chain.push(ns);
                        }
                        chain.push(ts);
                        let mut at = end;
                        if let (true, true, None, Some((nc, _))) = (newcomer_witnessed, newcomer_active, newcomer_joined_at, newcomer) {
                            if claim_ns.is_some() && cur_ns == ns && ns != ts && gap_set(ts, ns, hsa).contains(&nc) {
                                // a token pass newcomer -> successor is witnessed: the newcomer is an
                                // active station between TS and NS, i.e. the new successor
                                at += w.bit_us(60 + 33);
                                pending.push((at, token(nc, ns)));
                                newcomer_joined_at = Some(visits.len());
                                cur_ns = nc;
                                obs.label("successor-learnt-from-witnessed-pass");
                            }
                        }
                        for pair in chain.windows(2) {
                            at += w.bit_us(60 + 33);
                            pending.push((at, token(pair[0], pair[1])));
                        }
                        last_returner = chain[chain.len() - 2];
                        cur = None;
                    } else {
                        fail!("token-to-wrong-station", "token passed to #{da} but the successor is #{cur_ns} (TS={ts} HSA={hsa})");
                    }
                }
                other => fail!("unexpected-tx", "station without applications transmitted {:?}", other),
            }
        }
    }
    // --- oracle
    for a in &claim_scan {
        ensure!(*a != ts && *a < hsa, "claim-scan", "post-claim scan polled #{a} (TS={ts} HSA={hsa})");
    }
    // the post-claim scan covers the whole GAP at once: every address between TS and the responding NS
    let ns = claim_ns.unwrap_or(ns);
    if ns != ts {
        let want: Vec<u8> = gap_set(ts, ns, hsa).into_iter().chain(std::iter::once(ns)).collect();
        ensure!(claim_scan == want, "claim-scan", "post-claim scan polled {:?}, expected the GAP up to the first responding master {:?}", claim_scan, want);
    } else {
        let want = gap_set(ts, ts, hsa);
        ensure!(claim_scan == want, "claim-scan", "post-claim scan polled {:?}, expected all other addresses {:?}", claim_scan, want);
    }
    let mut flat: Vec<(Option<u8>, u8)> = vec![];
    for (v, vns) in &visits {
        ensure!(v.len() <= 1, "polls-per-visit", "{} GAP polls in one token visit: {:?}", v.len(), v);
        flat.push((v.first().copied(), *vns));
    }
    for (a, vns) in flat.iter() {
        if let Some(a) = a {
            let gap = gap_set(ts, *vns, hsa);
            // when the newcomer has just been discovered by this very poll the GAP is judged before the poll
            let gap_before = gap_set(ts, ns, hsa);
            ensure!(gap.contains(a) || gap_before.contains(a), "outside-gap", "polled #{a} which is not strictly between TS #{ts} and NS #{vns} (GAP {:?}, HSA {hsa})", gap);
        }
    }
    if newcomer_zombie {
        // the sweep goes on behind the dropped station: every GAP address is polled within a bounded
        // number of visits after the first removal
        if let Some(k) = zombie_removed_at {
            let budget = 2 * (gap0.len() + g as usize + 4);
            let polled: std::collections::BTreeSet<u8> = flat.iter().skip(k).take(budget).filter_map(|x| x.0).collect();
            if flat.len() >= k + budget {
                let missing: Vec<u8> = gap0.iter().copied().filter(|a| !polled.contains(a)).collect();
                ensure!(missing.is_empty(), "gap-not-swept-behind-dropped-station", "after #{} (answers 'ready', never takes the token) was dropped the GAP addresses {:?} were not polled within {} token visits (polled: {:?}; TS={ts} NS={ns} HSA={hsa} G={g})", newcomer.unwrap().0, missing, budget, polled);
                obs.label("zombie-dropped-and-sweep-continued");
            }
        }
        return Ok(());
    }
    // sweeps (judged while the successor is unchanged)
    let stable: Vec<Option<u8>> = match newcomer_joined_at.or(reclaimed_at) {
        None => flat.iter().map(|x| x.0).collect(),
        Some(k) => flat.iter().skip(k + 1).map(|x| x.0).collect(),
    };
    let gap = gap_set(ts, cur_ns, hsa);
    let mut i = 0;
    let mut sweeps = 0;
    let mut first = true;
    while i < stable.len() {
        if stable[i].is_none() {
            let mut j = i;
            while j < stable.len() && stable[j].is_none() {
                j += 1;
            }
            let pause = j - i;
            if !gap.is_empty() && !first && j < stable.len() {
                ensure!(pause >= g as usize && pause <= g as usize + 2, "gap-pause", "pause of {} token visits between two sweeps with gap factor {} (visits {:?})", pause, g, stable);
            }
            i = j;
            first = false;
        } else {
            let mut j = i;
            let mut run = vec![];
            while j < stable.len() && stable[j].is_some() {
                run.push(stable[j].unwrap());
                j += 1;
            }
            let complete = j < stable.len();
            if first {
                if complete {
                    ensure!(gap.ends_with(&run), "sweep-order", "first sweep {:?} is not a suffix of the GAP {:?}", run, gap);
                }
            } else if complete {
                ensure!(run == gap, "sweep-order", "sweep {:?} is not the GAP {:?} in ascending cyclic order", run, gap);
                sweeps += 1;
            } else {
                ensure!(gap.starts_with(&run), "sweep-order", "partial sweep {:?} is not a prefix of the GAP {:?}", run, gap);
            }
            i = j;
            first = false;
        }
    }
    if !gap.is_empty() && newcomer_joined_at.is_none() && reclaimed_at.is_none() {
        ensure!(sweeps >= 1, "gap-never-swept", "no complete sweep of the GAP {:?} in {} token visits: {:?}", gap, stable.len(), stable);
    }
    if let Some((nc, after)) = newcomer {
        if gap0.contains(&nc) {
            ensure!(newcomer_joined_at.is_some(), "newcomer-never-polled", "a ready master at #{nc} inside the GAP was not polled within {} token visits after it appeared", want_visits - after);
            let k = newcomer_joined_at.unwrap();
            ensure!(k <= after + gap0.len() + g as usize + 3, "newcomer-late", "newcomer at #{nc} polled only after {} visits (GAP size {}, gap factor {})", k - after, gap0.len(), g);
            obs.label("newcomer-joined");
        }
    }
    if ns == ts {
        obs.label("alone");
    } else if (ns + 1) % hsa == ts {
        obs.label("ns=ts-1");
    } else if ns == hsa - 1 {
        obs.label("ns=hsa-1");
    }
    if ts == hsa - 1 {
        obs.label("ts=hsa-1");
    }
    if ts == 0 {
        obs.label("ts=0");
    }
    Ok(())
}

/// Triples in enumeration order for HSA <= max.
pub fn triple_by_index(mut i: u64) -> (u8, u8, u8) {
    // hsa from 1.. ; for each hsa: ts in 0..hsa, ns in 0..hsa
    let mut hsa = 1u64;
    loop {
        let n = hsa * hsa;
        if i < n {
            return ((i / hsa) as u8, (i % hsa) as u8, hsa as u8);
        }
        i -= n;
        hsa += 1;
    }
}
pub fn triples_up_to(max_hsa: u64) -> u64 {
    (1..=max_hsa).map(|h| h * h).sum()
}

// ---------------------------------------------------------------------------------------------
// status replies
// ---------------------------------------------------------------------------------------------

fn status_case(t: &mut Tape, obs: &mut Obs) -> CaseResult {
    let hsa = 6 + t.below(20) as u8;
    let ts = t.below(u64::from(hsa)) as u8;
    let mut ring: Vec<u8> = vec![];
    let n = 1 + t.below(3) as usize;
    let mut guard = 0;
    while ring.len() < n && guard < 100 {
        guard += 1;
        let a = t.below(u64::from(hsa)) as u8;
        if a != ts && !ring.contains(&a) {
            ring.push(a);
        }
    }
    if ring.is_empty() {
        ring.push((ts + 1) % hsa);
    }
    ring.sort();
    let mut w = World::new(ts, hsa, Baudrate::B1500000, 300, 10, None);
    w.step_us = 5;
    let mut pos = 0usize;
    let steps = 20 + t.below(60);
    // number of clean, consecutive token passes of the ring witnessed so far
    let mut clean_passes = 0usize;
    let mut wraps = 0usize;
    let (mut notready, mut ready, mut inring, mut foreign) = (0u64, 0u64, 0u64, 0u64);
    let mut stalled = 0u64;
    let mut restarts = 0u64;
    let mut ring_changes = 0u64;
    for _ in 0..steps {
        w.wait_idle(40, &mut ());
        if w.holds_token() || w.state_name() == "CheckTokenPass" {
            break; // the station got / claimed a token: other rules apply
        }
        if t.chance(1, 20) {
            // the station leaves the bus and comes back: it has to listen to two rotations again
            w.fdl.set_offline();
            w.step(w.bit_us(50));
            w.fdl.set_online();
            clean_passes = 0;
            wraps = 0;
            restarts += 1;
            continue;
        }
        if t.chance(1, 12) {
            // The station is not polled for more than a slot time while a status request for it and
            // then another telegram arrive: the requester has given up long ago, an answer now
            // would come (far) later than the slot time and hit somebody else's transaction.
            let ps = w.fdl.inspect_token_ring().previous_station();
            let requester = if t.bool() { *t.pick(&ring) } else { ps };
            if requester == ts {
                continue;
            }
            let idx = w.trace_len();
            w.bus.inject(ENV, w.now, &status_req(ts, requester));
            w.now = w.last_end_us() + w.bit_us(320 + t.below(200) as i64);
            let sa = ring[pos % ring.len()];
            let da = ring[(pos + 1) % ring.len()];
            let second = if t.bool() {
                pos += 1;
                clean_passes += 1;
                if da <= sa {
                    wraps += 1;
                }
                token(sa, da)
            } else {
                status_req((ts + 1) % hsa, requester)
            };
            w.bus.inject(ENV, w.now, &second);
            w.now = w.last_end_us() + 1;
            w.step(w.bit_us(400));
            let sent = w.frames_since(idx);
            ensure!(sent.is_empty(), "status-reply-late", "station answered a status request more than a slot time late, after another telegram had already followed it: {:?}", sent.iter().map(|x| x.1.clone()).collect::<Vec<_>>());
            stalled += 1;
            continue;
        }
        if ring.len() >= 2 && pos % ring.len() == ring.len() - 1 && t.chance(1, 6) {
            // the ring changes exactly at the wrap-around pass: the lowest station has left, the
            // highest one passes the token to the new lowest.
            // (a station whose list of active stations is already valid just updates it; the demand
            // below concerns a station that is still listening its way in)
            let was_ready = w.fdl.inspect_token_ring().ready_for_ring() || w.fdl.is_in_ring();
            ring.remove(0);
            let (sa, da) = (*ring.last().unwrap(), ring[0]);
            w.inject_now(&token(sa, da), &mut ());
            pos = 0;
            if was_ready {
                w.step(w.bit_us(5));
                continue;
            }
            // weakest sound demand: every pass of the next rotation of the new ring was already seen in
            // the rotation that ended with this pass, so one more complete rotation is needed (credit
            // for one rotation of the new ring is given)
            clean_passes = ring.len();
            wraps = 1;
            ring_changes += 1;
            w.step(w.bit_us(5));
            continue;
        }
        if t.chance(6, 10) {
            let sa = ring[pos % ring.len()];
            let da = ring[(pos + 1) % ring.len()];
            pos += 1;
            w.inject_now(&token(sa, da), &mut ());
            clean_passes += 1;
            if da <= sa {
                wraps += 1;
            }
            w.step(w.bit_us(5));
        } else {
            let ps = w.fdl.inspect_token_ring().previous_station();
            let requester = if t.bool() { *t.pick(&ring) } else { ps };
            let target = if t.chance(1, 4) { (ts + 1 + t.below(u64::from(hsa) - 1) as u8) % hsa } else { ts };
            if requester == ts {
                continue;
            }
            let in_ring = w.fdl.is_in_ring();
            let is_ready = w.fdl.inspect_token_ring().ready_for_ring();
            let idx = w.trace_len();
            w.inject_now(&status_req(target, requester), &mut ());
            let end_ns = w.bus.0.borrow().trace.last().unwrap().end_ns;
            w.step(w.bit_us(300));
            let sent = w.frames_since(idx + 1);
            if target != ts {
                ensure!(sent.is_empty(), "answered-foreign-request", "station #{ts} answered a status request addressed to #{target}: {:?}", sent.iter().map(|x| x.1.clone()).collect::<Vec<_>>());
                foreign += 1;
                continue;
            }
            ensure!(sent.len() == 1, "status-reply-count", "{} transmissions after a status request addressed to the station (in_ring={in_ring}, ready={is_ready})", sent.len());
            let (rec, f) = &sent[0];
            let delay_bits = (rec.start_ns - end_ns) * 1_500_000 / 1_000_000_000;
            ensure!(delay_bits <= 300, "status-reply-late", "status reply started {} bit times after the request (slot time 300)", delay_bits);
            let Some(RefFrame::Data { da, sa, fc, dsap: None, ssap: None, pdu }) = f else { fail!("status-reply-shape", "reply is {:?}", f) };
            ensure!(*da == requester && *sa == ts && pdu.is_empty() && !rc::fc_is_request(*fc), "status-reply-shape", "reply {:?} to a request from #{requester}", f);
            ensure!(fc & 0x0F == 0, "status-reply-shape", "reply status {:#x}", fc & 0x0F);
            let st = fc >> 4 & 3;
            // observer based rule (what the station itself claims, read before the request)
            let want = if in_ring { 3 } else if is_ready && requester == ps { 2 } else { 1 };
            ensure!(st == want, "status-reply-state", "reply reports state {} but {} is right (in_ring={in_ring}, ready_for_ring={is_ready}, requester #{requester}, predecessor #{ps}, ring {:?}, TS #{ts})", st, want, ring);
            // specification level rule, independent of the observers: 'ready' / 'in ring' need two
            // complete identical rotations witnessed (after the first wrap-around)
            if st >= 2 {
                ensure!(clean_passes >= 2 * ring.len() && wraps >= 2, "ready-too-early", "station reports state {} after witnessing only {} token passes ({} wrap-arounds) of a ring of {} stations", st, clean_passes, wraps, ring.len());
            }
            if st == 1 && requester == ps && clean_passes >= 3 * ring.len() + ring.len() && !ring.is_empty() {
                // after three clean rotations plus the one in which listening started it must be ready
                fail!("not-ready-too-long", "station still reports 'not ready' to its predecessor after witnessing {} consecutive clean token passes of a ring of {} stations", clean_passes, ring.len());
            }
            match st {
                1 => notready += 1,
                2 => ready += 1,
                _ => inring += 1,
            }
        }
    }
    obs.count("replies_not_ready", notready);
    obs.count("replies_ready", ready);
    obs.count("replies_in_ring", inring);
    obs.count("foreign_requests_ignored", foreign);
    obs.count("expired_requests_not_answered", stalled);
    if restarts > 0 {
        obs.label("left-the-bus-and-came-back");
    }
    if ring_changes > 0 {
        obs.label("ring-changed-at-the-wrap-around-pass");
    }
    if notready + ready + inring > 0 {
        obs.nontrivial(fingerprint(&(ts, hsa, &ring, notready, ready, inring)));
    }
    obs.sample(|| json!({"ts": ts, "hsa": hsa, "ring": ring, "replies": {"not_ready": notready, "ready": ready, "in_ring": inring}}));
    Ok(())
}

/// The reply to a GAP poll comes from another address than the polled one (a slow station whose
/// reply to the previous poll arrives now, a station with a wrong idea of its address): the polled
/// address did not report anything and must not become the successor.
/// `i`: bits 0..2 which poll (0..=2 during the scan after the claim, 3..=5 regular polls), bit 3: the
/// foreign reply reports 'master ready' / 'master in ring', bit 4: its source is the address polled
/// just before / an address behind the polled one.
fn foreign_reply_case(i: u64, obs: &mut Obs) -> CaseResult {
    const TS: u8 = 4;
    const SLOT: i64 = 300;
    let which = i % 6;
    let state = if i & 8 == 0 { 2 } else { 3 };
    let before = i & 16 == 0;
    let mut w = World::new(TS, 12, Baudrate::B1500000, SLOT as u16, 1, None);
    let mut seen = 0usize;
    let (mut scan_polls, mut regular_polls, mut own_tokens) = (0u64, 0u64, 0u64);
    let mut injected: Option<(u8, u8, i64)> = None; // polled, source, time
    let t_lost = w.bit_us((6 + 2 * i64::from(TS)) * SLOT);
    let t_end = 400 * w.bit_us(SLOT) + 60 * t_lost;
    while w.now < t_end {
        w.step(7);
        let recs = w.sent_since(seen);
        seen = w.trace_len();
        for r in recs {
            if r.sender != 0 {
                continue;
            }
            match rc::decode_one(&r.bytes) {
                Some(RefFrame::Token { da, .. }) => {
                    own_tokens += 1;
                    if let Some((polled, src, _)) = injected {
                        ensure!(da != polled, "successor-never-reported", "station #{TS} passes the token to #{polled}, which never answered: the only reply to that poll came from #{src}");
                    }
                }
                Some(RefFrame::Data { fc: 0x49, da, dsap: None, ssap: None, .. }) if injected.is_none() => {
                    let idx = if own_tokens > 2 {
                        regular_polls += 1;
                        3 + (regular_polls - 1)
                    } else {
                        scan_polls += 1;
                        if scan_polls <= 3 { scan_polls - 1 } else { u64::MAX }
                    };
                    if idx == which {
                        let end = (r.end_ns + 999) / 1000;
                        let src = if before { (da + 11) % 12 } else { (da + 2) % 12 };
                        let src = if src == TS { (src + 11) % 12 } else { src };
                        while w.now < end + w.bit_us(40) {
                            w.step(7);
                        }
                        w.bus.inject(ENV, w.now, &status_resp(TS, src, state));
                        injected = Some((da, src, w.now));
                        seen = w.trace_len();
                    }
                }
                _ => {}
            }
        }
        if let Some((_, _, at)) = injected {
            if w.now > at + 6 * t_lost {
                break;
            }
        }
    }
    if injected.is_none() {
        obs.label("poll-not-reached");
        return Ok(());
    }
    obs.label(if which < 3 { "during-claim-scan" } else { "during-regular-poll" });
    obs.nontrivial(i);
    obs.sample(|| json!({"polled": injected.map(|x| x.0), "reply_from": injected.map(|x| x.1), "reports": if state == 2 { "master ready" } else { "master in ring" }}));
    Ok(())
}

fn gap_index_case(i: u64, gsel: u64, obs: &mut Obs) -> CaseResult {
    let (ts, ns, hsa) = triple_by_index(i / 2);
    if hsa < 2 {
        return Ok(());
    }
    let g = if i % 2 == 0 { 1 } else { [3u8, 2, 5, 10, 30, 100][(gsel % 6) as usize] };
    obs.nontrivial(i);
    if i % 997 == 0 {
        obs.sample(|| json!({"ts": ts, "ns": ns, "hsa": hsa, "gap_factor": g, "gap": gap_set(ts, ns, hsa)}));
    }
    gap_case(ts, ns, hsa, g, None, obs)
}

pub fn property() -> Property {
    Property {
        id: "C12",
        rule: "cases: (a) one real station TS without applications whose successor NS is played by the environment (answers the GAP poll as ready master, holds the token, returns it): ALL (TS, NS, HSA) triples with HSA <= 40 (quick) / <= 126 (thorough), each with gap factor 1 and a second factor from {3, 2, 5, 10, 30, 100}; generated cases with a newcomer appearing inside the GAP mid-sweep; all triples with HSA <= 14 (quick) / 30 (thorough) with a single stray character reaching the station between the poll in which it decided to pass the token on and its next poll. Oracle: status requests sent by the FDL go only to addresses strictly inside the cyclic interval (TS, NS) below HSA, never TS, NS or beyond; the post-claim scan polls the whole GAP at once up to the first responding master; afterwards at most one poll per token visit, targets ascend cyclically, a pause of G..G+2 visits between sweeps, every GAP address is swept, a ready newcomer becomes successor and gets the next token within |GAP|+G+3 visits. (b) status replies: generated listening / in-ring histories (token passes of a ring of 1..3 other stations, requests to TS and to other addresses from the predecessor and from others): replies only to requests addressed to TS, within the slot time, exactly one, state = in-ring iff is_in_ring(), else ready iff ready_for_ring() and the requester is the predecessor, else not ready; and, independent of the observers, never ready/in-ring before two complete rotations were witnessed, and ready to the predecessor after four. Non-trivial = every GAP case / every status case with at least one reply.",
        assumptions: vec![
            "application traffic is absent in this check (the property speaks about the station's own GAP maintenance)",
            "gap_stray: a single stray character on the bus is no reason to skip, repeat or postpone a GAP poll; the sweep rules are applied unchanged",
            "N5 (DESIGN 7): a listening station that is ready moves to ActiveIdle after answering and then reports 'in ring' before it ever held the token; the oracle is phrased on is_in_ring(), which is what the station itself claims",
        ],
        subchecks: vec![
            SubCheck::index("gap_triples", "all (TS, NS, HSA) triples, two gap factors each", |i, obs| gap_index_case(i, i / 7, obs)),
            SubCheck::index("gap_stray", "as gap_triples (HSA <= 14, gap factors 1 and 3) with a single stray character reaching the station between the poll in which it decided to pass the token on and its next poll (in every visit, or in every third): the sweep and the pause are what they are without it", |i, obs| {
                let (ts, ns, hsa) = triple_by_index(i / 4);
                if hsa < 2 {
                    return Ok(());
                }
                let g = if i % 2 == 0 { 1 } else { 3 };
                let sel = if (i / 2) % 2 == 0 { (1, 0) } else { (3, 1) };
                obs.nontrivial(i);
                if i % 499 == 0 {
                    obs.sample(|| json!({"ts": ts, "ns": ns, "hsa": hsa, "gap_factor": g, "stray_character_in_visits": format!("v % {} == {}", sel.0, sel.1)}));
                }
                let _guard = StrayGuard;
                STRAY.with(|s| s.set(Some(sel)));
                gap_case(ts, ns, hsa, g, None, obs)
            }),
            SubCheck::tape("gap_newcomer", "a master that reports to be ready (or, dropped from the ring without having noticed, to be in the ring) appears inside the GAP after some visits", |t, obs| {
                let hsa = 3 + t.below(30) as u8;
                let ts = t.below(u64::from(hsa)) as u8;
                let ns = t.below(u64::from(hsa)) as u8;
                let g = 1 + t.below(6) as u8;
                let gap = gap_set(ts, ns, hsa);
                if gap.is_empty() {
                    return gap_case(ts, ns, hsa, g, None, obs);
                }
                let nc = *t.pick(&gap);
                let after = t.below((gap.len() + g as usize + 3) as u64) as usize;
                const HOW: [&str; 4] = ["answers the poll: master ready", "answers the poll: master in ring", "never answers; a token pass newcomer -> successor is witnessed", "answers every poll with 'master ready' but never takes the token"];
                let mode = t.weighted(&[3, 2, 2, 2]);
                // without a partner there is nobody whose token pass could be witnessed
                let mode = if mode == 2 && ns == ts { 0 } else { mode };
                if mode == 1 {
                    obs.label("newcomer-reports-in-ring");
                }
                obs.nontrivial(fingerprint(&(ts, ns, hsa, g, nc, after, mode)));
                obs.sample(|| json!({"ts": ts, "ns": ns, "hsa": hsa, "gap_factor": g, "newcomer": nc, "appears_after_visits": after, "how": HOW[mode]}));
                gap_case(ts, ns, hsa, g, Some((nc, after | [0, NEWCOMER_IN_RING, NEWCOMER_WITNESSED, NEWCOMER_ZOMBIE][mode])), obs)
            }),
            SubCheck::index("foreign_reply", "the reply to a GAP poll carries another source address than the polled one: the polled address must not become the successor (24 constructed scenarios)", foreign_reply_case),
            SubCheck::tape("gap_under_load", "rings whose stations run applications that never decline, with a small target rotation time: every window of G+4 consecutive token visits contains a GAP poll", crate::props::traffic::gap_under_load_case),
            SubCheck::tape("gap_passive", "passive stations (DP slaves) inside the GAP answer the polls with 'slave': same sweep rules, one poll per visit, nobody adopted", |t, obs| {
                let hsa = 3 + t.below(30) as u8;
                let ts = t.below(u64::from(hsa)) as u8;
                let ns = t.below(u64::from(hsa)) as u8;
                let g = 1 + t.below(5) as u8;
                let gap = gap_set(ts, ns, hsa);
                let mut passive = vec![];
                for a in &gap {
                    if t.chance(1, 3) {
                        passive.push(*a);
                    }
                }
                if passive.is_empty() && !gap.is_empty() {
                    passive.push(gap[0]);
                }
                obs.nontrivial(fingerprint(&(ts, ns, hsa, g, &passive)));
                if passive.windows(2).any(|w| w[1] == w[0] + 1) {
                    obs.label("adjacent-passive-stations");
                }
                obs.sample(|| json!({"ts": ts, "ns": ns, "hsa": hsa, "gap_factor": g, "passive_stations_in_gap": passive}));
                gap_case_full(ts, ns, hsa, g, None, None, &passive, obs)
            }),
            SubCheck::tape("gap_reclaim", "the token is lost after some visits (mid-sweep or during the pause): after the re-claim the whole GAP must be polled at once again", |t, obs| {
                let hsa = 3 + t.below(24) as u8;
                let ts = t.below(u64::from(hsa)) as u8;
                let mut ns = t.below(u64::from(hsa)) as u8;
                if ns == ts {
                    ns = (ts + 1 + t.below(u64::from(hsa) - 1) as u8) % hsa;
                }
                let g = 1 + t.below(5) as u8;
                let glen = gap_set(ts, ns, hsa).len();
                let after = 1 + t.below((2 * (glen + g as usize + 3)) as u64) as usize;
                // passive stations inside the GAP answer as slaves: the scan after the re-claim must not
                // stop at them
                let mut passive = vec![];
                for a in gap_set(ts, ns, hsa) {
                    if t.chance(1, 4) {
                        passive.push(a);
                    }
                }
                if !passive.is_empty() {
                    obs.label("with-passive-stations");
                }
                obs.nontrivial(fingerprint(&(ts, ns, hsa, g, after, &passive)));
                obs.sample(|| json!({"ts": ts, "ns": ns, "hsa": hsa, "gap_factor": g, "token_lost_after_visits": after, "passive_stations": passive}));
                gap_case_full(ts, ns, hsa, g, None, Some(after), &passive, obs)
            }),
            SubCheck::tape("status_replies", "listening / in-ring histories with status requests", status_case),
        ],
        plan: |tier| match tier {
            Tier::Quick => vec![
                Step::Enumerate { kind: "gap_triples", count: 2 * triples_up_to(40) },
                Step::Enumerate { kind: "gap_stray", count: 4 * triples_up_to(14) },
                Step::Pbt { kind: "gap_newcomer", cases: 3000, max_len: 16 },
                Step::Enumerate { kind: "foreign_reply", count: 24 },
                Step::Pbt { kind: "gap_under_load", cases: 400, max_len: 120 },
                Step::Pbt { kind: "gap_passive", cases: 3000, max_len: 48 },
                Step::Pbt { kind: "gap_reclaim", cases: 3000, max_len: 48 },
                Step::Pbt { kind: "status_replies", cases: 12_000, max_len: 260 },
            ],
            Tier::Thorough => vec![
                Step::Enumerate { kind: "gap_triples", count: 2 * triples_up_to(126) },
                Step::Enumerate { kind: "gap_stray", count: 4 * triples_up_to(30) },
                Step::Pbt { kind: "gap_newcomer", cases: 20_000, max_len: 16 },
                Step::Enumerate { kind: "foreign_reply", count: 24 },
                Step::Pbt { kind: "gap_under_load", cases: 4000, max_len: 120 },
                Step::Pbt { kind: "gap_passive", cases: 20_000, max_len: 48 },
                Step::Pbt { kind: "gap_reclaim", cases: 20_000, max_len: 48 },
                Step::Pbt { kind: "status_replies", cases: 100_000, max_len: 260 },
            ],
        },
        hang_is_violation: true,
        hang_limit_s: 120,
        probes: vec![],
    }
}
