//! C02 Token ring forms and all stations agree on the list of active stations.
use crate::engine::*;
use crate::ringsim::*;
use crate::{ensure, fail};
use serde_json::json;

/// Run until convergence + stability window; judge against T_conv.
pub fn converge_case(cfg: &RingCfg, sim: &mut Sim, obs: &mut Obs) -> CaseResult {
    let expect = cfg.sorted_addrs();
    let pop_stable_at = cfg.stations.iter().map(|s| s.online_at_us).max().unwrap_or(0);
    let deadline = pop_stable_at + t_conv_us(cfg);
    let n = cfg.stations.len();
    let rot = rotation_bound_us(cfg, n);
    let window = 3 * (i64::from(cfg.gap) + 2 + i64::from(cfg.hsa)) * rot;
    let mut converged_at: Option<i64> = None;
    let mut last_check = -(1i64 << 60);
    let slot = cfg.slot_us();
    loop {
        let Some(tn) = sim.next_time() else { break };
        if let Some(c) = converged_at {
            if tn > c + window {
                break;
            }
        } else if tn > deadline {
            // not converged in time: report the state
            let why = agreement(sim, &expect).err().unwrap_or_default();
            fail!("not-converged", "no agreement on the LAS {:?} within T_conv = {} Tslot after the population became stable: {}", expect, t_conv_us(cfg) / slot, why);
        }
        let ev = sim.step();
        let Some(Event::Polled(_)) = ev else { continue };
        if sim.now < pop_stable_at {
            continue;
        }
        match converged_at {
            None => {
                if sim.now - last_check >= slot {
                    last_check = sim.now;
                    if agreement(sim, &expect).is_ok() {
                        converged_at = Some(sim.now);
                    }
                }
            }
            Some(c) => {
                if let Err(e) = agreement(sim, &expect) {
                    fail!("agreement-lost", "agreement reached at {} us is lost at {} us (population unchanged since {} us): {}", c, sim.now, pop_stable_at, e);
                }
            }
        }
    }
    let Some(c) = converged_at else {
        fail!("not-converged", "simulation ended without agreement");
    };
    // token order over the stability window (skip one rotation after the convergence instant)
    let b = sim.bus.0.borrow();
    let passes = token_order_ok(&b.trace, (c + rot) * 1000, &expect).map_err(|e| Failure::new("token-order", format!("after convergence at {} us: {}", c, e)))?;
    ensure!(passes as usize >= 2 * n, "token-order", "only {} token passes in the stability window of {} us", passes, window);
    obs.count("converged_after_slots", ((c - pop_stable_at) / slot).max(0) as u64);
    obs.count("t_conv_slots", (t_conv_us(cfg) / slot) as u64);
    Ok(())
}

fn join_case(t: &mut Tape, obs: &mut Obs, max_hsa_extra: u64) -> CaseResult {
    let cfg = gen_ring_cfg(t, &GenOpts { min_n: 2, max_n: 5, max_hsa_extra, late_joiners: true });
    let mut sim = Sim::new(cfg.clone(), 0);
    let sorted = cfg.sorted_addrs();
    converge_case(&cfg, &mut sim, obs)?;
    if sorted.contains(&(cfg.hsa - 1)) {
        obs.label("station-at-hsa-1");
    }
    if sorted.contains(&0) {
        obs.label("address-0");
    }
    if sorted.windows(2).any(|w| w[1] == w[0] + 1) {
        obs.label("station-at-ts-1");
    }
    if cfg.stations.len() == 2 {
        obs.label("two-station-ring");
    }
    let late: Vec<i64> = cfg.stations.iter().map(|s| s.online_at_us).filter(|o| *o > cfg.slot_us()).collect();
    if !late.is_empty() {
        obs.label("late-joiner");
        let mut l = late.clone();
        l.sort();
        if l.windows(2).any(|w| w[0] == w[1]) {
            obs.label("simultaneous-joiners");
        }
    }
    obs.label(&format!("schedule-{:?}", cfg.schedule));
    // non-trivial: at least one station joined through a GAP poll (always the case for n >= 2: only one station claims)
    obs.nontrivial(fingerprint(&(format!("{:?}", cfg.baud), &sorted, cfg.hsa, cfg.gap, cfg.slot_bits, format!("{:?}", cfg.schedule), late.len())));
    obs.sample(|| json!({"config": cfg.describe()}));
    Ok(())
}

pub fn property() -> Property {
    Property {
        id: "C02",
        rule: "cases: fault-free rings as in C01 (explicitly biased to a station at HSA-1, at TS-1 of another, address 0, two-station rings; cold start, late joiners, several joiners at the same instant). After the population stops changing the run must reach, within T_conv (DESIGN 5.4), an instant from which on after EVERY poll every station is in the ring, its LAS equals the sorted set of online addresses and NS/PS are its cyclic neighbours; this must hold through a stability window of 3(G+2+HSA) rotations in which the token frames on the trace follow the ascending cyclic order without retry or skipped station. Non-trivial = every case (all contain a station that joins through a GAP poll); distinct by (baud, addresses, HSA, G, Tslot, schedule, number of late joiners).",
        assumptions: vec![
            "T_conv = 4[(6+2 a_max) Tslot + HSA (2 Tslot + 100 bit) + N (HSA+G+6) R], R = N (4 Tslot + 150 bit + 8 P) - generous by construction (measured margin >= 3x, see counters converged_after_slots vs t_conv_slots)",
            "poll period cap and cold-start exclusions as in C01",
        ],
        subchecks: vec![
            SubCheck::tape("join", "random join histories, HSA up to N+1+20", |t, obs| join_case(t, obs, 20)),
            SubCheck::tape("join_wide", "random join histories, HSA up to N+1+120", |t, obs| join_case(t, obs, 120)),
        ],
        plan: |tier| match tier {
            Tier::Quick => vec![Step::Pbt { kind: "join", cases: 240, max_len: 64 }],
            Tier::Thorough => vec![
                Step::Pbt { kind: "join", cases: 4000, max_len: 64 },
                Step::Pbt { kind: "join_wide", cases: 600, max_len: 64 },
            ],
        },
        hang_is_violation: false,
        hang_limit_s: 900,
        probes: vec![],
    }
}
