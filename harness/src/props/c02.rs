//! C02 Token ring forms and all stations agree on the list of active stations.
use crate::engine::*;
use crate::ringsim::*;
use crate::{ensure, fail};
use serde_json::json;

/// Run until convergence + stability window; judge against T_conv.
pub fn converge_case(cfg: &RingCfg, sim: &mut Sim, obs: &mut Obs) -> CaseResult {
    converge_case_leave(cfg, sim, None, obs)
}

/// `leave`: station index and instant at which it leaves the bus for good (the last change of the
/// population); the bound then counts from there, plus the time the others need to notice a token
/// that left with it.
pub fn converge_case_leave(cfg: &RingCfg, sim: &mut Sim, leave: Option<(usize, i64)>, obs: &mut Obs) -> CaseResult {
    converge_case_rejoin(cfg, sim, leave, None, obs)
}

/// `rejoin`: the station that left is switched on again that many microseconds later (set_offline,
/// set_online, empty receive buffer): it joins like any other late joiner.
pub fn converge_case_rejoin(cfg: &RingCfg, sim: &mut Sim, leave: Option<(usize, i64)>, rejoin: Option<i64>, obs: &mut Obs) -> CaseResult {
    let mut expect = cfg.sorted_addrs();
    let mut pop_stable_at = cfg.stations.iter().map(|s| s.online_at_us).max().unwrap_or(0);
    let mut extra = 0;
    if let Some((k, at)) = leave {
        if rejoin.is_none() {
            expect.retain(|a| *a != cfg.stations[k].addr);
        }
        pop_stable_at = pop_stable_at.max(at + rejoin.unwrap_or(0));
        let a_max = i64::from(*expect.last().unwrap());
        extra = 2 * (6 + 2 * a_max) * cfg.slot_us() + 3 * (cfg.slot_us() + cfg.bits_us(100));
    }
    let mut left = false;
    let mut back = false;
    let deadline = pop_stable_at + t_conv_us(cfg) + extra;
    let n = expect.len();
    let rot = rotation_bound_us(cfg, n);
    let window = 3 * (i64::from(cfg.gap) + 2 + i64::from(cfg.hsa)) * rot;
    let mut converged_at: Option<i64> = None;
    let mut last_check = -(1i64 << 60);
    let slot = cfg.slot_us();
    loop {
        let Some(tn) = sim.next_time() else { break };
        if let Some(c) = converged_at {
            if tn > c + window {
                break;
            }
        } else if tn > deadline {
            // not converged in time: report the state
            let why = agreement(sim, &expect).err().unwrap_or_default();
            fail!("not-converged", "no agreement on the LAS {:?} within T_conv = {} Tslot after the population became stable: {}", expect, t_conv_us(cfg) / slot, why);
        }
        if let Some((k, at)) = leave {
            if !left && tn >= at {
                sim.stop_station(k);
                left = true;
            }
            if let (true, false, Some(d)) = (left, back, rejoin) {
                if tn >= at + d {
                    sim.restart_station(k, at + d);
                    back = true;
                }
            }
        }
        let ev = sim.step();
        let Some(Event::Polled(_)) = ev else { continue };
        if sim.now < pop_stable_at {
            continue;
        }
        if let (Some((k, _)), Some(_)) = (leave, rejoin) {
            // the population is complete when the station that was switched on again runs
            if !back || !sim.nodes[k].started {
                continue;
            }
        }
        match converged_at {
            None => {
                if sim.now - last_check >= slot {
                    last_check = sim.now;
                    if agreement(sim, &expect).is_ok() {
                        converged_at = Some(sim.now);
                    }
                }
            }
            Some(c) => {
                if let Err(e) = agreement(sim, &expect) {
                    fail!("agreement-lost", "agreement reached at {} us is lost at {} us (population unchanged since {} us): {}", c, sim.now, pop_stable_at, e);
                }
            }
        }
    }
    let Some(c) = converged_at else {
        fail!("not-converged", "simulation ended without agreement");
    };
    // token order over the stability window (skip one rotation after the convergence instant)
    let b = sim.bus.0.borrow();
    if n >= 2 {
        let passes = token_order_ok(&b.trace, (c + rot) * 1000, &expect).map_err(|e| Failure::new("token-order", format!("after convergence at {} us: {}", c, e)))?;
        ensure!(passes as usize >= 2 * n, "token-order", "only {} token passes in the stability window of {} us", passes, window);
    }
    obs.count("converged_after_slots", ((c - pop_stable_at) / slot).max(0) as u64);
    obs.count("t_conv_slots", (t_conv_us(cfg) / slot) as u64);
    Ok(())
}

fn join_case(t: &mut Tape, obs: &mut Obs, max_hsa_extra: u64) -> CaseResult {
    let cfg = gen_ring_cfg(t, &GenOpts { min_n: 2, max_n: 5, max_hsa_extra, late_joiners: true });
    let mut sim = Sim::new(cfg.clone(), 1);
    let passive = crate::apps::add_passive_peers(&mut sim, t);
    if passive.iter().any(|a| *a < cfg.hsa) {
        obs.label("passive-stations-inside-gap");
    }
    let sorted = cfg.sorted_addrs();
    // in a quarter of the cases one station - possibly the only ring member while the others are still
    // listening their way in - leaves for good; the population is stable from then on
    let leave = if !t.chance(3, 4) {
        let latest = cfg.stations.iter().map(|s| s.online_at_us).max().unwrap_or(0);
        // often the station that was there first, shortly after the last joiner has come online (it may
        // be ready by then but not yet polled)
        let first = (0..cfg.stations.len()).min_by_key(|i| cfg.stations[*i].online_at_us).unwrap();
        let k = if t.bool() { first } else { t.below(cfg.stations.len() as u64) as usize };
        let at = if t.bool() { latest + cfg.slot_us() * (2 + t.below(80) as i64) } else { (latest - cfg.slot_us() * 50).max(0) + cfg.slot_us() * t.below(600) as i64 };
        obs.label("a-station-leaves-for-good");
        Some((k, at))
    } else {
        None
    };
    // ... or, now and then, is switched off and on again: after a few slot times (its predecessor
    // may still be repeating the token pass to it) or after a longer while
    let rejoin = if leave.is_some() && !t.chance(2, 3) {
        obs.label("the-station-that-left-is-switched-on-again");
        Some(if t.bool() { cfg.slot_us() * (1 + t.below(12) as i64) / 4 } else { cfg.slot_us() * (1 + t.below(400) as i64) })
    } else {
        None
    };
    converge_case_rejoin(&cfg, &mut sim, leave, rejoin, obs)?;
    if sorted.contains(&(cfg.hsa - 1)) {
        obs.label("station-at-hsa-1");
    }
    if sorted.contains(&0) {
        obs.label("address-0");
    }
    if sorted.windows(2).any(|w| w[1] == w[0] + 1) {
        obs.label("station-at-ts-1");
    }
    if cfg.stations.len() == 2 {
        obs.label("two-station-ring");
    }
    let late: Vec<i64> = cfg.stations.iter().map(|s| s.online_at_us).filter(|o| *o > cfg.slot_us()).collect();
    if !late.is_empty() {
        obs.label("late-joiner");
        let mut l = late.clone();
        l.sort();
        if l.windows(2).any(|w| w[0] == w[1]) {
            obs.label("simultaneous-joiners");
        }
    }
    obs.label(&format!("schedule-{:?}", cfg.schedule));
    // non-trivial: at least one station joined through a GAP poll (always the case for n >= 2: only one station claims)
    obs.nontrivial(fingerprint(&(format!("{:?}", cfg.baud), &sorted, cfg.hsa, cfg.gap, cfg.slot_bits, format!("{:?}", cfg.schedule), late.len())));
    obs.sample(|| json!({"config": cfg.describe(), "passive_stations": passive}));
    Ok(())
}

// ---------------------------------------------------------------------------------------------
// LAS of a listening station against a specification-level model
// ---------------------------------------------------------------------------------------------

const LTS: u8 = 4;

/// Feed a listening station (it never gets to claim: tokens keep arriving) with the token passes
/// `passes` and judge its view of the ring after every pass.  `chained`: consecutive passes form a
/// walk (da of one = sa of the next), so complete rotations can be compared pass by pass.
fn las_case(passes: &[(u8, u8)], chained: bool, obs: &mut Obs) -> CaseResult {
    use crate::envsim::*;
    let mut w = World::new(LTS, 16, profirust::Baudrate::B1500000, 300, 10, None);
    w.step_us = 9;
    w.step(30);
    // rotations: lists of valid passes, closed by a wrap-around pass (da <= sa)
    let mut rotations: Vec<Vec<(u8, u8)>> = vec![];
    let mut cur: Vec<(u8, u8)> = vec![];
    let mut wraps = 0usize;
    let mut was_ready = false;
    for (i, (sa, da)) in passes.iter().enumerate() {
        w.inject(&token(*sa, *da), &mut ());
        w.step(20);
        let tr = w.fdl.inspect_token_ring();
        let las: Vec<u8> = tr.iter_active_stations().collect();
        let ready = tr.ready_for_ring();
        let ctx = || format!("after pass #{} {}->{} of {:?}: LAS {:?}, ready {}, NS {}, PS {}", i, sa, da, passes, las, ready, tr.next_station(), tr.previous_station());
        ensure!(!w.fdl.is_in_ring() || w.state_name() == "ActiveIdle", "listener-took-token", "listening station left ListenToken: {}", ctx());
        ensure!(w.sent_since(0).is_empty(), "listener-transmitted", "a station that is merely listening transmitted: {}", ctx());
        let valid = *sa <= 125 && *da <= 125;
        if valid {
            cur.push((*sa, *da));
            if da <= sa {
                wraps += 1;
                if wraps >= 2 {
                    rotations.push(std::mem::take(&mut cur));
                } else {
                    cur.clear(); // what came before the first wrap-around is not a rotation
                }
            }
        }
        // (1) readiness needs two complete identical rotations after the first wrap-around
        if ready && !was_ready {
            ensure!(wraps >= 3, "ready-too-early", "ready_for_ring() after {} wrap-arounds only: {}", wraps, ctx());
            if chained {
                // Reading of 'two identical rotations' that tolerates stations leaving at a rotation
                // boundary: the last complete rotation B is a closed cycle in ascending order, every
                // pass of it was already witnessed in the rotation before, and the LAS is exactly
                // the set of stations passing the token in B.
                let n = rotations.len();
                ensure!(n >= 2, "ready-without-identical-rotations", "ready_for_ring() after a single complete rotation: {}", ctx());
                let (a, b) = (&rotations[n - 2], &rotations[n - 1]);
                let closed = b.windows(2).all(|w| w[0].1 == w[1].0) && b.last().map(|l| l.1) == b.first().map(|f| f.0);
                ensure!(closed, "ready-without-identical-rotations", "ready_for_ring() although the last rotation {:?} is not a closed cycle: {}", b, ctx());
                ensure!(b.iter().all(|p| a.contains(p)), "ready-without-identical-rotations", "ready_for_ring() although the last rotation {:?} contains a pass that was not witnessed in the rotation before {:?}: {}", b, a, ctx());
                let mut src: Vec<u8> = b.iter().map(|p| p.0).filter(|x| *x != LTS).collect();
                src.sort();
                src.dedup();
                let others: Vec<u8> = las.iter().copied().filter(|x| *x != LTS).collect();
                ensure!(src == others, "ready-with-wrong-las", "ready_for_ring() with LAS {:?} but the stations passing the token in the last rotation are {:?}: {}", others, src, ctx());
            }
            obs.label("became-ready");
        }
        // ... and three identical complete rotations in a row are enough
        if chained && !ready {
            let n = rotations.len();
            if n >= 3 && rotations[n - 1] == rotations[n - 2] && rotations[n - 2] == rotations[n - 3] && cur.is_empty() && !rotations[n - 1].iter().any(|(a, b)| *a == LTS || *b == LTS) {
                fail!("not-ready-after-three-rotations", "three identical complete rotations witnessed but ready_for_ring() is still false: {}", ctx());
            }
        }
        was_ready = ready;
        // (2) once ready: the source of a witnessed pass is in the LAS and nobody between source and destination
        if ready && valid {
            ensure!(las.contains(sa), "las-missing-source", "the station that just passed the token is not in the LAS: {}", ctx());
            let between = |x: u8| if da > sa { x > *sa && x < *da } else { x > *sa || x < *da };
            if let Some(x) = las.iter().find(|x| between(**x) && **x != LTS) {
                fail!("las-stale-station", "station #{} lies between source and destination of the witnessed pass but is still in the LAS: {}", x, ctx());
            }
        }
        // (4) NS / PS are the cyclic neighbours of TS in the LAS
        // (a listening station is not part of the ring, so its own address may be absent)
        let others: Vec<u8> = las.iter().copied().filter(|a| *a != LTS).collect();
        let ns = others.iter().copied().find(|a| *a > LTS).or(others.first().copied()).unwrap_or(LTS);
        let ps = others.iter().rev().copied().find(|a| *a < LTS).or(others.last().copied()).unwrap_or(LTS);
        ensure!(tr.next_station() == ns && tr.previous_station() == ps, "neighbours", "NS/PS are not the cyclic neighbours of the own address in the LAS: {}", ctx());
        ensure!(las.iter().all(|a| *a <= 125), "las-invalid-address", "invalid address in the LAS: {}", ctx());
    }
    Ok(())
}

const LAS_ALPHABET: [u8; 5] = [1, 3, 6, 9, 200];

fn las_walk(i: u64, len: u32, obs: &mut Obs) -> CaseResult {
    // chained walk: start address + len further addresses
    let mut code = i;
    let mut addrs = vec![];
    for _ in 0..=len {
        addrs.push(LAS_ALPHABET[(code % 5) as usize]);
        code /= 5;
    }
    let passes: Vec<(u8, u8)> = addrs.windows(2).map(|w| (w[0], w[1])).collect();
    obs.nontrivial(i);
    if i % 40_009 == 0 {
        obs.sample(|| json!({"listening_station": LTS, "token_passes": passes.iter().map(|(a, b)| format!("{a}->{b}")).collect::<Vec<_>>()}));
    }
    // passes with an invalid address are ignored by the station, which breaks the walk
    let chained = addrs.iter().all(|a| *a <= 125);
    las_case(&passes, chained, obs)
}

fn las_random(t: &mut Tape, obs: &mut Obs) -> CaseResult {
    // rotations of a random ring started at a random point, with occasional disturbances
    let n = 1 + t.below(5) as usize;
    let mut ring: Vec<u8> = vec![];
    let mut guard = 0;
    while ring.len() < n {
        guard += 1;
        let mut a = t.below(16) as u8;
        if guard > 8 {
            // exhausted tape: take the first free address
            a = (0..16).find(|x| *x != LTS && !ring.contains(x)).unwrap();
        }
        if a != LTS && !ring.contains(&a) {
            ring.push(a);
        }
    }
    ring.sort();
    let mut pos = t.below(n as u64) as usize;
    let len = 4 + t.below(56) as usize;
    let mut passes = vec![];
    let mut chained = true;
    for _ in 0..len {
        let sa = ring[pos % n];
        let da = ring[(pos + 1) % n];
        pos += 1;
        match t.below(12) {
            0 => {
                // a station skips its successor / a stray pass
                passes.push((sa, ring[(pos + 1) % n]));
                pos += 1;
            }
            1 => {
                passes.push((*t.pick(&[200u8, 126, 127, 255]), da));
                chained = false;
            }
            2 => {
                passes.push((t.below(16) as u8, t.below(16) as u8));
                chained = false;
            }
            _ => passes.push((sa, da)),
        }
    }
    let passes: Vec<(u8, u8)> = passes.into_iter().filter(|(s, _)| *s != LTS).collect();
    // chained only if really a walk
    let chained = chained && passes.windows(2).all(|w| w[0].1 == w[1].0);
    obs.nontrivial(fingerprint(&passes));
    obs.label(if chained { "chained-walk" } else { "with-stray-passes" });
    obs.sample(|| json!({"ring": ring, "token_passes": passes.iter().map(|(a, b)| format!("{a}->{b}")).collect::<Vec<_>>()}));
    las_case(&passes, chained, obs)
}

pub fn property() -> Property {
    Property {
        id: "C02",
        rule: "cases: fault-free rings as in C01 (explicitly biased to a station at HSA-1, at TS-1 of another, address 0, two-station rings; cold start, late joiners, several joiners at the same instant; in a quarter of the join cases a station leaves for good, in a third of those it is switched on again after a few slot times or a long while). After the population stops changing the run must reach, within T_conv (DESIGN 5.4), an instant from which on after EVERY poll every station is in the ring, its LAS equals the sorted set of online addresses and NS/PS are its cyclic neighbours; this must hold through a stability window of 3(G+2+HSA) rotations in which the token frames on the trace follow the ascending cyclic order without retry or skipped station. Non-trivial = every case (all contain a station that joins through a GAP poll); distinct by (baud, addresses, HSA, G, Tslot, schedule, number of late joiners).",
        assumptions: vec![
            "T_conv = 4[(6+2 a_max) Tslot + HSA (2 Tslot + 100 bit) + N (HSA+G+6) R], R = N (4 Tslot + 150 bit + 8 P) - generous by construction (measured margin >= 3x, see counters converged_after_slots vs t_conv_slots)",
            "poll period cap and cold-start exclusions as in C01",
        ],
        subchecks: vec![
            SubCheck::tape("join", "random join histories, HSA up to N+1+20", |t, obs| join_case(t, obs, 20)),
            SubCheck::tape("join_wide", "random join histories, HSA up to N+1+120", |t, obs| join_case(t, obs, 120)),
            SubCheck::index("las_walks7", "LAS of a listening station vs a specification-level model: ALL chained walks of 7 token passes over the addresses {1, 3, 6, 9, 200}", |i, obs| las_walk(i, 7, obs)),
            SubCheck::index("las_walks9", "the same with 9 token passes", |i, obs| las_walk(i, 9, obs)),
            SubCheck::tape("las_random", "rotations of random rings (up to 60 passes) with skipped stations, invalid addresses and stray passes", las_random),
        ],
        plan: |tier| match tier {
            Tier::Quick => vec![
                Step::Enumerate { kind: "las_walks7", count: 5u64.pow(8) },
                Step::Pbt { kind: "las_random", cases: 3000, max_len: 140 },
                Step::Pbt { kind: "join", cases: 640, max_len: 64 },
            ],
            Tier::Thorough => vec![
                Step::Enumerate { kind: "las_walks9", count: 5u64.pow(10) },
                Step::Pbt { kind: "las_random", cases: 200_000, max_len: 140 },
                Step::Pbt { kind: "join", cases: 4000, max_len: 64 },
                Step::Pbt { kind: "join_wide", cases: 600, max_len: 64 },
            ],
        },
        hang_is_violation: false,
        hang_limit_s: 900,
        probes: vec![],
    }
}
