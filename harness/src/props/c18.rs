//! C18 Live list and DP scanner converge to the stations actually on the bus.
use crate::apps::*;
use crate::engine::*;
use crate::refcodec::{self as rc, RefFrame};
use crate::ringsim::*;
use crate::ensure;
use profirust::dp::scan::{DpScanEvent, DpScanner};
use profirust::fdl::live_list::{LiveList, StationEvent};
use profirust::fdl::{FdlActiveStation, FdlApplication, HighPrioOnly, Telegram, TelegramTx, TelegramTxResponse};
use profirust::time::Instant;
use serde_json::json;
use std::cell::{Cell, RefCell};
use std::collections::{BTreeMap, BTreeSet};
use std::rc::Rc;

/// Thin wrapper that delegates to the unmodified application and counts the requests it issues
/// (the FDL's own GAP polls look the same on the wire).
struct Counting<A: FdlApplication> {
    inner: Rc<RefCell<A>>,
    requests: Rc<Cell<u64>>,
}

impl<A: FdlApplication> FdlApplication for Counting<A> {
    fn transmit_telegram(&mut self, now: Instant, fdl: &FdlActiveStation, tx: TelegramTx, hp: HighPrioOnly) -> Option<TelegramTxResponse> {
        let r = self.inner.borrow_mut().transmit_telegram(now, fdl, tx, hp);
        if r.is_some() {
            self.requests.set(self.requests.get() + 1);
        }
        r
    }
    fn receive_reply(&mut self, now: Instant, fdl: &FdlActiveStation, addr: u8, telegram: Telegram) {
        self.inner.borrow_mut().receive_reply(now, fdl, addr, telegram)
    }
    fn handle_timeout(&mut self, now: Instant, fdl: &FdlActiveStation, addr: u8) {
        self.inner.borrow_mut().handle_timeout(now, fdl, addr)
    }
}

type Pop = Rc<RefCell<BTreeMap<u8, (PeerKind, u64)>>>;

fn gen_population(t: &mut Tape, masters: &[u8], max_delay: u64) -> BTreeMap<u8, (PeerKind, u64)> {
    let mut m = BTreeMap::new();
    let n = t.below(12) as usize;
    for _ in 0..n {
        let a = match t.below(6) {
            0 => 0,
            1 => 125,
            2 => 124,
            _ => t.below(126) as u8,
        };
        if masters.contains(&a) {
            continue;
        }
        let k = *t.pick(&[PeerKind::StatusOnly, PeerKind::DpSlave, PeerKind::Defective, PeerKind::Silent, PeerKind::FdlOnly, PeerKind::OddStatus]);
        m.insert(a, (k, 11 + t.below(max_delay - 10)));
    }
    m
}

fn scan_case(t: &mut Tape, obs: &mut Obs, scanner: bool) -> CaseResult {
    let two_masters = t.chance(1, 5);
    let cfg = gen_ring_cfg(t, &GenOpts { min_n: if two_masters { 2 } else { 1 }, max_n: if two_masters { 2 } else { 1 }, max_hsa_extra: 6, late_joiners: false });
    let mut cfg = cfg;
    if !two_masters && t.chance(1, 4) {
        // any scanner address: needs the full address range
        cfg.hsa = 126;
        cfg.stations[0].addr = t.below(126) as u8;
        cfg.ttr_bits = 126 * 5000;
    }
    // a scanning station on a PHY whose transmissions end later than nominal (UART FIFO, USB adapter;
    // a third of the cases, decided by the slot time): the slot time counts from the real end.  The
    // station learns about that end from poll_transmission() only, i.e. with the precision of its
    // poll period: such a station is polled at least every 8 bit times here and the responders
    // leave 12 bit times more of the slot time unused.
    let latency = cfg.slot_bits % 3 == 0;
    if latency {
        let p = cfg.bits_us(8).max(1);
        for s in cfg.stations.iter_mut() {
            s.period_us = s.period_us.min(p);
        }
    }
    let masters = cfg.sorted_addrs();
    let own = cfg.stations[0].addr;
    let max_delay = u64::from(cfg.slot_bits) - 15 - if latency { 12 } else { 0 };
    let pop: Pop = Rc::new(RefCell::new(gen_population(t, &masters, max_delay)));
    let mut sim = Sim::new(cfg.clone(), 1);
    sim.virtuals.push(Box::new(Peers { peers: BTreeMap::new(), shared: Some(pop.clone()), bit_ns: cfg.bits_ns(1000).max(1) / 1000, answered: 0 }));
    if latency {
        let lat = cfg.bits_us(u64::from(cfg.slot_bits) / 3);
        sim.bus.0.borrow_mut().tx_latency_us[0] = lat;
        obs.label("phy-with-transmit-latency");
    }
    let requests = Rc::new(Cell::new(0u64));
    let ll = Rc::new(RefCell::new(LiveList::new()));
    let sc = Rc::new(RefCell::new(DpScanner::new()));
    if scanner {
        sim.nodes[0].apps.push(Box::new(Counting { inner: sc.clone(), requests: requests.clone() }));
    } else {
        sim.nodes[0].apps.push(Box::new(Counting { inner: ll.clone(), requests: requests.clone() }));
    }
    // phases: (number of application requests to run, population change applied at its start, lossy?)
    let n_phases = 1 + t.below(4) as usize;
    let mut ll_events: Vec<StationEvent> = vec![];
    let mut sc_events: Vec<DpScanEvent> = vec![];
    let mut changes = 0u64;
    let mut seen = 0usize;
    let slot = cfg.slot_us();
    for ph in 0..=n_phases {
        let last = ph == n_phases;
        if ph > 0 {
            // population change
            let mut p = pop.borrow_mut();
            for _ in 0..1 + t.below(4) {
                if t.bool() && !p.is_empty() {
                    let keys: Vec<u8> = p.keys().copied().collect();
                    let k = *t.pick(&keys);
                    p.remove(&k);
                    changes += 1;
                } else {
                    let a = t.below(126) as u8;
                    if !masters.contains(&a) {
                        let k = *t.pick(&[PeerKind::StatusOnly, PeerKind::DpSlave, PeerKind::Silent, PeerKind::FdlOnly, PeerKind::OddStatus]);
                        p.insert(a, (k, 11 + t.below(max_delay - 10)));
                        changes += 1;
                    }
                }
            }
        }
        let lossy = !last && t.chance(1, 3);
        // the last phase: population unchanged and fault free for two full sweeps (+ margin)
        let target = requests.get() + if last { 2 * 126 + 6 } else { 20 + t.below(300) };
        let mut guard = 0u64;
        let t_limit = sim.now + (20_000 + 3 * 300 * 130) * slot;
        while requests.get() < target {
            let Some(tn) = sim.next_time() else { break };
            ensure!(tn < t_limit, "sweep-stalled", "application issued only {} requests in {} slot times", requests.get(), (tn - (t_limit - (20_000 + 3 * 300 * 130) * slot)) / slot);
            if lossy {
                // lose a reply now and then: arm a drop for the next transmission of the responders
                guard += 1;
                if guard % 97 == 0 {
                    let vid = sim.virtual_id(0);
                    sim.bus.0.borrow_mut().next_fault[vid] = Some(crate::simbus::Fault::Drop);
                }
            }
            let ev = sim.step();
            if let Some(Event::Polled(0)) = ev {
                if let Some(e) = ll.borrow_mut().take_last_event() {
                    ll_events.push(e);
                }
                if let Some(e) = sc.borrow_mut().take_last_event() {
                    sc_events.push(e);
                }
            }
        }
        if !last {
            let vid = sim.virtual_id(0);
            sim.bus.0.borrow_mut().next_fault[vid] = None;
        }
        // requests only to 0..=125
        let b = sim.bus.0.borrow();
        for r in &b.trace[seen..] {
            if r.sender == 0 {
                if let Some(RefFrame::Data { da, fc, .. }) = rc::decode_one(&r.bytes) {
                    if rc::fc_is_request(fc) {
                        ensure!(da <= 125, "probe-beyond-125", "request to address {da}");
                    }
                }
            }
        }
        seen = b.trace.len();
    }
    let p = pop.borrow();
    if !scanner {
        // expected live list: everything that answers status requests, other masters included
        let mut want: BTreeSet<u8> = p.iter().filter(|(_, (k, _))| matches!(k, PeerKind::StatusOnly | PeerKind::DpSlave | PeerKind::FdlOnly | PeerKind::OddStatus)).map(|(a, _)| *a).collect();
        for m in &masters {
            if *m != own {
                want.insert(*m);
            }
        }
        let got: BTreeSet<u8> = ll.borrow().iter_stations().collect();
        ensure!(got == want, "live-list", "after two full sweeps of an unchanged population the live list is {:?} but the stations answering status requests are {:?} (scanning station #{own})", got, want);
        // events alternate per address
        let mut present: BTreeSet<u8> = BTreeSet::new();
        for e in &ll_events {
            match e {
                StationEvent::Discovered(d) => {
                    ensure!(present.insert(d.address), "event-alternation", "Discovered #{} twice without a Lost in between (events {:?})", d.address, ll_events);
                    ensure!(d.address <= 125 && d.address != own, "event-address", "Discovered event for #{}", d.address);
                }
                StationEvent::Lost(a) => {
                    ensure!(present.remove(a), "event-alternation", "Lost #{a} without a preceding Discovered (events {:?})", ll_events);
                }
            }
        }
        ensure!(present == got, "events-vs-list", "stations according to the event stream {:?} differ from iter_stations() {:?}", present, got);
        obs.count("discovered", ll_events.iter().filter(|e| matches!(e, StationEvent::Discovered(_))).count() as u64);
        obs.count("lost", ll_events.iter().filter(|e| matches!(e, StationEvent::Lost(_))).count() as u64);
        if !want.is_empty() {
            obs.nontrivial(fingerprint(&(own, &want, changes, format!("{:?}", cfg.baud))));
        }
    } else {
        let want: BTreeMap<u8, u16> = p.iter().filter(|(_, (k, _))| matches!(k, PeerKind::DpSlave)).map(|(a, _)| (*a, 0x4000 + u16::from(*a))).collect();
        let mut known: BTreeMap<u8, u16> = BTreeMap::new();
        for e in &sc_events {
            match e {
                DpScanEvent::PeripheralFound(d) => {
                    ensure!(known.insert(d.address, d.ident).is_none(), "event-alternation", "PeripheralFound #{} twice without a Lost in between", d.address);
                }
                DpScanEvent::PeripheralRequery(d) => {
                    ensure!(known.contains_key(&d.address), "event-alternation", "PeripheralRequery #{} for an unknown peripheral", d.address);
                    known.insert(d.address, d.ident);
                }
                DpScanEvent::PeripheralLost(a) => {
                    ensure!(known.remove(a).is_some(), "event-alternation", "PeripheralLost #{a} without a preceding Found");
                }
            }
        }
        ensure!(known == want, "scanner-knowledge", "after two full sweeps the scanner knows {:?} but the answering DP peripherals are {:?}", known, want);
        obs.count("found", sc_events.iter().filter(|e| matches!(e, DpScanEvent::PeripheralFound(_))).count() as u64);
        obs.count("lost", sc_events.iter().filter(|e| matches!(e, DpScanEvent::PeripheralLost(_))).count() as u64);
        if !want.is_empty() {
            obs.nontrivial(fingerprint(&(own, &want, changes, format!("{:?}", cfg.baud))));
        }
    }
    if two_masters {
        obs.label("second-real-master");
    }
    if changes > 0 {
        obs.label("population-changed");
    }
    obs.label(&format!("scanner-at-{}", if own == 0 { "0".to_string() } else if own > 100 { "high".into() } else { "mid".into() }));
    obs.sample(|| json!({"config": cfg.describe(), "final_population": p.iter().map(|(a, (k, _))| format!("#{a}: {:?}", k)).collect::<Vec<_>>(), "population_changes": changes, "requests": requests.get()}));
    Ok(())
}

pub fn property() -> Property {
    Property {
        id: "C18",
        rule: "cases: one real station (any address; in a fifth of the cases a second real master) with the unmodified LiveList or DpScanner behind a request-counting wrapper, a generated population of passive responders over 0..125 (status-only stations - some answering with a response status other than OK -, DP slaves answering Slave_Diag with ident 0x4000+address, silent addresses, defective devices whose replies break off; corner addresses 0, 124, 125; in a third of the cases the scanning station sits on a PHY with a transmit latency of a third of the slot time), 1..4 phases with generated appearances / disappearances and lossy phases (replies dropped), then an unchanged, fault-free population for two full sweeps (252 application requests + margin). Oracle: iter_stations() equals the addresses answering status requests (other masters included, own address excluded); the scanner's knowledge reconstructed from its events equals the answering DP peripherals with their idents; Discovered/Found and Lost alternate per address and agree with the final list; only addresses 0..125 are probed. Non-trivial = final population non-empty; distinct by (own address, final population, number of changes, baud).",
        assumptions: vec![
            "responders that answer a status request with a short confirmation are outside the domain (N3)",
            "events are collected after every poll",
            "a station on a PHY with transmit latency learns about the real end of its transmission from poll_transmission() only, i.e. with the precision of its poll period: it is polled at least every 8 bit times and the responders leave 12 bit times more of the slot time unused",
        ],
        subchecks: vec![
            SubCheck::tape("live_list", "LiveList against a changing population", |t, obs| scan_case(t, obs, false)),
            SubCheck::tape("dp_scanner", "DpScanner against a changing population", |t, obs| scan_case(t, obs, true)),
        ],
        plan: |tier| match tier {
            Tier::Quick => vec![Step::Pbt { kind: "live_list", cases: 3000, max_len: 160 }, Step::Pbt { kind: "dp_scanner", cases: 3000, max_len: 160 }],
            Tier::Thorough => vec![Step::Pbt { kind: "live_list", cases: 3000, max_len: 160 }, Step::Pbt { kind: "dp_scanner", cases: 3000, max_len: 160 }],
        },
        hang_is_violation: false,
        hang_limit_s: 900,
        probes: vec![],
    }
}
