//! C19 GSD parser never panics and reproduces what the file says.
//!
//! `roundtrip`: a station description (the model) is decoded from the tape and rendered through a
//! pretty-printer that varies everything the grammar (gsd-parser/src/gsd.pest) leaves open; the
//! parser must return exactly the model.  `mutants`: rendered texts and the shipped mock.gsd are
//! damaged in grammar-aware ways; `random`: byte / token soup.  Both must give Ok or Err, never a
//! panic (the engine turns a panic into a failure `panic@<file>:<line>`).
use crate::engine::*;
use crate::{ensure, fail};
use gsd_parser::{
    parser, GenericStationDescription, Module, PrmValueConstraint, Slot, SupportedSpeeds, UnitDiagArea, UserPrmData,
    UserPrmDataDefinition, UserPrmDataType,
};
use serde_json::json;
use std::collections::{BTreeMap, BTreeSet};
use std::sync::{Arc, OnceLock};

const MOCK_PATH: &str = "/repo/gsd-parser/tests/data/mock.gsd";

/// The shipped example file, read once from the working tree under test.
fn mock_gsd() -> &'static str {
    static MOCK: OnceLock<String> = OnceLock::new();
    MOCK.get_or_init(|| {
        let bytes = std::fs::read(MOCK_PATH).unwrap_or_else(|e| panic!("cannot read {MOCK_PATH}: {e}"));
        String::from_utf8_lossy(&bytes).into_owned()
    })
}

// ---------------------------------------------------------------------------------------------
// Lexical variation
// ---------------------------------------------------------------------------------------------

/// Which freedoms of the grammar the pretty-printer uses.  The switches sit on the tape (so the
/// shrinker can turn them off one by one); the per-site decisions come from a derived stream.
struct Lex {
    /// 0 as written in the specification, 1 upper, 2 lower, 3 decided per keyword (incl. per-letter mix)
    case: u8,
    spacing: bool,
    comments: bool,
    cont: bool,
    numfmt: bool,
    /// 0 LF, 1 CRLF, 2 decided per line (LF / CRLF / occasionally a lone CR)
    nl: u8,
    r: SplitMix,
    used: BTreeSet<&'static str>,
}

impl Lex {
    fn from_tape(t: &mut Tape) -> Lex {
        let case = t.below(4) as u8;
        let spacing = t.bool();
        let comments = t.bool();
        let cont = t.bool();
        let numfmt = t.bool();
        let nl = t.weighted(&[3, 3, 2]) as u8;
        let r = t.stream();
        Lex { case, spacing, comments, cont, numfmt, nl, r, used: BTreeSet::new() }
    }

    fn kw(&mut self, k: &str) -> String {
        let mode = if self.case == 3 { self.r.below(4) as u8 } else { self.case };
        if mode != 0 {
            self.used.insert("keyword-case-varied");
        }
        match mode {
            0 => k.to_string(),
            1 => k.to_uppercase(),
            2 => k.to_lowercase(),
            _ => k
                .chars()
                .map(|c| if self.r.below(2) == 0 { c.to_ascii_uppercase() } else { c.to_ascii_lowercase() })
                .collect(),
        }
    }

    /// Unsigned number: decimal or `0x` + hex digits (the grammar knows only the lower-case prefix).
    fn num(&mut self, v: u64) -> String {
        if !self.numfmt {
            return format!("{v}");
        }
        match self.r.below(6) {
            0 | 1 => format!("{v}"),
            2 => {
                self.used.insert("hex");
                format!("0x{v:x}")
            }
            3 => {
                self.used.insert("hex");
                format!("0x{v:02X}")
            }
            4 => {
                self.used.insert("hex");
                // mixed-case digits, zero padded
                let s: String = format!("{v:04x}")
                    .chars()
                    .map(|c| if self.r.below(2) == 0 { c.to_ascii_uppercase() } else { c })
                    .collect();
                format!("0x{s}")
            }
            _ => {
                self.used.insert("leading-zeros");
                format!("0{v}")
            }
        }
    }

    /// Signed number (negative values exist in decimal only).
    fn snum(&mut self, v: i64) -> String {
        if v < 0 {
            format!("{v}")
        } else {
            self.num(v as u64)
        }
    }

    fn eq(&mut self) -> &'static str {
        if !self.spacing {
            return "=";
        }
        ["=", " = ", "\t=", "=  ", " \t= \t", "   ="][self.r.below(6) as usize]
    }

    /// Optional blank between tokens.
    fn osp(&mut self) -> &'static str {
        if !self.spacing {
            return "";
        }
        ["", "", " ", "\t", "  "][self.r.below(5) as usize]
    }

    /// Mandatory blank between tokens.
    fn sp(&mut self) -> &'static str {
        if !self.spacing {
            return " ";
        }
        [" ", " ", "\t", "   ", " \t "][self.r.below(5) as usize]
    }

    fn nl_from(&mut self, allow_cr: bool) -> &'static str {
        match self.nl {
            0 => "\n",
            1 => {
                self.used.insert("crlf");
                "\r\n"
            }
            _ => {
                self.used.insert("mixed-newlines");
                match self.r.below(8) {
                    0 if allow_cr => {
                        self.used.insert("lone-cr");
                        "\r"
                    }
                    1..=3 => "\r\n",
                    _ => "\n",
                }
            }
        }
    }

    fn nl(&mut self) -> &'static str {
        self.nl_from(true)
    }

    /// `(n)` after an indexed keyword.
    fn paren(&mut self, n: u64) -> String {
        let a = self.osp();
        let b = self.osp();
        let c = self.osp();
        let n = self.num(n);
        format!("{a}({b}{n}{c})")
    }

    /// End of a statement line: optional trailing blanks, comment, blank / comment lines, indentation
    /// of the next line.
    fn eol(&mut self, out: &mut String) {
        if self.spacing && self.r.below(6) == 0 {
            out.push_str([" ", "\t", "   "][self.r.below(3) as usize]);
        }
        if self.comments && self.r.below(4) == 0 {
            self.used.insert("comments");
            out.push_str(
                [" ; a comment = \"with stuff\"", ";x", " ;", "\t; EndModule, 1-2 (3) \\", " ; say \"hi", ";;; #Profibus_DP"][self.r.below(6) as usize],
            );
        }
        out.push_str(self.nl());
        if self.spacing && self.r.below(6) == 0 {
            if self.r.below(2) == 0 {
                out.push_str(" \t");
            }
            out.push_str(self.nl());
        }
        if self.comments && self.r.below(6) == 0 {
            out.push_str(["; full line comment", ";", ";=====", "  ; indented comment = 1"][self.r.below(4) as usize]);
            out.push_str(self.nl());
        }
        if self.spacing && self.r.below(6) == 0 {
            out.push_str(["  ", "\t", " \t"][self.r.below(3) as usize]);
        }
    }

    /// Comma separated numbers, optionally continued over several lines with `\`.
    fn list(&mut self, v: &[u8]) -> String {
        let mut s = String::new();
        if self.cont && self.r.below(8) == 0 {
            // as in mock.gsd: the list starts on the next line
            self.used.insert("continuation");
            s.push('\\');
            s.push_str(self.nl());
            s.push('\t');
        }
        for (i, x) in v.iter().enumerate() {
            if i > 0 {
                s.push_str(self.osp());
                if self.cont && self.r.below(5) == 0 {
                    self.used.insert("continuation");
                    if self.r.below(2) == 0 {
                        s.push_str(",\\");
                        s.push_str(self.nl());
                    } else {
                        s.push('\\');
                        s.push_str(self.nl());
                        s.push(',');
                    }
                    s.push_str(self.osp());
                } else {
                    s.push(',');
                    s.push_str(self.osp());
                }
            }
            s.push_str(&self.num(u64::from(*x)));
        }
        s
    }

    /// Quoted string; long strings may be broken with `\` + newline, which the parser removes.
    fn string(&mut self, v: &str) -> String {
        let mut s = String::from("\"");
        if self.cont && !v.is_empty() && self.r.below(6) == 0 {
            self.used.insert("string-continuation");
            let chars: Vec<char> = v.chars().collect();
            let cut = self.r.below(chars.len() as u64 + 1) as usize;
            s.extend(chars[..cut].iter());
            s.push('\\');
            s.push_str(self.nl_from(false));
            s.extend(chars[cut..].iter());
        } else {
            s.push_str(v);
        }
        s.push('"');
        s
    }
}

// ---------------------------------------------------------------------------------------------
// Model + pretty-printer
// ---------------------------------------------------------------------------------------------

/// Strings with characters that are delimiters elsewhere in the grammar.
const STRINGS: [&str; 24] = [
    "",
    "Alpha",
    "beta-2",
    "Gamma;x",
    "d e l t a",
    "0x10",
    "EndModule",
    "=",
    "\u{fc}n\u{ef} \u{20ac}",
    "#Profibus_DP",
    "a \\ b",
    "1,2,3",
    "Text(1)",
    "(",
    "tab\there",
    "trailing\\",
    "3@fam",
    "; not a comment",
    "Ext_User_Prm_Data_Ref(0)=1",
    "'single'",
    "EndPrmText EndExtUserPrmData EndSlotDefinition",
    "  padded  ",
    "A rather long text that describes a module with 16 words of input and 1 byte of output data",
    "-5",
];

fn gen_text(t: &mut Tape) -> String {
    t.pick(&STRINGS).to_string()
}

/// 0..=max, boundary-biased; zero choice gives 0.
fn gen_num(t: &mut Tape, max: u64) -> u64 {
    match t.below(4) {
        0 => 0,
        1 => max,
        2 => 1.min(max),
        _ => t.below(max + 1),
    }
}

fn gen_bytes(t: &mut Tape, n: usize) -> Vec<u8> {
    match t.below(3) {
        0 => vec![0; n],
        1 => vec![0xFF; n],
        _ => t.fill(n),
    }
}

struct Chunk {
    text: String,
    movable: bool,
}

pub struct GenFile {
    pub text: String,
    pub model: GenericStationDescription,
    pub labels: BTreeSet<&'static str>,
}

fn find_module(g: &GenericStationDescription, r: u32) -> Option<Arc<Module>> {
    g.available_modules.iter().find(|m| m.reference == Some(r)).cloned()
}

/// Decode a well-formed GSD file and the description it denotes from the tape.
pub fn gen_file(t: &mut Tape) -> GenFile {
    let mut lx = Lex::from_tape(t);
    let mut labels: BTreeSet<&'static str> = BTreeSet::new();
    let mut g = GenericStationDescription::default();
    let mut chunks: Vec<Chunk> = vec![];

    // ---- lines in front of the marker -------------------------------------------------------
    let mut head = String::new();
    let njunk = t.below(3);
    for _ in 0..njunk {
        labels.insert("text-before-marker");
        head.push_str(*t.pick(&[
            "some text before the marker = 5",
            "; GSD file for a device",
            "",
            "x #Profibus_DP",
            "#Profibus_DP2",
            "Module = \"not yet\" 1",
            "Vendor_Name = \"ignored\"",
            "EndModule \\",
        ]));
        head.push_str(lx.nl());
    }
    head.push_str(&format!("#{}", lx.kw("Profibus_DP")));
    head.push_str(lx.nl());
    if t.bool() {
        head.push(';');
        head.push_str(lx.nl());
    }

    // ---- simple settings ---------------------------------------------------------------------
    macro_rules! push_setting {
        ($movable:expr, $key:expr, $val:expr) => {{
            let mut s = String::new();
            s.push_str(&lx.kw($key));
            s.push_str(lx.eq());
            s.push_str(&$val);
            lx.eol(&mut s);
            chunks.push(Chunk { text: s, movable: $movable });
        }};
    }
    macro_rules! num {
        ($k:expr, $f:expr, $max:expr) => {
            if t.chance(3, 4) {
                let v = gen_num(t, $max as u64);
                $f = v as _;
                let s = lx.num(v);
                push_setting!(true, $k, s);
            }
        };
    }
    macro_rules! st {
        ($k:expr, $f:expr) => {
            if t.chance(3, 4) {
                let v = gen_text(t);
                $f = v.clone();
                let s = lx.string(&v);
                push_setting!(true, $k, s);
            }
        };
    }
    macro_rules! bl {
        ($k:expr, $f:expr) => {
            if t.chance(2, 3) {
                let v = t.bool();
                $f = v;
                let s = lx.num(u64::from(v));
                push_setting!(true, $k, s);
            }
        };
    }
    num!("GSD_Revision", g.gsd_revision, 255);
    st!("Vendor_Name", g.vendor);
    st!("Model_Name", g.model);
    st!("Revision", g.revision);
    num!("Revision_Number", g.revision_number, 255);
    num!("Ident_Number", g.ident_number, 65535);
    st!("Hardware_Release", g.hardware_release);
    st!("Software_Release", g.software_release);
    bl!("Fail_Safe", g.fail_safe);
    let speeds: [(&str, SupportedSpeeds); 11] = [
        ("9.6_supp", SupportedSpeeds::B9600),
        ("19.2_supp", SupportedSpeeds::B19200),
        ("31.25_supp", SupportedSpeeds::B31250),
        ("45.45_supp", SupportedSpeeds::B45450),
        ("93.75_supp", SupportedSpeeds::B93750),
        ("187.5_supp", SupportedSpeeds::B187500),
        ("500_supp", SupportedSpeeds::B500000),
        ("1.5M_supp", SupportedSpeeds::B1500000),
        ("3M_supp", SupportedSpeeds::B3000000),
        ("6M_supp", SupportedSpeeds::B6000000),
        ("12M_supp", SupportedSpeeds::B12000000),
    ];
    // one choice decides which speed keys are present, a second one their values
    let present = t.raw();
    let values = t.raw();
    for (i, (k, f)) in speeds.iter().enumerate() {
        if present >> (31 - i) & 1 != 0 {
            let v = values >> (31 - i) & 1 != 0;
            if v {
                g.supported_speeds |= *f;
            }
            let s = lx.num(u64::from(v));
            push_setting!(true, k, s);
        }
    }
    let tsdr_present = t.raw();
    {
        let m = &mut g.max_tsdr;
        let fields: [(&str, &mut u16); 11] = [
            ("MaxTsdr_9.6", &mut m.b9600),
            ("MaxTsdr_19.2", &mut m.b19200),
            ("MaxTsdr_31.25", &mut m.b31250),
            ("MaxTsdr_45.45", &mut m.b45450),
            ("MaxTsdr_93.75", &mut m.b93750),
            ("MaxTsdr_187.5", &mut m.b187500),
            ("MaxTsdr_500", &mut m.b500000),
            ("MaxTsdr_1.5M", &mut m.b1500000),
            ("MaxTsdr_3M", &mut m.b3000000),
            ("MaxTsdr_6M", &mut m.b6000000),
            ("MaxTsdr_12M", &mut m.b12000000),
        ];
        for (i, (k, f)) in fields.into_iter().enumerate() {
            if tsdr_present >> (31 - i) & 1 != 0 {
                let v = gen_num(t, 65535);
                *f = v as u16;
                let s = lx.num(v);
                push_setting!(true, k, s);
            }
        }
    }
    st!("Implementation_Type", g.implementation_type);
    bl!("Freeze_Mode_supp", g.freeze_mode_supported);
    bl!("Sync_Mode_supp", g.sync_mode_supported);
    bl!("Auto_Baud_supp", g.auto_baud_supported);
    bl!("Set_Slave_Add_supp", g.set_slave_addr_supported);
    bl!("Modular_Station", g.modular_station);
    let mut max_module_set = false;
    if t.bool() {
        let v = gen_num(t, 255);
        g.max_modules = v as u8;
        max_module_set = true;
        let s = lx.num(v);
        push_setting!(true, "Max_Module", s);
    }
    num!("Max_Input_Len", g.max_input_length, 255);
    num!("Max_Output_Len", g.max_output_length, 255);
    num!("Max_Data_Len", g.max_data_length, 65535);
    num!("Max_Diag_Data_Len", g.max_diag_data_length, 255);

    // ---- keywords and blocks the parser skips -------------------------------------------------
    let nign = t.below(4);
    for _ in 0..nign {
        labels.insert("ignored-keywords");
        let nl = lx.nl();
        let mut s = match t.below(10) {
            0 => format!("{}{}{}", lx.kw("Protocol_Ident"), lx.eq(), lx.num(0)),
            1 => format!("{}{}3@TdF@Tools;0 = General", lx.kw("Slave_Family"), lx.eq()),
            2 => format!("{}{}{}", lx.kw("Bitmap_Device"), lx.eq(), lx.string("DEV_N")),
            3 => format!("{}{}{}", lx.kw("24V_Pins"), lx.eq(), lx.num(2)),
            4 => format!("{}{}{}", lx.kw("Module_Offset"), lx.eq(), lx.num(1)),
            5 => format!("{}{}{}", lx.kw("Info_Text"), lx.eq(), lx.string("top level info text")),
            6 => format!("{}{}129{nl}X_Unit_Diag_Bit(24) = \"Module = 1\"{nl}X_Value(1) = \"x\"{nl}{}", lx.kw("UnitDiagType"), lx.eq(), lx.kw("EndUnitDiagType")),
            7 => format!("{}{}8{nl}Transmission_Delay_9.6 = 0{nl}{}", lx.kw("Physical_Interface"), lx.eq(), lx.kw("End_Physical_Interface")),
            8 => format!("{}{}{}", lx.kw("Min_Slave_Intervall"), lx.eq(), lx.list(&[1, 2])),
            _ => format!("{}{}{}", lx.kw("OrderNumber"), lx.eq(), lx.string("6ES7 = \\ 1")),
        };
        lx.eol(&mut s);
        chunks.push(Chunk { text: s, movable: true });
    }

    // ---- PrmText ------------------------------------------------------------------------------
    let mut texts: Vec<(u16, Arc<BTreeMap<String, i64>>)> = vec![];
    let ntexts = t.below(3);
    let text_base = *t.pick(&[1u16, 0, 100, 65533]);
    for i in 0..ntexts as u16 {
        labels.insert("prm-texts");
        let id = text_base + i;
        let mut s = format!("{}{}{}", lx.kw("PrmText"), lx.eq(), lx.num(u64::from(id)));
        lx.eol(&mut s);
        let mut m = BTreeMap::new();
        let n = 1 + t.below(4) as i64;
        let first = *t.pick(&[0i64, 1, -2, 250]);
        for v in first..first + n {
            let tx = format!("T{} {}", v, gen_text(t));
            s.push_str(&lx.kw("Text"));
            if v < 0 {
                s.push_str(&format!("({v})"));
            } else {
                s.push_str(&lx.paren(v as u64));
            }
            s.push_str(lx.eq());
            s.push_str(&lx.string(&tx));
            lx.eol(&mut s);
            m.insert(tx, v);
        }
        s.push_str(&lx.kw("EndPrmText"));
        lx.eol(&mut s);
        chunks.push(Chunk { text: s, movable: false });
        texts.push((id, Arc::new(m)));
    }

    // ---- ExtUserPrmData -----------------------------------------------------------------------
    let mut defs: Vec<(u32, Arc<UserPrmDataDefinition>)> = vec![];
    let ndefs = t.below(5);
    let def_base = *t.pick(&[1u32, 0, 1000, 70000]);
    for i in 0..ndefs as u32 {
        labels.insert("ext-user-prm-data");
        let id = def_base + i;
        let name = format!("P{} {}", id, gen_text(t));
        let (ty, tys) = match t.below(8) {
            0 => (UserPrmDataType::Unsigned8, lx.kw("Unsigned8")),
            1 => (UserPrmDataType::Unsigned16, lx.kw("Unsigned16")),
            2 => (UserPrmDataType::Unsigned32, lx.kw("Unsigned32")),
            3 => (UserPrmDataType::Signed8, lx.kw("Signed8")),
            4 => (UserPrmDataType::Signed16, lx.kw("Signed16")),
            5 => (UserPrmDataType::Signed32, lx.kw("Signed32")),
            6 => {
                let b = t.below(8);
                (UserPrmDataType::Bit(b as u8), format!("{}{}", lx.kw("Bit"), lx.paren(b)))
            }
            _ => {
                let f = t.below(8);
                let l = f + t.below(8 - f);
                (
                    UserPrmDataType::BitArea(f as u8, l as u8),
                    format!("{}{}({}{}{}-{}{}{})", lx.kw("BitArea"), lx.osp(), lx.osp(), lx.num(f), lx.osp(), lx.osp(), lx.num(l), lx.osp()),
                )
            }
        };
        let signed = matches!(ty, UserPrmDataType::Signed8 | UserPrmDataType::Signed16 | UserPrmDataType::Signed32);
        let val = |t: &mut Tape| -> i64 {
            let v = *t.pick(&[0i64, 1, 2, 3, 7, 100, 127, 255, 1000, 32767, 65535, 2_000_000_000, 2_147_483_647, 2_147_483_648, 4_294_967_295]);
            if signed && t.bool() {
                -v
            } else {
                v
            }
        };
        let default = val(t);
        let (constraint, cs) = match t.below(3) {
            0 => (PrmValueConstraint::Unconstrained, String::new()),
            1 => {
                let a = val(t);
                let b = val(t);
                (PrmValueConstraint::MinMax(a, b), format!("{}{}{}-{}{}", lx.sp(), lx.snum(a), lx.osp(), lx.osp(), lx.snum(b)))
            }
            _ => {
                let n = 1 + t.below(4);
                let vs: Vec<i64> = (0..n).map(|_| val(t)).collect();
                let mut s = lx.sp().to_string();
                for (i, v) in vs.iter().enumerate() {
                    if i > 0 {
                        s.push_str(lx.osp());
                        s.push(',');
                        s.push_str(lx.osp());
                    }
                    s.push_str(&lx.snum(*v));
                }
                (PrmValueConstraint::Enum(vs), s)
            }
        };
        let mut s = format!("{}{}{}{}{}", lx.kw("ExtUserPrmData"), lx.eq(), lx.num(u64::from(id)), lx.sp(), lx.string(&name));
        lx.eol(&mut s);
        s.push_str(&format!("{}{}{}{}", tys, lx.sp(), lx.snum(default), cs));
        lx.eol(&mut s);
        let mut text_ref = None;
        if !texts.is_empty() && t.bool() {
            labels.insert("prm-text-ref");
            let (tid, m) = t.pick(&texts).clone();
            text_ref = Some(m);
            s.push_str(&format!("{}{}{}", lx.kw("Prm_Text_Ref"), lx.eq(), lx.num(u64::from(tid))));
            lx.eol(&mut s);
        }
        let (mut changeable, mut visible) = (true, true);
        if t.chance(1, 3) {
            changeable = t.bool();
            s.push_str(&format!("{}{}{}", lx.kw("Changeable"), lx.eq(), lx.num(u64::from(changeable))));
            lx.eol(&mut s);
        }
        if t.chance(1, 3) {
            visible = t.bool();
            s.push_str(&format!("{}{}{}", lx.kw("Visible"), lx.eq(), lx.num(u64::from(visible))));
            lx.eol(&mut s);
        }
        s.push_str(&lx.kw("EndExtUserPrmData"));
        lx.eol(&mut s);
        chunks.push(Chunk { text: s, movable: false });
        defs.push((id, Arc::new(UserPrmDataDefinition { name, data_type: ty, default_value: default, constraint, text_ref, changeable, visible })));
    }

    // ---- station-level user parameters ----------------------------------------------------------
    // 0 none, 1 Ext_User_Prm_Data_*, 2 legacy User_Prm_Data, 3 both (the legacy keywords are then ignored)
    let prm_mode = t.weighted(&[2, 5, 5, 2]);
    let legacy_first = t.bool();
    let mut legacy_chunks: Vec<Chunk> = vec![];
    let mut legacy = UserPrmData::default();
    if prm_mode >= 2 {
        let with_data = !t.chance(1, 5);
        let nvals = if with_data { 1 + t.below(8) as usize } else { 0 };
        let vals = gen_bytes(t, nvals);
        let len = nvals as u64 + t.below(3);
        let len_first = t.bool();
        let mut len_s = format!("{}{}{}", lx.kw("User_Prm_Data_Len"), lx.eq(), lx.num(len));
        lx.eol(&mut len_s);
        let mut data_s = String::new();
        if with_data {
            data_s = format!("{}{}{}", lx.kw("User_Prm_Data"), lx.eq(), lx.list(&vals));
            lx.eol(&mut data_s);
            legacy.data_const.push((0, vals));
        }
        legacy.length = len as u8;
        if len_first {
            labels.insert("legacy-len-first");
            legacy_chunks.push(Chunk { text: len_s, movable: false });
            legacy_chunks.push(Chunk { text: data_s, movable: false });
        } else {
            labels.insert("legacy-data-first");
            legacy_chunks.push(Chunk { text: data_s, movable: false });
            legacy_chunks.push(Chunk { text: len_s, movable: false });
        }
    }
    let mut ext_chunks: Vec<Chunk> = vec![];
    let mut ext = UserPrmData::default();
    if prm_mode == 1 || prm_mode == 3 {
        let mut any = false;
        if t.bool() {
            any = true;
            let mut s = format!("{}{}{}", lx.kw("Max_User_Prm_Data_Len"), lx.eq(), lx.num(20));
            lx.eol(&mut s);
            ext_chunks.push(Chunk { text: s, movable: false });
        }
        let n = t.below(5);
        for _ in 0..n {
            any = true;
            let off = gen_num(t, 12);
            if defs.is_empty() || t.bool() {
                let nv = 1 + t.below(5) as usize;
                let vals = gen_bytes(t, nv);
                let mut s = format!("{}{}{}{}", lx.kw("Ext_User_Prm_Data_Const"), lx.paren(off), lx.eq(), lx.list(&vals));
                lx.eol(&mut s);
                ext_chunks.push(Chunk { text: s, movable: false });
                ext.data_const.push((off as usize, vals));
            } else {
                let (id, d) = t.pick(&defs).clone();
                let mut s = format!("{}{}{}{}", lx.kw("Ext_User_Prm_Data_Ref"), lx.paren(off), lx.eq(), lx.num(u64::from(id)));
                lx.eol(&mut s);
                ext_chunks.push(Chunk { text: s, movable: false });
                ext.data_ref.push((off as usize, d));
            }
        }
        if !any {
            let mut s = format!("{}{}{}", lx.kw("Max_User_Prm_Data_Len"), lx.eq(), lx.num(0));
            lx.eol(&mut s);
            ext_chunks.push(Chunk { text: s, movable: false });
        }
    }
    match prm_mode {
        0 => {
            labels.insert("no-prm");
        }
        1 => {
            labels.insert("ext-prm");
            g.user_prm_data = ext;
            chunks.extend(ext_chunks);
        }
        2 => {
            labels.insert("legacy-prm");
            g.user_prm_data = legacy;
            chunks.extend(legacy_chunks);
        }
        _ => {
            labels.insert("legacy-and-ext");
            g.user_prm_data = ext;
            if legacy_first {
                chunks.extend(legacy_chunks);
                chunks.extend(ext_chunks);
            } else {
                chunks.extend(ext_chunks);
                chunks.extend(legacy_chunks);
            }
        }
    }

    // ---- unit diagnostics -----------------------------------------------------------------------
    let ndiag = t.below(4);
    let mut diag_seen = BTreeSet::new();
    for _ in 0..ndiag {
        labels.insert("unit-diag");
        let bit = *t.pick(&[0u32, 1, 7, 24, 39, 255, 65536]);
        let tx = gen_text(t);
        let which = t.below(4);
        if !diag_seen.insert((which, bit)) {
            continue; // each keyword at most once per bit
        }
        let key = ["Unit_Diag_Bit", "Unit_Diag_Bit_Help", "Unit_Diag_Not_Bit", "Unit_Diag_Not_Bit_Help"][which as usize];
        let mut s = format!("{}{}{}{}", lx.kw(key), lx.paren(u64::from(bit)), lx.eq(), lx.string(&tx));
        lx.eol(&mut s);
        chunks.push(Chunk { text: s, movable: true });
        match which {
            0 => g.unit_diag.bits.entry(bit).or_default().text = tx,
            1 => g.unit_diag.bits.entry(bit).or_default().help = Some(tx),
            2 => g.unit_diag.not_bits.entry(bit).or_default().text = tx,
            _ => g.unit_diag.not_bits.entry(bit).or_default().help = Some(tx),
        }
    }
    if t.chance(1, 4) {
        labels.insert("unit-diag-area");
        let first = gen_num(t, 100);
        let last = first + t.below(8);
        let mut s = format!("{}{}{}{}-{}{}", lx.kw("Unit_Diag_Area"), lx.eq(), lx.num(first), lx.osp(), lx.osp(), lx.num(last));
        lx.eol(&mut s);
        let mut values = BTreeMap::new();
        let n = 1 + t.below(3);
        for v in 0..n {
            let tx = gen_text(t);
            s.push_str(&format!("{}{}{}{}", lx.kw("Value"), lx.paren(v), lx.eq(), lx.string(&tx)));
            lx.eol(&mut s);
            values.insert(v as u16, tx);
        }
        s.push_str(&lx.kw("Unit_Diag_Area_End"));
        lx.eol(&mut s);
        chunks.push(Chunk { text: s, movable: true });
        g.unit_diag.areas.push(UnitDiagArea { first: first as u16, last: last as u16, values });
    }

    // ---- modules --------------------------------------------------------------------------------
    let nmod = t.below(5) as u32;
    let ref_base = *t.pick(&[1u32, 0, 10, 255, 1000, 70000]);
    let ref_step = *t.pick(&[1u32, 2, 5]);
    for i in 0..nmod {
        labels.insert("modules");
        let name = format!("M{} {}", i, gen_text(t));
        let ncfg = 1 + t.below(5) as usize;
        let cfg = gen_bytes(t, ncfg);
        let mut s = format!("{}{}{}{}{}", lx.kw("Module"), lx.eq(), lx.string(&name), lx.sp(), lx.list(&cfg));
        lx.eol(&mut s);
        let mut m = Module { name, config: cfg, ..Default::default() };
        // settings in file order
        let mut settings: Vec<String> = vec![];
        if t.bool() {
            let v = gen_num(t, 255);
            m.module_prm_data.length = v as u8;
            settings.push(format!("{}{}{}", lx.kw("Ext_Module_Prm_Data_Len"), lx.eq(), lx.num(v)));
        }
        let nset = t.below(4);
        for _ in 0..nset {
            let off = gen_num(t, 8);
            match t.below(4) {
                0 | 1 if !defs.is_empty() => {
                    let (id, d) = t.pick(&defs).clone();
                    settings.push(format!("{}{}{}{}", lx.kw("Ext_User_Prm_Data_Ref"), lx.paren(off), lx.eq(), lx.num(u64::from(id))));
                    m.module_prm_data.data_ref.push((off as usize, d));
                }
                3 => settings.push(format!("{}{}{}", lx.kw("Some_Vendor_Key"), lx.eq(), lx.num(off))),
                _ => {
                    let nv = 1 + t.below(4) as usize;
                    let vals = gen_bytes(t, nv);
                    settings.push(format!("{}{}{}{}", lx.kw("Ext_User_Prm_Data_Const"), lx.paren(off), lx.eq(), lx.list(&vals)));
                    m.module_prm_data.data_const.push((off as usize, vals));
                }
            }
        }
        if t.bool() {
            let tx = gen_text(t);
            let pos = t.below(settings.len() as u64 + 1) as usize;
            settings.insert(pos, format!("{}{}{}", lx.kw("Info_Text"), lx.eq(), lx.string(&tx)));
            m.info_text = Some(tx);
        }
        let has_ref = t.chance(3, 4);
        let ref_pos = t.below(settings.len() as u64 + 1) as usize;
        let has_area = t.chance(1, 5);
        let area_pos = ref_pos + t.below((settings.len() - ref_pos) as u64 + 1) as usize;
        for k in 0..=settings.len() {
            if k == ref_pos && has_ref {
                let r = ref_base + i * ref_step;
                m.reference = Some(r);
                s.push_str(&lx.num(u64::from(r)));
                lx.eol(&mut s);
                if ref_pos > 0 {
                    labels.insert("settings-before-module-reference");
                }
            }
            if k == area_pos && has_area {
                labels.insert("data-area");
                s.push_str(&lx.kw("Data_Area_Beg"));
                lx.eol(&mut s);
                s.push_str(&format!("{}{}{}", lx.kw("Area_Name"), lx.eq(), lx.string("Inputs")));
                lx.eol(&mut s);
                s.push_str(&format!("{}{}{}", lx.kw("Length"), lx.eq(), lx.list(&[1, 2, 4])));
                lx.eol(&mut s);
                s.push_str(&lx.kw("Data_Area_End"));
                lx.eol(&mut s);
            }
            if let Some(line) = settings.get(k) {
                s.push_str(line);
                lx.eol(&mut s);
            }
        }
        s.push_str(&lx.kw("EndModule"));
        lx.eol(&mut s);
        chunks.push(Chunk { text: s, movable: false });
        g.available_modules.push(Arc::new(m));
    }

    // ---- slots ----------------------------------------------------------------------------------
    let with_ref: Vec<Arc<Module>> = g.available_modules.iter().filter(|m| m.reference.is_some()).cloned().collect();
    if !with_ref.is_empty() && ref_base < 60000 && t.bool() {
        labels.insert("slots");
        let mut s = lx.kw("SlotDefinition");
        lx.eol(&mut s);
        let nslots = t.below(4) as u8;
        let max_ref = u64::from(ref_base + nmod * ref_step);
        for n in 0..nslots {
            let number = if t.bool() { n + 1 } else { gen_num(t, 255) as u8 };
            let d = t.pick(&with_ref).clone();
            let name = format!("S{} {}", n, gen_text(t));
            let mut line = format!(
                "{}{}{}{}{}{}{}",
                lx.kw("Slot"),
                lx.paren(u64::from(number)),
                lx.eq(),
                lx.string(&name),
                lx.sp(),
                lx.num(u64::from(d.reference.unwrap())),
                lx.sp()
            );
            let mut allowed = vec![];
            if t.bool() {
                labels.insert("slot-range");
                let lo = t.below(max_ref + 2);
                let hi = lo + t.below(2 * u64::from(ref_step) + 2);
                line.push_str(&format!("{}{}-{}{}", lx.num(lo), lx.osp(), lx.osp(), lx.num(hi)));
                for r in lo..=hi {
                    allowed.extend(find_module(&g, r as u32));
                }
            } else {
                labels.insert("slot-set");
                let k = 1 + t.below(4);
                for j in 0..k {
                    let r = if t.chance(3, 4) { u64::from(t.pick(&with_ref).reference.unwrap()) } else { t.below(max_ref + 2) };
                    if j > 0 {
                        line.push_str(lx.osp());
                        line.push(',');
                        line.push_str(lx.osp());
                    }
                    line.push_str(&lx.num(r));
                    allowed.extend(find_module(&g, r as u32));
                }
            }
            s.push_str(&line);
            lx.eol(&mut s);
            g.slots.push(Slot { name, number, default: d, allowed_modules: allowed });
        }
        s.push_str(&lx.kw("EndSlotDefinition"));
        lx.eol(&mut s);
        chunks.push(Chunk { text: s, movable: false });
    }

    // ---- what the parser documents as normalisation --------------------------------------------
    if !max_module_set {
        g.max_modules = 1;
    }
    if !g.modular_station {
        g.max_modules = 1;
    }

    // ---- statement order: keywords without dependencies may stand anywhere ------------------------
    chunks.retain(|c| !c.text.is_empty());
    if t.bool() {
        labels.insert("shuffled-statements");
        let (movable, mut fixed): (Vec<Chunk>, Vec<Chunk>) = chunks.into_iter().partition(|c| c.movable);
        for c in movable {
            let pos = lx.r.below(fixed.len() as u64 + 1) as usize;
            fixed.insert(pos, c);
        }
        chunks = fixed;
    }
    if chunks.is_empty() {
        // the grammar wants at least one statement after the marker
        let mut s = format!("{}{}{}", lx.kw("GSD_Revision"), lx.eq(), lx.num(0));
        lx.eol(&mut s);
        chunks.push(Chunk { text: s, movable: true });
    }
    let mut text = head;
    for c in &chunks {
        text.push_str(&c.text);
    }
    if t.chance(1, 4) {
        // no line end (and no blank lines) after the last statement / comment
        labels.insert("no-final-newline");
        let keep = text.trim_end_matches(|c| c == '\r' || c == '\n' || c == ' ' || c == '\t').len();
        text.truncate(keep);
    }
    labels.extend(lx.used.iter().copied());
    if lx.nl == 0 {
        labels.insert("lf");
    }
    GenFile { text, model: g, labels }
}

/// First differing line of the `{:#?}` renderings.
fn first_difference(got: &GenericStationDescription, want: &GenericStationDescription) -> String {
    let a = format!("{:#?}", got);
    let b = format!("{:#?}", want);
    let mut path: Vec<String> = vec![];
    for (x, y) in a.lines().zip(b.lines()) {
        if x != y {
            return format!("parser returned `{}` where the file says `{}` (inside {})", x.trim(), y.trim(), path.last().cloned().unwrap_or_default());
        }
        if x.trim_end().ends_with('{') || x.trim_end().ends_with('[') || x.trim_end().ends_with('(') {
            path.push(x.trim().to_string());
        }
    }
    if a.lines().count() != b.lines().count() {
        return format!("parser returned {} lines of description, the file says {}", a.lines().count(), b.lines().count());
    }
    // Slot prints module names only
    for (x, y) in got.slots.iter().zip(want.slots.iter()) {
        if x != y {
            return format!("slot {:?}: default {:?} / allowed {:?}, the file says default {:?} / allowed {:?}", x.name, x.default, x.allowed_modules, y.default, y.allowed_modules);
        }
    }
    "descriptions differ in a field the Debug rendering does not show".into()
}

fn short_err(e: &parser::ParseError) -> String {
    let s = e.to_string();
    let lines: Vec<&str> = s.lines().collect();
    lines.iter().rev().take(3).rev().cloned().collect::<Vec<_>>().join(" | ")
}

// ---------------------------------------------------------------------------------------------
// Mutation
// ---------------------------------------------------------------------------------------------

const REPL: [&str; 30] = [
    "\"str\"", "5", "0x1F", "-3", "4294967296", "99999999999999999999", "1,2,3", "0@fam", "Float32", "Bit(9)", "BitArea(5-2)", "(", ")", "=", "", "\n",
    "Unsigned8", "EndModule", "Ext_User_Prm_Data_Ref", "Unit_Diag_Bit", "Slot", "1.5", "0x", "\"", "Prm_Text_Ref=77", "Module", "\\", ";", "-", "\r",
];

const VALUES: [&str; 22] = [
    "5", "\"str\"", "0x1F", "1,2,3", "0@fam", "Foo", "", "\"unterminated", "-3", "1.5", "1 2", "\"a\" 1,2", "(1)", "1-2", "\"a\",\"b\"", "0x", "1,", ",1",
    "4294967296", "Unsigned8 1", "\"x\" 1 1-3", "1,\"two\",3",
];

const EXTREMES: [&str; 20] = [
    "0", "-1", "255", "256", "65535", "65536", "4294967295", "4294967296", "-4294967296", "9223372036854775807", "9223372036854775808", "-9223372036854775808",
    "-9223372036854775809", "99999999999999999999", "0xFFFFFFFF", "0x100000000", "0xFFFFFFFFFFFFFFFF", "0x7FFFFFFFFFFFFFFFF", "1.5", "-0",
];

const TYPES: [&str; 20] = [
    "Float32", "Unsigned64", "Bit(9)", "Bit(8)", "Bit(255)", "Bit(256)", "Bit(-1)", "BitArea(5-2)", "BitArea(0-8)", "BitArea(7-0)", "BitArea(3-300)", "BitArea(1,2)", "Bit", "BitArea",
    "\"Unsigned8\"", "5", "Unsigned8(1)", "OctetString", "Bit()", "unsigned8",
];

const KEYWORDS: [&str; 36] = [
    "Ext_User_Prm_Data_Ref", "Ext_User_Prm_Data_Const", "Unit_Diag_Bit", "Unit_Diag_Bit_Help", "Unit_Diag_Not_Bit", "Unit_Diag_Not_Bit_Help", "User_Prm_Data", "User_Prm_Data_Len",
    "Max_User_Prm_Data_Len", "Ext_Module_Prm_Data_Len", "Info_Text", "Vendor_Name", "GSD_Revision", "Ident_Number", "Max_Module", "Modular_Station", "9.6_supp", "MaxTsdr_12M", "Fail_Safe",
    "PrmText", "Text", "EndPrmText", "ExtUserPrmData", "EndExtUserPrmData", "Prm_Text_Ref", "Changeable", "Visible", "Module", "EndModule", "SlotDefinition", "Slot", "EndSlotDefinition",
    "Unit_Diag_Area", "Value", "Unit_Diag_Area_End", "Data_Area_Beg",
];

fn lines_of(s: &str) -> Vec<String> {
    s.split_inclusive('\n').map(|l| l.to_string()).collect()
}

/// Split a line into (body, line ending).
fn split_eol(l: &str) -> (&str, &str) {
    let body = l.trim_end_matches(|c| c == '\r' || c == '\n');
    (body, &l[body.len()..])
}

fn pick_where(t: &mut Tape, lines: &[String], pred: impl Fn(usize, &str) -> bool) -> Option<usize> {
    let c: Vec<usize> = (0..lines.len()).filter(|i| pred(*i, &lines[*i])).collect();
    if c.is_empty() {
        // the choice is consumed either way, so that tapes stay aligned
        t.raw();
        None
    } else {
        Some(*t.pick(&c))
    }
}

fn is_number(tok: &str) -> bool {
    let d = tok.strip_prefix('-').unwrap_or(tok);
    (!d.is_empty() && d.chars().all(|c| c.is_ascii_digit())) || (tok.starts_with("0x") && tok.len() > 2 && tok[2..].chars().all(|c| c.is_ascii_hexdigit()))
}

fn tokens(src: &str) -> Vec<String> {
    let mut toks: Vec<String> = vec![];
    let mut cur = String::new();
    for ch in src.chars() {
        if "=(),\n\r \t\"-;\\".contains(ch) {
            if !cur.is_empty() {
                toks.push(std::mem::take(&mut cur));
            }
            toks.push(ch.to_string());
        } else {
            cur.push(ch);
        }
    }
    if !cur.is_empty() {
        toks.push(cur);
    }
    toks
}

/// One mutation; returns the new text and the class of damage.
fn mutate_once(t: &mut Tape, src: &str) -> (String, &'static str) {
    let kind = t.weighted(&[6, 4, 3, 3, 3, 3, 3, 2]);
    let mut lines = lines_of(src);
    let has_eq = |_: usize, l: &str| l.contains('=') && !l.trim_start().starts_with(';');
    match kind {
        // token level: replace / delete / duplicate / insert
        0 => {
            let mut toks = tokens(src);
            if toks.is_empty() {
                return (t.pick(&REPL).to_string(), "token");
            }
            let i = t.below(toks.len() as u64) as usize;
            match t.below(4) {
                0 => toks[i] = t.pick(&REPL).to_string(),
                1 => {
                    toks.remove(i);
                }
                2 => {
                    let k = t.below(toks.len() as u64) as usize;
                    let c = toks[k].clone();
                    toks.insert(i, c);
                }
                _ => toks.insert(i, t.pick(&REPL).to_string()),
            }
            (toks.concat(), "token")
        }
        // a value of another kind after '='
        1 => {
            if let Some(i) = pick_where(t, &lines, has_eq) {
                let (body, eol) = split_eol(&lines[i]);
                let cut = body.find('=').unwrap() + 1;
                lines[i] = format!("{}{}{}", &body[..cut], t.pick(&VALUES), eol);
            }
            (lines.concat(), "value-kind")
        }
        // references to ids that are not defined
        2 => {
            let is_ref = |_: usize, l: &str| {
                let l = l.to_lowercase();
                (l.contains("prm_text_ref") || l.contains("ext_user_prm_data_ref")) && l.contains('=')
            };
            let insert = t.chance(1, 3);
            let id = *t.pick(&["77", "0", "65535", "65536", "4294967295", "99999999999", "\"x\"", "", "-1", "1,2"]);
            match pick_where(t, &lines, is_ref) {
                Some(i) if !insert => {
                    let (body, eol) = split_eol(&lines[i]);
                    let cut = body.find('=').unwrap() + 1;
                    lines[i] = format!("{}{}{}", &body[..cut], id, eol);
                }
                _ => {
                    let at = t.below(lines.len() as u64 + 1) as usize;
                    let line = *t.pick(&["Ext_User_Prm_Data_Ref(0)=", "Prm_Text_Ref=", "Ext_User_Prm_Data_Ref=", "Ext_User_Prm_Data_Const(0)="]);
                    lines.insert(at, format!("{line}{id}\n"));
                }
            }
            (lines.concat(), "dangling-ref")
        }
        // indexed keyword without (complete) parentheses
        3 => {
            let indexed = |_: usize, l: &str| match (l.find('('), l.find('=')) {
                (Some(p), Some(e)) => p < e && !l.trim_start().starts_with(';'),
                _ => false,
            };
            if let Some(i) = pick_where(t, &lines, indexed) {
                let l = lines[i].clone();
                let p = l.find('(').unwrap();
                let q = l[p..].find(')').map(|x| x + p).unwrap_or(p);
                lines[i] = match t.below(5) {
                    0 => format!("{}{}", &l[..p], &l[(q + 1).min(l.len())..]),
                    1 => format!("{}{}", &l[..p], &l[p + 1..]),
                    2 => format!("{}{}", &l[..q], &l[(q + 1).min(l.len())..]),
                    3 => format!("{}(){}", &l[..p], &l[(q + 1).min(l.len())..]),
                    _ => format!("{}(\"x\"){}", &l[..p], &l[(q + 1).min(l.len())..]),
                };
            }
            (lines.concat(), "parentheses")
        }
        // numeric extremes
        4 => {
            let mut toks = tokens(src);
            let nums: Vec<usize> = (0..toks.len()).filter(|i| is_number(&toks[*i])).collect();
            if nums.is_empty() {
                t.raw();
            } else {
                let i = *t.pick(&nums);
                toks[i] = t.pick(&EXTREMES).to_string();
            }
            (toks.concat(), "numeric-extreme")
        }
        // data type names
        5 => {
            let c: Vec<usize> = (1..lines.len()).filter(|i| lines[*i - 1].trim_start().to_lowercase().starts_with("extuserprmdata")).collect();
            if c.is_empty() {
                t.raw();
                let at = t.below(lines.len() as u64 + 1) as usize;
                lines.insert(at, format!("ExtUserPrmData=9 \"x\"\n{} 0\nEndExtUserPrmData\n", t.pick(&TYPES)));
            } else {
                let i = *t.pick(&c);
                let (body, eol) = split_eol(&lines[i]);
                let rest = body.trim_start();
                let cut = rest.find(|ch: char| ch == ' ' || ch == '\t').unwrap_or(rest.len());
                lines[i] = format!("{}{}{}", t.pick(&TYPES), &rest[cut..], eol);
            }
            (lines.concat(), "type-name")
        }
        // whole lines: delete, duplicate, swap, truncate
        6 => {
            if lines.is_empty() {
                return (String::new(), "lines");
            }
            let i = t.below(lines.len() as u64) as usize;
            match t.below(4) {
                0 => {
                    lines.remove(i);
                }
                1 => {
                    let k = t.below(lines.len() as u64 + 1) as usize;
                    let l = lines[i].clone();
                    lines.insert(k, l);
                }
                2 => {
                    let k = t.below(lines.len() as u64) as usize;
                    lines.swap(i, k);
                }
                _ => lines.truncate(i),
            }
            (lines.concat(), "lines")
        }
        // another keyword in front of the value
        _ => {
            if let Some(i) = pick_where(t, &lines, has_eq) {
                let l = lines[i].clone();
                let cut = l.find(|c: char| c == '=' || c == '(').unwrap();
                lines[i] = format!("{}{}", t.pick(&KEYWORDS), &l[cut..]);
            }
            (lines.concat(), "keyword")
        }
    }
}

fn never_panics(text: &str, obs: &mut Obs) -> CaseResult {
    let path = std::path::Path::new("case.gsd");
    let (res, warnings) = parser::parse_with_warnings(path, text);
    std::hint::black_box(warnings.len());
    let plain = parser::parse(path, text);
    obs.label(if res.is_ok() { "parsed" } else { "error-value" });
    std::hint::black_box(plain.is_ok());
    Ok(())
}

const SOUP: [&str; 48] = [
    "\n", "\n", "\r\n", " ", "=", "=", "(", ")", ",", "-", "\"", "\"text\"", ";", "\\", "\\\n", "0", "1", "255", "0x1F", "-3", "1.5", "0@fam", "#Profibus_DP\n", "Module", "EndModule", "PrmText",
    "Text", "EndPrmText", "ExtUserPrmData", "EndExtUserPrmData", "Unsigned8", "Bit", "BitArea", "Prm_Text_Ref", "Changeable", "Visible", "SlotDefinition", "Slot", "EndSlotDefinition",
    "Ext_User_Prm_Data_Ref", "Ext_User_Prm_Data_Const", "Unit_Diag_Bit", "Unit_Diag_Area", "Value", "Unit_Diag_Area_End", "User_Prm_Data", "Data_Area_Beg", "Data_Area_End",
];

pub fn property() -> Property {
    Property {
        id: "C19",
        rule: "cases: (roundtrip) a station description decoded from a choice tape - identification strings and numbers, speeds, response times, PrmText blocks, ExtUserPrmData definitions of every data type with range / set constraints, text references, Changeable / Visible, station parameters in Ext_User_Prm_Data, legacy User_Prm_Data(_Len) (both orders) or both styles, unit diagnostics, modules with references, parameter data, Info_Text and data areas, slot definitions with ranges and sets - rendered as GSD text with keyword case, blanks around '=' and inside parentheses, indentation, trailing and full-line comments, blank lines, '\\'-continuations in number lists and strings, LF / CRLF / mixed line ends, decimal / hex / zero-padded numbers, text before the #Profibus_DP marker, skipped keywords and blocks, and shuffled order of independent keywords; only text the grammar gsd.pest defines as well-formed is produced; parse() must return a description equal (==) to the model.  (mutants) one to three grammar-aware mutations (token replace / delete / duplicate / insert, value of another kind, dangling Prm_Text_Ref / Ext_User_Prm_Data_Ref ids, missing or broken parentheses after indexed keywords, numeric extremes, unknown / malformed data type names such as Float32, Bit(9), BitArea(5-2), line deletion / duplication / swap / truncation, keyword swaps) applied to a rendered text or to the shipped tests/data/mock.gsd (read from the working tree); (random) random bytes (lossy UTF-8), printable soup and GSD token soup with and without the marker.  For mutants and random text parse() and parse_with_warnings() must return Ok or Err; a panic is a violation.  Non-trivial: roundtrip = at least one module or ExtUserPrmData; mutants / random = the text still contains the marker (so it reaches the statement interpreter); distinct by text.",
        assumptions: vec![
            "well-formed = accepted by gsd.pest and by the checks the statement interpreter documents: legacy User_Prm_Data_Len >= number of User_Prm_Data bytes, references name defined ids, slot defaults name an existing module reference (<= 65535), numbers fit the field's integer type, booleans are written 0 / 1",
            "documented normalisations are part of the model: Max_Module defaults to 1 and is forced to 1 for compact stations (Modular_Station = 0); legacy User_Prm_Data(_Len) is ignored as soon as Ext_User_Prm_Data_Const/_Ref or Max_User_Prm_Data_Len appears anywhere in the file; UserPrmData.length stays 0 for Ext_User_Prm_Data descriptions; slot ranges / sets silently skip references that no module carries",
            "each keyword occurs at most once per scope (except the indexed ones), ids of PrmText / ExtUserPrmData / module references are unique; a lone CR is a line end (pest NEWLINE) but is never put inside a string continuation",
            "the marker line is exactly '#Profibus_DP' in any letter case followed by a line end (no blanks around it); lines in front of it are arbitrary but do not start with the marker",
            "mock.gsd is read from /repo/gsd-parser/tests/data/mock.gsd at run time",
        ],
        subchecks: vec![
            SubCheck::tape("roundtrip", "well-formed rendered files parse back to exactly the generated description", |t, obs| {
                let f = gen_file(t);
                for l in &f.labels {
                    obs.label(l);
                }
                obs.count("tape-choices", t.used() as u64);
                obs.count("text-bytes", f.text.len() as u64);
                if !f.model.available_modules.is_empty() || f.text.to_lowercase().contains("extuserprmdata") {
                    obs.nontrivial(fingerprint(&f.text));
                }
                obs.sample(|| json!({"gsd_text": f.text}));
                match parser::parse(std::path::Path::new("case.gsd"), &f.text) {
                    Err(e) => fail!("wellformed-rejected", "well-formed file rejected: {}\n----- file -----\n{}\n-----", short_err(&e), f.text),
                    Ok(got) => {
                        ensure!(got == f.model, "roundtrip-mismatch", "{}\n----- file -----\n{}\n-----", first_difference(&got, &f.model), f.text);
                    }
                }
                Ok(())
            }),
            SubCheck::tape("mutants", "1..3 grammar-aware mutations of rendered files and of mock.gsd: Ok or Err, never a panic", |t, obs| {
                // mutation choices first, so that they survive when the shrinker cuts the tape
                let n = 1 + t.below(3) as usize;
                let raws: Vec<u32> = (0..n * 6).map(|_| t.raw()).collect();
                let mut text = if t.chance(2, 3) {
                    obs.label("base:rendered");
                    gen_file(t).text
                } else {
                    obs.label("base:mock.gsd");
                    mock_gsd().to_string()
                };
                let mut classes = vec![];
                for k in 0..n {
                    let mut mt = Tape::new(&raws[k * 6..(k + 1) * 6]);
                    let (s, class) = mutate_once(&mut mt, &text);
                    text = s;
                    obs.label(&format!("mutation:{class}"));
                    classes.push(class);
                }
                if text.to_lowercase().contains("#profibus_dp") {
                    obs.nontrivial(fingerprint(&text));
                }
                obs.sample(|| json!({"mutations": classes, "gsd_text": text}));
                never_panics(&text, obs)
            }),
            SubCheck::tape("fuzz_bytes", "raw bytes as (lossy) UTF-8 text (entry of the libFuzzer target fz_gsd); byte 0 odd: the marker line is put in front", |t, obs| {
                let b = t.rest_bytes();
                let mut text = String::new();
                if b.first().map(|x| x & 1 == 1).unwrap_or(false) {
                    text.push_str("#Profibus_DP\n");
                }
                text.push_str(&String::from_utf8_lossy(b.get(1..).unwrap_or(&[])));
                never_panics(&text, obs)
            }),
            SubCheck::tape("random", "random bytes, printable soup and GSD token soup, with and without the marker: Ok or Err, never a panic", |t, obs| {
                let mode = t.below(4);
                let marker = mode >= 1 || t.bool();
                let mut text = String::new();
                if marker {
                    text.push_str(*t.pick(&["#Profibus_DP\n", "#PROFIBUS_DP\r\n", "#profibus_dp\n;\n"]));
                }
                match mode {
                    0 => {
                        obs.label("bytes");
                        let n = t.below(200) as usize;
                        let b = t.fill(n);
                        text.push_str(&String::from_utf8_lossy(&b));
                    }
                    1 => {
                        obs.label("printable-soup");
                        const ALPHA: &[u8] = b"=(),-\"; \n\n\\09azAZ_.#x@\t\r";
                        let n = t.below(120) as usize;
                        for b in t.fill(n) {
                            text.push(ALPHA[usize::from(b) % ALPHA.len()] as char);
                        }
                    }
                    2 => {
                        obs.label("token-soup");
                        let n = t.below(40);
                        for _ in 0..n {
                            text.push_str(*t.pick(&SOUP));
                            if t.bool() {
                                text.push(' ');
                            }
                        }
                    }
                    _ => {
                        // lines `keyword [(index)] = value` in random combination
                        obs.label("statement-soup");
                        let n = 1 + t.below(8);
                        for _ in 0..n {
                            text.push_str(*t.pick(&KEYWORDS));
                            if t.chance(1, 3) {
                                text.push_str(*t.pick(&["(0)", "(1)", "()", "(", "(\"x\")", "(-1)", "(4294967296)"]));
                            }
                            if !t.chance(1, 8) {
                                text.push('=');
                                text.push_str(*t.pick(&VALUES));
                            }
                            text.push('\n');
                        }
                    }
                }
                if text.to_lowercase().contains("#profibus_dp") {
                    obs.label("with-marker");
                    obs.nontrivial(fingerprint(&text));
                }
                obs.sample(|| json!({"text": text}));
                never_panics(&text, obs)
            }),
        ],
        plan: |tier| match tier {
            Tier::Quick => vec![
                Step::Pbt { kind: "roundtrip", cases: 15_000, max_len: 400 },
                Step::Pbt { kind: "mutants", cases: 100_000, max_len: 400 },
                Step::Pbt { kind: "random", cases: 25_000, max_len: 90 },
            ],
            Tier::Thorough => vec![
                Step::Pbt { kind: "roundtrip", cases: 100_000, max_len: 400 },
                Step::Pbt { kind: "mutants", cases: 800_000, max_len: 400 },
                Step::Pbt { kind: "random", cases: 200_000, max_len: 90 },
                Step::Fuzz { target: "fz_gsd", runs: 1_500_000 },
            ],
        },
        hang_is_violation: true,
        hang_limit_s: 0,
        probes: vec![],
    }
}
