//! C11 Token hand-over follows the acceptance, supervision and retry rules.
use crate::engine::*;
use crate::envsim::*;
use crate::refcodec::{self as rc, RefFrame};
use crate::{ensure, fail};
use profirust::Baudrate;
use serde_json::json;

const TS: u8 = 5;
const P: u8 = 6; // partner: successor and predecessor in the two-station ring
const X: u8 = 2; // stranger
const Y: u8 = 3; // second stranger
const SLOT: i64 = 300;

#[derive(Clone, Copy, Debug, PartialEq)]
pub enum Act {
    Tok(u8, u8), // sa, da
    StatReq(u8),
    StatResp(u8),
    Sc,
    Quiet(i64), // bits
}

pub const ALPHABET: [Act; 17] = [
    Act::Tok(P, TS),
    Act::Tok(X, TS),
    Act::Tok(Y, TS),
    Act::Tok(P, X),
    Act::Tok(X, P),
    Act::Tok(200, TS),
    Act::Tok(TS, P),
    // 126 is not a station address (0..=125): a token telegram carrying it is noise
    Act::Tok(126, TS),
    Act::Tok(126, P),
    // a second station with the own address claims the token
    Act::Tok(TS, TS),
    Act::StatReq(P),
    Act::StatReq(X),
    Act::StatResp(X),
    Act::Sc,
    Act::Quiet(SLOT / 2),
    Act::Quiet(SLOT * 3 / 2),
    Act::Quiet(SLOT * (6 + 2 * TS as i64 + 2)),
];

fn bytes(a: Act) -> Vec<u8> {
    match a {
        Act::Tok(sa, da) => token(sa, da),
        Act::StatReq(sa) => status_req(TS, sa),
        Act::StatResp(sa) => status_resp(TS, sa, 2),
        Act::Sc => vec![rc::SC],
        Act::Quiet(_) => vec![],
    }
}

fn new_world() -> World {
    World::new(TS, 8, Baudrate::B1500000, SLOT as u16, 100, None)
}

/// Bring TS into a two-station ring with partner P; P holds the token, TS is idle.
fn to_ring_idle(w: &mut World) -> Result<(), Failure> {
    let mut guard = 0;
    let mut seen = 0;
    loop {
        w.step(5);
        guard += 1;
        ensure!(guard < 2_000_000, "harness", "station never offered the token to its partner");
        let recs = w.sent_since(seen);
        let Some(t) = recs.last().cloned() else { continue };
        if (t.end_ns + 999) / 1000 + 8 > w.now {
            continue;
        }
        seen = w.trace_len();
        match rc::decode_one(&t.bytes) {
            Some(RefFrame::Data { da, fc: 0x49, .. }) if da == P => {
                let r = status_resp(TS, P, 2);
                w.bus.inject(ENV, w.now, &r);
            }
            Some(RefFrame::Token { da, sa }) if da == P && sa == TS => break,
            _ => {}
        }
    }
    // partner uses the token (one request to somebody else), so TS hears it and goes idle
    w.inject(&status_req(7, P), &mut ());
    w.step(w.bit_us(60));
    Ok(())
}

pub struct Tally {
    pub accepted: u64,
    pub declined: u64,
}

/// Run one action sequence from one start state and judge it.
pub fn run_sequence(start: u64, acts: &[Act], tally: &mut Tally) -> CaseResult {
    let mut w = new_world();
    match start {
        0 => to_ring_idle(&mut w)?,
        _ => w.step(50),
    }
    let mut offered: Vec<u8> = vec![]; // strangers that offered since TS last acted as owner
    let mut prev_offer: Option<u8> = None; // stranger of the immediately preceding action, if it was a declined offer
    for (k, a) in acts.iter().enumerate() {
        // the environment waits for an idle bus first; the station may act meanwhile, so the
        // observers are read after that
        match a {
            Act::Quiet(_) => w.wait_idle(1, &mut ()),
            _ => w.wait_idle(40, &mut ()),
        }
        let online0 = w.fdl.connectivity_state() == profirust::fdl::ConnectivityState::Online;
        let in_ring = w.fdl.is_in_ring();
        let ps = w.fdl.inspect_token_ring().previous_station();
        let ns = w.fdl.inspect_token_ring().next_station();
        let las: Vec<u8> = w.fdl.inspect_token_ring().iter_active_stations().collect();
        let st = w.state_name();
        let holding = w.holds_token();
        let checking = st == "CheckTokenPass";
        let idx = w.trace_len();
        match a {
            Act::Quiet(bits) => {
                w.step(w.bit_us(*bits));
            }
            _ => {
                w.inject_now(&bytes(*a), &mut ());
                w.step(w.bit_us(SLOT));
            }
        }
        let mut sent = w.frames_since(idx);
        // Only what the station transmits after the environment's telegram has completely arrived
        // is a reaction to it.  If the station started transmitting before (its slot timer ran out
        // just then), the two collided, the station was deaf, and the step carries no obligation.
        if !matches!(a, Act::Quiet(_)) {
            let env_end = w.bus.0.borrow().trace[idx..].iter().find(|r| r.sender == ENV).map(|r| r.end_ns).unwrap_or(i64::MAX);
            let collided = sent.iter().any(|(t, _)| t.start_ns < env_end);
            if collided {
                prev_offer = None;
                offered.clear();
                continue;
            }
            sent.retain(|(t, _)| t.start_ns >= env_end);
        }
        let initiated: Vec<&RefFrame> = sent.iter().filter_map(|(_, f)| f.as_ref()).filter(|f| f.is_token() || f.is_request()).collect();
        let replies: Vec<&RefFrame> = sent.iter().filter_map(|(_, f)| f.as_ref()).filter(|f| f.is_response()).collect();
        let ctx = || format!("{}step {k} {:?} from state {st} (in_ring={in_ring} PS={ps} NS={ns} LAS={las:?}); station sent {:?}; sequence {:?}, start {}", if std::env::var("PBVERIF_DUMP").is_ok() { w.bus.0.borrow().trace.iter().rev().take(12).rev().map(|r| format!("  {} ns node{} {}\n", r.start_ns, r.sender, crate::props::c09::hex(&r.bytes))).collect::<String>() } else { String::new() }, a, sent.iter().map(|(t, _)| crate::props::c09::hex(&t.bytes)).collect::<Vec<_>>(), acts, if start == 0 { "in-ring idle" } else { "listening" });
        ensure!(sent.iter().all(|(_, f)| f.is_some()), "undecodable-tx", "station transmitted an undecodable frame: {}", ctx());
        // replies only to status requests addressed to TS
        if !replies.is_empty() && !matches!(a, Act::StatReq(_)) {
            fail!("unsolicited-reply", "status reply without a request: {}", ctx());
        }
        if !online0 {
            // took itself offline (duplicate address rule): no obligations, but must stay silent
            ensure!(sent.is_empty(), "offline-transmits", "offline station transmitted: {}", ctx());
            continue;
        }
        if let Act::StatReq(sa) = a {
            let online_now = w.fdl.connectivity_state() == profirust::fdl::ConnectivityState::Online;
            if !holding && !checking && online_now {
                let ok = replies.len() == 1 && matches!(replies[0], RefFrame::Data { da, sa: rsa, .. } if da == sa && *rsa == TS);
                ensure!(ok, "status-request-unanswered", "status request addressed to the station not answered exactly once: {}", ctx());
            }
        }
        if holding {
            // TS is token owner: acceptance rules do not apply to this step
            if !initiated.is_empty() {
                prev_offer = None;
                offered.clear();
            }
            continue;
        }
        match a {
            Act::Tok(sa, da) if *da == TS && in_ring => {
                let justified = *sa == ps || offered.contains(sa);
                let collision = *sa == TS;
                if !initiated.is_empty() {
                    // independent of what the station itself registered as predecessor: an address
                    // above 125 is no station, a first offer carrying it is never to be used
                    if *sa > 125 && !offered.contains(sa) {
                        fail!("invalid-address-accepted", "first token offer from the invalid address #{sa} used (registered predecessor #{ps}): {}", ctx());
                    }
                    if !justified || collision {
                        fail!("token-accepted-without-right", "token from #{sa} used although it is neither the registered predecessor (#{ps}) nor a second offer: {}", ctx());
                    }
                    tally.accepted += 1;
                    offered.clear();
                    prev_offer = None;
                } else {
                    if *sa == ps && !collision && !checking {
                        fail!("predecessor-token-declined", "token from the registered predecessor #{ps} not accepted: {}", ctx());
                    }
                    if prev_offer == Some(*sa) && *sa <= 125 && !collision && !checking {
                        fail!("second-offer-declined", "second consecutive token offer by #{sa} not accepted: {}", ctx());
                    }
                    tally.declined += 1;
                    offered.push(*sa);
                    prev_offer = Some(*sa);
                }
            }
            Act::Tok(_, da) if *da == TS && !in_ring => {
                prev_offer = None;
                if !initiated.is_empty() {
                    fail!("listener-used-token", "a station that is merely listening used a token: {}", ctx());
                }
            }
            Act::Quiet(bits) if *bits > SLOT || checking => {
                // retry of the own pass, or the claim after the own time-out, are allowed
                prev_offer = None;
                if !initiated.is_empty() {
                    offered.clear();
                }
                if !in_ring && !initiated.is_empty() {
                    // a listening station may only claim (token to itself) and then act as owner
                    let first = initiated[0];
                    ensure!(matches!(first, RefFrame::Token { da, sa } if *da == TS && *sa == TS), "listener-initiates", "listening station initiated {:?} without claiming first: {}", first, ctx());
                }
            }
            _ => {
                // (answering a status request is no reason to forget a first offer)
                if !(matches!(a, Act::StatReq(_)) && initiated.is_empty()) {
                    prev_offer = None;
                }
                if !initiated.is_empty() && !checking {
                    fail!("initiated-without-token", "station initiated a telegram without holding the token: {}", ctx());
                }
                if !initiated.is_empty() {
                    offered.clear();
                }
            }
        }
    }
    Ok(())
}

/// Supervision of the own token pass.  `heard_after`: the successor is heard after the k-th pass
/// (None: never).  `heard_kind` selects what is heard.
fn supervision_case(heard_after: Option<usize>, heard_kind: u64, delay_frac: u64, tx_latency_bits: i64, obs: &mut Obs) -> CaseResult {
    let mut w = new_world();
    to_ring_idle(&mut w)?;
    // a PHY whose transmission ends later than nominal: the slot time counts from the real end
    w.bus.0.borrow_mut().tx_latency_us[0] = w.bit_us(tx_latency_bits);
    if tx_latency_bits > 0 {
        obs.label("phy-with-transmit-latency");
    }
    w.inject(&token(P, TS), &mut ());
    let mut passes: Vec<i64> = vec![];
    let mut seen = w.trace_len();
    // TS got the token: it will pass it on to P (no applications); observe passes
    let mut heard_done = false;
    let t_end = w.now + w.bit_us(SLOT * 8);
    while w.now < t_end {
        w.step(5);
        let new: Vec<_> = w.frames_since(seen);
        seen = w.trace_len();
        for (t, f) in new {
            if let Some(RefFrame::Token { da, sa }) = f {
                if da == P && sa == TS {
                    passes.push(t.start_ns);
                    if Some(passes.len() - 1) == heard_after && !heard_done {
                        heard_done = true;
                        let end_us = (t.end_ns + 999) / 1000;
                        // heard inside the slot time: 40 bit .. ~SLOT-60 bit after the pass
                        let d = 40 + (SLOT - 110) * delay_frac as i64 / 8;
                        while w.now < end_us + w.bit_us(d) {
                            w.step(5);
                        }
                        let hb = match heard_kind % 6 {
                            0 => status_req(7, P),
                            1 => token(P, 7),
                            2 => rc::encode(&RefFrame::Data { da: 7, sa: P, dsap: None, ssap: None, fc: 0x6C, pdu: vec![1, 2, 3] }),
                            // undecodable activity: the successor is transmitting, its telegram is damaged
                            3 => vec![0x00, 0x55, 0xAA],
                            4 => {
                                let mut f = status_req(7, P);
                                f[4] ^= 0x10; // checksum
                                f
                            }
                            _ => {
                                let mut f = rc::encode(&RefFrame::Data { da: 7, sa: P, dsap: None, ssap: None, fc: 0x6C, pdu: vec![1, 2, 3] });
                                f[2] ^= 0x01; // repeated length byte
                                f
                            }
                        };
                        w.bus.inject(ENV, w.now, &hb);
                    }
                } else if heard_after.is_none() && da != P {
                    // after giving up on P the token goes elsewhere (to itself here)
                }
            }
        }
    }
    let las: Vec<u8> = w.fdl.inspect_token_ring().iter_active_stations().collect();
    // silence between the end of a pass and the start of its repetition (a token is 33 bit times long)
    let gaps_bits: Vec<i64> = passes.windows(2).map(|p| (p[1] - p[0]) * 1_500_000 / 1_000_000_000 - 33).collect();
    match heard_after {
        None => {
            ensure!(passes.len() == 3, "pass-attempts", "silent successor: {} token passes to it (expected the pass and two repetitions)", passes.len());
            ensure!(gaps_bits.iter().all(|g| *g >= SLOT), "retry-spacing", "token repeated after {:?} bit times of silence (slot time {})", gaps_bits, SLOT);
            ensure!(!las.contains(&P), "silent-successor-kept", "silent successor still in the LAS {:?} after three attempts", las);
            // and the token goes to the new successor (itself)
            let b = w.bus.0.borrow();
            let to_self = b.trace.iter().filter(|t| t.sender == 0 && t.start_ns > *passes.last().unwrap()).any(|t| t.bytes == token(TS, TS));
            ensure!(to_self, "no-pass-after-removal", "after removing the silent successor the token was not passed on (to itself)");
            obs.label("silent-successor");
        }
        Some(k) => {
            ensure!(passes.len() == k + 1, "repeat-after-heard", "successor was heard after pass #{} but the token was passed {} times", k + 1, passes.len());
            ensure!(las.contains(&P), "heard-successor-removed", "successor was heard but is no longer in the LAS {:?}", las);
            obs.label(&format!("heard-after-pass-{}", k + 1));
        }
    }
    Ok(())
}

/// A stranger offers the token twice, one slot time apart, while the station is not polled (an
/// application stall of a little more than a slot time): the next poll finds both offers in the
/// receive buffer.  The second offer is an offer 'a second time' like any other.
fn late_poll_case(stranger: u8, gap_bits: i64, resume_bits: i64, obs: &mut Obs) -> CaseResult {
    let mut w = new_world();
    to_ring_idle(&mut w)?;
    w.wait_idle(40, &mut ());
    let idx = w.trace_len();
    // no polls from here on
    w.bus.inject(ENV, w.now, &token(stranger, TS));
    w.now = w.last_end_us() + w.bit_us(gap_bits);
    w.bus.inject(ENV, w.now, &token(stranger, TS));
    w.now = w.last_end_us() + w.bit_us(resume_bits);
    // polls resume
    w.step(w.bit_us(3 * SLOT));
    let used = w.frames_since(idx).iter().any(|(_, f)| matches!(f, Some(RefFrame::Token { sa, .. }) if *sa == TS));
    ensure!(used, "second-offer-declined", "#{} offered the token twice ({} bit times apart) while the station was not polled; {} bit times after the second offer the polls resumed, but the station did not take the token (state {}, transmissions {:?})", stranger, gap_bits, resume_bits, w.state_name(), w.frames_since(idx).iter().map(|x| x.1.clone()).collect::<Vec<_>>());
    obs.label("both-offers-found-by-one-poll");
    Ok(())
}

/// While the station supervises its own token pass, one late poll finds a whole batch: two token
/// telegrams that carry its own address as source (the duplicate-address rule makes it withdraw)
/// and one more telegram behind them.  Having withdrawn, it must not take a token (and not panic).
fn burst_after_pass_case(third: u64, gap_bits: i64, obs: &mut Obs) -> CaseResult {
    let mut w = new_world();
    to_ring_idle(&mut w)?;
    w.inject(&token(P, TS), &mut ());
    // wait for the station's own pass to P
    let mut seen = w.trace_len();
    let mut passed_at: Option<i64> = None;
    let t_end = w.now + w.bit_us(SLOT * 4);
    while w.now < t_end && passed_at.is_none() {
        w.step(5);
        for (t, f) in w.frames_since(seen) {
            if let Some(RefFrame::Token { da, sa }) = f {
                if da == P && sa == TS {
                    passed_at = Some((t.end_ns + 999) / 1000);
                }
            }
        }
        seen = w.trace_len();
    }
    let Some(end_us) = passed_at else { fail!("harness", "station did not pass the token on") };
    // no polls from here on: the batch arrives inside the slot time
    w.now = end_us + w.bit_us(40);
    let third_bytes = match third {
        0 => token(P, TS),
        1 => status_req(TS, P),
        _ => token(P, X),
    };
    for b in [token(TS, 7), token(TS, 7), third_bytes] {
        w.bus.inject(ENV, w.now, &b);
        w.now = w.last_end_us() + w.bit_us(gap_bits);
    }
    let idx = w.trace_len();
    w.step(w.bit_us(5 * SLOT));
    let used = w.frames_since(idx).iter().any(|(_, f)| matches!(f, Some(RefFrame::Token { sa, .. }) if *sa == TS));
    ensure!(!used, "token-used-after-withdrawing", "two telegrams with the station's own address as source reached it while it supervised its token pass, followed by {:?}: it passed a token on afterwards (state {})", rc::decode_one(&match third { 0 => token(P, TS), 1 => status_req(TS, P), _ => token(P, X) }), w.state_name());
    obs.label("batch-with-two-own-address-tokens-after-the-pass");
    Ok(())
}

/// Application with a single request (SRD to #7) on its first turn.
struct OneShot {
    armed: bool,
}
impl profirust::fdl::FdlApplication for OneShot {
    fn transmit_telegram(&mut self, _now: profirust::time::Instant, fdl: &profirust::fdl::FdlActiveStation, tx: profirust::fdl::TelegramTx, _hp: profirust::fdl::HighPrioOnly) -> Option<profirust::fdl::TelegramTxResponse> {
        if !self.armed {
            return None;
        }
        self.armed = false;
        Some(tx.send_data_telegram(
            profirust::fdl::DataTelegramHeader {
                da: 7,
                sa: fdl.parameters().address,
                dsap: Some(40),
                ssap: Some(41),
                fc: profirust::fdl::FunctionCode::Request { fcb: profirust::fdl::FrameCountBit::First, req: profirust::fdl::RequestType::SrdLow },
            },
            1,
            |b| b[0] = 0x11,
        ))
    }
    fn receive_reply(&mut self, _now: profirust::time::Instant, _fdl: &profirust::fdl::FdlActiveStation, _addr: u8, _telegram: profirust::fdl::Telegram) {}
    fn handle_timeout(&mut self, _now: profirust::time::Instant, _fdl: &profirust::fdl::FdlActiveStation, _addr: u8) {}
}

/// Supervision of a pass that directly follows a message cycle which ended in a time-out: the
/// reply to the station's last request never came, or broke off after `frag` bytes (`delay` bit
/// times after the request).  Whatever is left of that reply was not heard after the pass.
fn timeout_then_pass_case(frag: usize, delay: i64, heard: bool, obs: &mut Obs) -> CaseResult {
    let mut w = new_world();
    to_ring_idle(&mut w)?;
    let mut app = OneShot { armed: true };
    w.inject(&token(P, TS), &mut app);
    let reply = rc::encode(&RefFrame::Data { da: TS, sa: 7, dsap: Some(41), ssap: Some(40), fc: 0x08, pdu: vec![9; 12] });
    let mut passes: Vec<i64> = vec![];
    let mut seen = w.trace_len();
    let mut requests = 0;
    let mut heard_done = false;
    let t_end = w.now + w.bit_us(SLOT * 12);
    while w.now < t_end {
        w.run(5, &mut app);
        let new: Vec<_> = w.frames_since(seen);
        seen = w.trace_len();
        for (t, f) in new {
            match f {
                Some(RefFrame::Data { da: 7, .. }) => {
                    requests += 1;
                    if frag > 0 {
                        let end_us = (t.end_ns + 999) / 1000;
                        while w.now < end_us + w.bit_us(delay) {
                            w.run(5, &mut app);
                        }
                        w.bus.inject(ENV, w.now, &reply[..frag]);
                    }
                }
                Some(RefFrame::Token { da, sa }) if da == P && sa == TS => {
                    passes.push(t.start_ns);
                    if heard && !heard_done {
                        heard_done = true;
                        let end_us = (t.end_ns + 999) / 1000;
                        while w.now < end_us + w.bit_us(80) {
                            w.run(5, &mut app);
                        }
                        w.bus.inject(ENV, w.now, &status_req(7, P));
                    }
                }
                _ => {}
            }
        }
    }
    ensure!(requests == 1, "harness", "the application's single request was transmitted {} times", requests);
    let las: Vec<u8> = w.fdl.inspect_token_ring().iter_active_stations().collect();
    let gaps_bits: Vec<i64> = passes.windows(2).map(|p| (p[1] - p[0]) * 1_500_000 / 1_000_000_000 - 33).collect();
    if heard {
        ensure!(passes.len() == 1, "repeat-after-heard", "successor was heard after the pass but the token was passed {} times", passes.len());
        ensure!(las.contains(&P), "heard-successor-removed", "successor was heard but is no longer in the LAS {:?}", las);
    } else {
        ensure!(passes.len() == 3, "pass-attempts", "message cycle ended in a time-out ({} bytes of a reply arrived), then the token was passed to a silent successor: {} token passes to it (expected the pass and two repetitions)", frag, passes.len());
        ensure!(gaps_bits.iter().all(|g| *g >= SLOT), "retry-spacing", "token repeated after {:?} bit times of silence (slot time {})", gaps_bits, SLOT);
        ensure!(!las.contains(&P), "silent-successor-kept", "silent successor still in the LAS {:?} after three attempts", las);
    }
    obs.label(if frag > 0 { "reply-broke-off-before-the-pass" } else { "no-reply-before-the-pass" });
    Ok(())
}

/// Supervision with two successors: LAS {5, 6, 7}; #6 is dead (three passes, removed), then the
/// token goes to #7 which misses `missed` passes (0..=3) before it is heard.
fn supervision3_case(missed: usize, obs: &mut Obs) -> CaseResult {
    const A: u8 = 6;
    const B: u8 = 7;
    let mut w = new_world();
    // TS listens while the ring {6, 7} circulates the token; then #7 (its predecessor) admits it
    for _ in 0..5 {
        w.inject(&token(A, B), &mut ());
        w.step(w.bit_us(50));
        w.inject(&token(B, A), &mut ());
        w.step(w.bit_us(50));
    }
    w.inject(&token(A, B), &mut ());
    w.step(w.bit_us(50));
    let idx = w.trace_len();
    w.inject(&status_req(TS, B), &mut ());
    w.step(w.bit_us(200));
    let rep = w.frames_since(idx);
    ensure!(rep.len() == 1 && matches!(&rep[0].1, Some(RefFrame::Data { fc, .. }) if fc >> 4 & 3 == 2), "harness", "station did not report 'ready' to its predecessor after five rotations: {:?}", rep.iter().map(|x| x.1.clone()).collect::<Vec<_>>());
    w.inject(&token(B, TS), &mut ());
    // observe the passes
    let mut to_a: Vec<i64> = vec![];
    let mut to_b: Vec<i64> = vec![];
    let mut to_self = 0;
    let mut seen = w.trace_len();
    let mut heard = false;
    let t_end = w.now + w.bit_us(SLOT * 14);
    while w.now < t_end {
        w.step(5);
        let new = w.frames_since(seen);
        seen = w.trace_len();
        for (t, f) in new {
            match f {
                Some(RefFrame::Token { da, sa }) if sa == TS && da == A => to_a.push(t.start_ns),
                Some(RefFrame::Token { da, sa }) if sa == TS && da == B => {
                    to_b.push(t.start_ns);
                    if to_b.len() == missed + 1 && !heard {
                        heard = true;
                        let end_us = (t.end_ns + 999) / 1000;
                        while w.now < end_us + w.bit_us(60) {
                            w.step(5);
                        }
                        w.bus.inject(ENV, w.now, &status_req(9, B));
                    }
                }
                Some(RefFrame::Token { da, sa }) if sa == TS && da == TS => to_self += 1,
                _ => {}
            }
        }
    }
    let las: Vec<u8> = w.fdl.inspect_token_ring().iter_active_stations().collect();
    ensure!(to_a.len() == 3, "pass-attempts", "dead successor #6: {} token passes to it (expected the pass and two repetitions)", to_a.len());
    ensure!(!las.contains(&A), "silent-successor-kept", "dead successor #6 still in the LAS {:?}", las);
    if missed <= 2 {
        ensure!(to_b.len() == missed + 1, "pass-attempts", "next successor #7 missed {} passes and was then heard: {} passes to it (expected {}); LAS {:?}, passes to itself {}", missed, to_b.len(), missed + 1, las, to_self);
        ensure!(las.contains(&B), "heard-successor-removed", "successor #7 was heard after missing {} passes but is no longer in the LAS {:?}", missed, las);
        ensure!(to_self == 0, "token-kept", "token passed to itself although successor #7 is alive");
    } else {
        ensure!(to_b.len() == 3, "pass-attempts", "silent successor #7: {} passes (expected three)", to_b.len());
        ensure!(!las.contains(&B) && to_self >= 1, "silent-successor-kept", "after three silent attempts #7 must be removed and the token kept: LAS {:?}", las);
    }
    obs.label(&format!("second-successor-missed-{missed}"));
    Ok(())
}

pub fn seq_from_index(mut code: u64, depth: u32) -> Vec<Act> {
    let mut v = vec![];
    for _ in 0..depth {
        v.push(ALPHABET[(code % ALPHABET.len() as u64) as usize]);
        code /= ALPHABET.len() as u64;
    }
    v
}

fn exhaustive(i: u64, depth: u32, obs: &mut Obs) -> CaseResult {
    let start = i % 2;
    let acts = seq_from_index(i / 2, depth);
    let mut tally = Tally { accepted: 0, declined: 0 };
    let r = run_sequence(start, &acts, &mut tally);
    obs.count("accepted_offers", tally.accepted);
    obs.count("declined_offers", tally.declined);
    if acts.iter().any(|a| matches!(a, Act::Tok(_, TS))) || start == 0 {
        obs.nontrivial(i);
    }
    if i % 4001 == 0 {
        obs.sample(|| json!({"start": if start == 0 { "in-ring idle" } else { "listening" }, "actions": format!("{:?}", acts)}));
    }
    r
}

pub fn property() -> Property {
    Property {
        id: "C11",
        rule: "cases: one real station TS=5 (HSA 8, two-station ring with partner 6) against a scripted environment; ALL sequences of depth 3 (quick) / 4-5 (thorough) over a 17-symbol alphabet (tokens P->TS, X->TS, Y->TS, P->X, X->P, 200->TS, TS->P, 126->TS, 126->P, TS->TS; status request from P / X; status reply; SC; silence of Tslot/2, 1.5 Tslot, token-lost time-out) from two start states (listening; in-ring idle), random sequences up to length 40, and the supervision scenarios (successor silent / heard after the 1st, 2nd, 3rd pass, three kinds of heard telegram and three kinds of undecodable activity - noise, bad checksum, bad length repetition -, eight delays). History invariants with PS/NS read from inspect_token_ring() immediately before each offer: token from the registered predecessor is accepted, a first offer by a stranger is not, an immediately repeated offer is; a listening station never uses a token and initiates only its claim; nothing is initiated without the token; status requests to TS are answered exactly once; after the own pass: silence => identical token again after > Tslot, three in total, then the successor leaves the LAS and the token goes to the next station; heard => no repetition, successor kept; the same after a message cycle that ended in a time-out with the remains of a broken reply (timeout_then_pass), and a repeated offer found together with the first by one late poll is accepted (late_poll); a batch of two own-address tokens and a third telegram found by one late poll during the supervision makes the station withdraw without using a token or panicking (burst_after_pass). Non-trivial = sequence contains a token offer to TS or starts in the ring; distinct by sequence.",
        assumptions: vec![
            "formulated over observable ownership episodes (DESIGN 6, C11 i-v): an offer arriving while TS supervises its own pass counts as a first offer; the remembered stranger is forgotten when TS acted as owner; only one stranger is remembered; a station that saw its own address twice is Offline and has no obligations; 'heard' = a complete valid telegram polled before the slot expires",
            "the environment transmits only after 40 bit times of idle bus and the station is polled every 5 us (late_poll: one poll gap of a little more than a slot time; the telegrams found by one poll are taken in the order of their arrival, so the second of two offers found together is an offer 'a second time')",
        ],
        subchecks: vec![
            SubCheck::index("seq3", "all sequences of depth 3 from two start states", |i, obs| exhaustive(i, 3, obs)),
            SubCheck::index("seq4", "all sequences of depth 4 from two start states", |i, obs| exhaustive(i, 4, obs)),
            SubCheck::index("seq5", "all sequences of depth 5 from two start states", |i, obs| exhaustive(i, 5, obs)),
            SubCheck::tape("random", "random sequences up to length 40", |t, obs| {
                let start = t.below(2);
                let n = 1 + t.below(40) as usize;
                let acts: Vec<Act> = (0..n).map(|_| ALPHABET[t.below(ALPHABET.len() as u64) as usize]).collect();
                let mut tally = Tally { accepted: 0, declined: 0 };
                let r = run_sequence(start, &acts, &mut tally);
                obs.count("accepted_offers", tally.accepted);
                obs.count("declined_offers", tally.declined);
                obs.nontrivial(fingerprint(&(start, format!("{:?}", acts))));
                obs.sample(|| json!({"start": start, "actions": format!("{:?}", acts)}));
                r
            }),
            SubCheck::index("supervision3", "own token pass with two successors in the LAS: the first is dead (removed after three passes), the second misses 0..3 passes", |i, obs| {
                obs.nontrivial(i);
                obs.sample(|| json!({"las": [5, 6, 7], "dead": 6, "second_successor_misses": i}));
                supervision3_case(i as usize, obs)
            }),
            SubCheck::index("late_poll", "a stranger's two token offers (Tslot + 10 / 50 / 300 bit times apart) are both found by one late poll (5 / 50 bit times after the second): the second offer is accepted", |i, obs| {
                let stranger = [X, Y][(i % 2) as usize];
                let gap = SLOT + [10i64, 50, 300][((i / 2) % 3) as usize];
                let resume = [5i64, 50][((i / 6) % 2) as usize];
                obs.nontrivial(i);
                obs.sample(|| json!({"stranger": stranger, "offers_apart_bits": gap, "polls_resume_after_bits": resume}));
                late_poll_case(stranger, gap, resume, obs)
            }),
            SubCheck::index("burst_after_pass", "one late poll during the supervision of the own pass finds two token telegrams with the own address as source and a third telegram (token to TS / status request to TS / token to a stranger; 34 or 60 bit times apart): no token is used afterwards, no panic", |i, obs| {
                obs.nontrivial(i);
                let third = ["token P->TS", "status request P->TS", "token P->X"][(i % 3) as usize];
                let gap = [34i64, 60][((i / 3) % 2) as usize];
                obs.sample(|| json!({"third_telegram": third, "gap_bits": gap}));
                burst_after_pass_case(i % 3, [34i64, 60][((i / 3) % 2) as usize], obs)
            }),
            SubCheck::index("timeout_then_pass", "own token pass right after a message cycle that ended in a time-out (no reply, or a reply that broke off after 1 / 3 / 5 / 7 / 12 bytes, 20 / 100 / 200 bit times after the request): successor silent or heard", |i, obs| {
                let frag = [0usize, 1, 3, 5, 7, 12][(i % 6) as usize];
                let delay = [20i64, 100, 200][((i / 6) % 3) as usize];
                let heard = i >= 18;
                obs.nontrivial(i);
                obs.sample(|| json!({"reply_bytes_before_break": frag, "delay_bits": delay, "successor_heard": heard}));
                timeout_then_pass_case(frag, delay, heard, obs)
            }),
            SubCheck::index("supervision", "own token pass: successor silent, or heard after pass 1/2/3 (3 kinds of valid telegram and 3 kinds of undecodable activity x 8 delays x PHY with / without transmit latency)", |i, obs| {
                let ha = match i % 4 {
                    0 => None,
                    k => Some(k as usize - 1),
                };
                obs.nontrivial(i);
                obs.sample(|| json!({"heard_after_pass": ha.map(|k| k + 1), "kind": (i / 4) % 6, "delay_eighths": (i / 24) % 8, "tx_latency_bits": if i >= 192 { SLOT / 3 } else { 0 }}));
                supervision_case(ha, (i / 4) % 6, (i / 24) % 8, if i >= 192 { SLOT / 3 } else { 0 }, obs)
            }),
        ],
        plan: |tier| match tier {
            Tier::Quick => vec![
                Step::Enumerate { kind: "supervision", count: 384 },
                Step::Enumerate { kind: "timeout_then_pass", count: 36 },
                Step::Enumerate { kind: "late_poll", count: 12 },
                Step::Enumerate { kind: "burst_after_pass", count: 6 },
                Step::Enumerate { kind: "supervision3", count: 4 },
                Step::Enumerate { kind: "seq4", count: 2 * 17u64.pow(4) },
                Step::Pbt { kind: "random", cases: 20_000, max_len: 48 },
            ],
            Tier::Thorough => vec![
                Step::Enumerate { kind: "supervision", count: 384 },
                Step::Enumerate { kind: "timeout_then_pass", count: 36 },
                Step::Enumerate { kind: "late_poll", count: 12 },
                Step::Enumerate { kind: "burst_after_pass", count: 6 },
                Step::Enumerate { kind: "supervision3", count: 4 },
                Step::Enumerate { kind: "seq5", count: 2 * 17u64.pow(5) },
                Step::Pbt { kind: "random", cases: 60_000, max_len: 48 },
            ],
        },
        hang_is_violation: true,
        hang_limit_s: 60,
        probes: vec![],
    }
}
