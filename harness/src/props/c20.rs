//! C20 Parameter blocks are packed bit-exactly from the GSD definitions.
//!
//! Dual-model oracle: a reference model of the block written from the property statement, and a
//! second model that differs from it in exactly one point - a BitArea write replaces the whole
//! byte by `value << first` (the known finding `bitarea-clobber`).  Both are advanced in lockstep;
//! a real block that differs from the reference model but equals the known-defect model is
//! reported under the known signature, anything else under its own signature.
use crate::engine::*;
use crate::{ensure, fail};
use gsd_parser::{PrmBuilder, PrmValueConstraint, UserPrmData, UserPrmDataDefinition, UserPrmDataType as T};
use serde_json::json;
use std::collections::BTreeMap;
use std::sync::Arc;

// ---------------------------------------------------------------------------------------------
// Reference model
// ---------------------------------------------------------------------------------------------

/// Values a data type can hold (from the statement: unsigned 0..=max, signed exactly the signed
/// range, Bit 0/1, BitArea 0..2^width-1).
pub fn type_range(t: T) -> (i64, i64) {
    match t {
        T::Unsigned8 => (0, 0xFF),
        T::Unsigned16 => (0, 0xFFFF),
        T::Unsigned32 => (0, 0xFFFF_FFFF),
        T::Signed8 => (-0x80, 0x7F),
        T::Signed16 => (-0x8000, 0x7FFF),
        T::Signed32 => (-0x8000_0000, 0x7FFF_FFFF),
        T::Bit(_) => (0, 1),
        T::BitArea(f, l) => (0, (1i64 << (l - f + 1)) - 1),
    }
}

fn type_size(t: T) -> usize {
    match t {
        T::Unsigned8 | T::Signed8 | T::Bit(_) | T::BitArea(..) => 1,
        T::Unsigned16 | T::Signed16 => 2,
        T::Unsigned32 | T::Signed32 => 4,
    }
}

/// Bits of the (single) byte a bit-typed field occupies; None for whole-byte types.
fn bit_mask(t: T) -> Option<u8> {
    match t {
        T::Bit(b) => Some(1u8 << b),
        T::BitArea(f, l) => Some(((((1u16 << (l - f + 1)) - 1) << f) & 0xFF) as u8),
        _ => None,
    }
}

/// Write `v` (already known to fit the type) into the field at `off`.  `clobber` selects the
/// known-defect semantics for BitArea.
fn write(block: &mut [u8], off: usize, t: T, v: i64, clobber: bool) {
    match t {
        T::Unsigned8 | T::Signed8 => block[off] = v as u8,
        T::Unsigned16 | T::Signed16 => block[off..off + 2].copy_from_slice(&(v as u16).to_be_bytes()),
        T::Unsigned32 | T::Signed32 => block[off..off + 4].copy_from_slice(&(v as u32).to_be_bytes()),
        T::Bit(b) => block[off] = (block[off] & !(1 << b)) | ((v as u8) << b),
        T::BitArea(f, _) => {
            let mask = bit_mask(t).unwrap();
            if clobber {
                block[off] = (v as u8) << f;
            } else {
                block[off] = (block[off] & !mask) | (((v as u8) << f) & mask);
            }
        }
    }
}

fn constraint_ok(c: &PrmValueConstraint, v: i64) -> bool {
    match c {
        PrmValueConstraint::Unconstrained => true,
        PrmValueConstraint::MinMax(lo, hi) => *lo <= v && v <= *hi,
        PrmValueConstraint::Enum(vs) => vs.iter().any(|x| *x == v),
    }
}

// ---------------------------------------------------------------------------------------------
// Cases
// ---------------------------------------------------------------------------------------------

#[derive(Debug, Clone)]
pub struct Field {
    pub off: usize,
    pub name: String,
    pub ty: T,
    pub default: i64,
    pub constraint: PrmValueConstraint,
    pub texts: Option<Vec<(String, i64)>>,
}

impl Field {
    fn fits_type(&self, v: i64) -> bool {
        let (lo, hi) = type_range(self.ty);
        lo <= v && v <= hi
    }
    fn accepts(&self, v: i64) -> bool {
        constraint_ok(&self.constraint, v) && self.fits_type(v)
    }
}

#[derive(Debug, Clone)]
pub struct Layout {
    /// declared length (UserPrmData::length), >= everything constants and fields need
    pub length: usize,
    pub consts: Vec<(usize, Vec<u8>)>,
    pub fields: Vec<Field>,
}

#[derive(Debug, Clone)]
pub enum Call {
    Set { name: String, value: i64 },
    Text { name: String, text: String },
}

impl Layout {
    fn desc(&self) -> UserPrmData {
        UserPrmData {
            length: self.length as u8,
            data_const: self.consts.clone(),
            data_ref: self
                .fields
                .iter()
                .map(|f| {
                    (
                        f.off,
                        Arc::new(UserPrmDataDefinition {
                            name: f.name.clone(),
                            data_type: f.ty,
                            default_value: f.default,
                            constraint: f.constraint.clone(),
                            text_ref: f.texts.as_ref().map(|v| Arc::new(v.iter().cloned().collect::<BTreeMap<String, i64>>())),
                            changeable: true,
                            visible: true,
                        }),
                    )
                })
                .collect(),
        }
    }

    /// Smallest block covering every constant and every referenced field.
    fn extent(&self) -> usize {
        let c = self.consts.iter().map(|(o, d)| o + d.len()).max().unwrap_or(0);
        let f = self.fields.iter().map(|f| f.off + type_size(f.ty)).max().unwrap_or(0);
        c.max(f)
    }

    /// Image of the constants alone (file order, later entries on top).
    fn const_image(&self) -> Vec<u8> {
        let mut img = vec![0u8; self.extent()];
        for (off, data) in &self.consts {
            img[*off..off + data.len()].copy_from_slice(data);
        }
        img
    }

    /// Can the known BitArea defect become visible at all?  Only if some BitArea field shares its
    /// byte with another field or with constant bits outside its own mask.
    fn clobber_possible(&self) -> bool {
        let img = self.const_image();
        self.fields.iter().enumerate().any(|(i, f)| {
            let T::BitArea(..) = f.ty else { return false };
            let mask = bit_mask(f.ty).unwrap();
            img[f.off] & !mask != 0
                || self.fields.iter().enumerate().any(|(k, g)| k != i && g.off <= f.off && f.off < g.off + type_size(g.ty))
        })
    }

    fn render(&self) -> serde_json::Value {
        json!({
            "length": self.length,
            "data_const": self.consts.iter().map(|(o, d)| format!("({}) = {}", o, d.iter().map(|b| format!("0x{b:02x}")).collect::<Vec<_>>().join(","))).collect::<Vec<_>>(),
            "data_ref": self.fields.iter().map(|f| format!("({}) = {:?} {:?} default {} {:?}{}", f.off, f.name, f.ty, f.default, f.constraint,
                f.texts.as_ref().map(|t| format!(" texts {:?}", t)).unwrap_or_default())).collect::<Vec<_>>(),
        })
    }
}

fn hexs(b: &[u8]) -> String {
    b.iter().map(|x| format!("{x:02x}")).collect::<Vec<_>>().join(" ")
}

fn judge(real: &[u8], good: &[u8], bad: &[u8], when: &str) -> CaseResult {
    if real == good {
        return Ok(());
    }
    if real == bad {
        fail!("bitarea-clobber", "{}: block is [{}], expected [{}] (a BitArea write replaced its whole byte)", when, hexs(real), hexs(good));
    }
    ensure!(real.len() == good.len(), "block-length", "{}: block has {} bytes [{}], expected {} bytes [{}]", when, real.len(), hexs(real), good.len(), hexs(good));
    fail!("block-mismatch", "{}: block is [{}], expected [{}]", when, hexs(real), hexs(good));
}

/// Run one layout and call sequence against both models.
pub fn run(layout: &Layout, calls: &[Call], obs: &mut Obs) -> CaseResult {
    let desc = layout.desc();
    let mut good = layout.const_image();
    let mut bad = good.clone();
    let mut bad_default = None;
    for f in &layout.fields {
        if !f.fits_type(f.default) {
            bad_default = Some(f);
            break;
        }
        write(&mut good, f.off, f.ty, f.default, false);
        write(&mut bad, f.off, f.ty, f.default, true);
    }
    let built = PrmBuilder::new(&desc);
    if let Some(f) = bad_default {
        obs.label("default-outside-type");
        ensure!(built.is_err(), "default-out-of-type-accepted", "PrmBuilder::new accepted default {} for {:?} {:?}", f.default, f.name, f.ty);
        return Ok(());
    }
    let mut b = match built {
        Ok(b) => b,
        Err(e) => fail!("new-failed", "PrmBuilder::new failed with {:?} although all defaults fit their types: {:?}", e, layout.render()),
    };
    judge(b.as_bytes(), &good, &bad, "after PrmBuilder::new")?;

    for (k, call) in calls.iter().enumerate() {
        let before = b.as_bytes().to_vec();
        // (field index, value) when the statement says the call is accepted
        let (ok, expect, text, class): (bool, Option<(usize, i64)>, String, &str) = match call {
            Call::Set { name, value } => {
                let r = b.set_prm(name, *value).map(|_| ()).map_err(|e| format!("{e:?}"));
                let text = format!("call #{k} set_prm({name:?}, {value}) -> {r:?}");
                match layout.fields.iter().position(|f| f.name == *name) {
                    None => (r.is_ok(), None, text, "unknown-name"),
                    Some(i) => {
                        let f = &layout.fields[i];
                        if f.accepts(*value) {
                            (r.is_ok(), Some((i, *value)), text, "in-range")
                        } else if !constraint_ok(&f.constraint, *value) {
                            (r.is_ok(), None, text, "outside-constraint")
                        } else {
                            (r.is_ok(), None, text, "outside-type")
                        }
                    }
                }
            }
            Call::Text { name, text: tx } => {
                let r = b.set_prm_from_text(name, tx).map(|_| ()).map_err(|e| format!("{e:?}"));
                let text = format!("call #{k} set_prm_from_text({name:?}, {tx:?}) -> {r:?}");
                match layout.fields.iter().position(|f| f.name == *name) {
                    None => (r.is_ok(), None, text, "unknown-name"),
                    Some(i) => {
                        let f = &layout.fields[i];
                        match &f.texts {
                            None => (r.is_ok(), None, text, "text-on-prm-without-texts"),
                            // the description holds a map: the last entry of a text wins
                            Some(ts) => match ts.iter().rev().find(|(s, _)| s == tx) {
                                None => (r.is_ok(), None, text, "unknown-text"),
                                Some((_, v)) if f.accepts(*v) => (r.is_ok(), Some((i, *v)), text, "text-in-range"),
                                Some(_) => (r.is_ok(), None, text, "text-out-of-range"),
                            },
                        }
                    }
                }
            }
        };
        obs.label(&format!("call:{class}"));
        match (ok, expect) {
            (true, None) => fail!("accepted-out-of-range", "{} but must be rejected ({}); layout {}", text, class, layout.render()),
            (false, Some(_)) => fail!("rejected-in-range", "{} but must be accepted; layout {}", text, layout.render()),
            (false, None) => {
                ensure!(b.as_bytes() == &before[..], "changed-on-error", "{} changed the block from [{}] to [{}]", text, hexs(&before), hexs(b.as_bytes()));
            }
            (true, Some((i, v))) => {
                let f = &layout.fields[i];
                write(&mut good, f.off, f.ty, v, false);
                write(&mut bad, f.off, f.ty, v, true);
            }
        }
        judge(b.as_bytes(), &good, &bad, &format!("after {} (block before [{}])", text, hexs(&before)))?;
    }
    let fin = b.into_bytes();
    ensure!(fin == good, "block-mismatch", "into_bytes() gives [{}], expected [{}]", hexs(&fin), hexs(&good));
    Ok(())
}

// ---------------------------------------------------------------------------------------------
// Generators
// ---------------------------------------------------------------------------------------------

fn gen_type(t: &mut Tape, bitty: bool) -> T {
    let w: &[u32] = if bitty { &[1, 1, 1, 1, 1, 1, 5, 9] } else { &[3, 2, 2, 2, 2, 2, 4, 3] };
    match t.weighted(w) {
        0 => T::Unsigned8,
        1 => T::Unsigned16,
        2 => T::Unsigned32,
        3 => T::Signed8,
        4 => T::Signed16,
        5 => T::Signed32,
        6 => T::Bit(t.below(8) as u8),
        _ => {
            let first = t.below(8) as u8;
            let last = first + t.below(8 - u64::from(first)) as u8;
            T::BitArea(first, last)
        }
    }
}

/// A value in lo..=hi, boundary-biased; a zero choice gives the value closest to 0.
fn gen_in(t: &mut Tape, lo: i64, hi: i64) -> i64 {
    match t.below(4) {
        0 => 0i64.clamp(lo, hi),
        1 => lo,
        2 => hi,
        _ => t.range(lo, hi),
    }
}

fn gen_constraint(t: &mut Tape, ty: T) -> PrmValueConstraint {
    let (lo, hi) = type_range(ty);
    match t.below(3) {
        0 => PrmValueConstraint::Unconstrained,
        1 => {
            let a = gen_in(t, lo, hi);
            let b = gen_in(t, lo, hi);
            let (mut a, mut b) = (a.min(b), a.max(b));
            // sometimes the declared range is wider than the data type
            if t.chance(1, 6) {
                if t.bool() {
                    a = lo - 1 - t.below(10) as i64;
                }
                b = hi + 1 + t.below(10) as i64;
            }
            PrmValueConstraint::MinMax(a, b)
        }
        _ => {
            let n = 1 + t.below(4);
            let mut vs: Vec<i64> = (0..n).map(|_| gen_in(t, lo, hi)).collect();
            if t.chance(1, 6) {
                vs.push(if t.bool() { hi + 1 } else { lo - 1 });
            }
            PrmValueConstraint::Enum(vs)
        }
    }
}

/// A default inside both the constraint and the data type.
fn gen_default(t: &mut Tape, ty: T, c: &PrmValueConstraint) -> i64 {
    let (lo, hi) = type_range(ty);
    match c {
        PrmValueConstraint::Unconstrained => gen_in(t, lo, hi),
        PrmValueConstraint::MinMax(a, b) => gen_in(t, (*a).max(lo), (*b).min(hi)),
        PrmValueConstraint::Enum(vs) => {
            let ok: Vec<i64> = vs.iter().copied().filter(|v| lo <= *v && *v <= hi).collect();
            *t.pick(&ok)
        }
    }
}

/// In-range, boundary and out-of-range values for a call on (or a text of) field `f`.
fn gen_value(t: &mut Tape, f_ty: T, f_default: i64, c: &PrmValueConstraint) -> i64 {
    let (tlo, thi) = type_range(f_ty);
    let (clo, chi) = match c {
        PrmValueConstraint::Unconstrained => (tlo, thi),
        PrmValueConstraint::MinMax(a, b) => (*a, *b),
        PrmValueConstraint::Enum(vs) => (*vs.iter().min().unwrap(), *vs.iter().max().unwrap()),
    };
    match t.weighted(&[3, 4, 2, 2, 2, 2, 1, 1, 1, 1, 2, 2, 1]) {
        0 => f_default,
        1 => match c {
            PrmValueConstraint::Enum(vs) => *t.pick(vs),
            _ => t.range(clo.max(tlo), chi.min(thi)),
        },
        2 => tlo,
        3 => thi,
        4 => tlo - 1,
        5 => thi + 1,
        6 => clo,
        7 => chi,
        8 => clo - 1,
        9 => chi + 1,
        10 => t.range(tlo, thi),
        11 => match c {
            PrmValueConstraint::Enum(vs) => *t.pick(vs) + if t.bool() { 1 } else { -1 },
            _ => t.range(tlo, thi),
        },
        _ => *t.pick(&[0, 1, -1, 2, 127, 128, 255, 256, -128, -129, 32767, 32768, 65535, 65536, -32768, -32769, 0x7FFF_FFFF, 0x8000_0000, 0xFFFF_FFFF, 0x1_0000_0000, -0x8000_0000, -0x8000_0001, i64::MIN, i64::MAX]),
    }
}

const NAMES: [&str; 4] = ["p", "Prm ", "Peripheral Setting ", "\u{e4}=\"x\" "];

pub fn gen_layout(t: &mut Tape) -> Layout {
    let blen = 1 + t.below(16) as usize;
    // constants underneath, possibly several, possibly overlapping
    let mut consts: Vec<(usize, Vec<u8>)> = vec![];
    let nconst = t.below(4);
    for _ in 0..nconst {
        let off = t.below(blen as u64) as usize;
        let len = 1 + t.below((blen - off) as u64) as usize;
        let data = match t.below(4) {
            0 => vec![0u8; len],
            1 => vec![0xFFu8; len],
            _ => t.fill(len),
        };
        consts.push((off, data));
    }
    // `share`: BitArea fields may share their byte with other fields / constant bits (this is
    // where the known finding shows); otherwise every BitArea gets a byte of its own.
    let share = t.chance(9, 20);
    let overlap_ok = t.chance(1, 4);
    let nprm = 1 + t.below(12) as usize;
    let name_style = *t.pick(&NAMES);
    let mut used = vec![0u8; blen];
    let mut has_bitarea = vec![false; blen];
    let mut bit_bytes: Vec<usize> = vec![];
    let mut fields: Vec<Field> = vec![];
    for i in 0..nprm {
        let mut ty = gen_type(t, share);
        if type_size(ty) > blen {
            ty = T::Unsigned8;
        }
        let size = type_size(ty);
        let mut off = t.below((blen - size + 1) as u64) as usize;
        let mask = bit_mask(ty);
        if mask.is_some() && !bit_bytes.is_empty() && t.chance(1, 2) {
            off = *t.pick(&bit_bytes);
        }
        let constraint = gen_constraint(t, ty);
        let mut default = gen_default(t, ty, &constraint);
        let mut constraint = constraint;
        if t.chance(1, 120) {
            // a default the data type cannot hold: PrmBuilder::new must refuse it
            let (lo, hi) = type_range(ty);
            default = if t.bool() { hi + 1 } else { lo - 1 };
            constraint = PrmValueConstraint::Unconstrained;
        }
        let texts = if t.chance(1, 3) {
            let n = 1 + t.below(4) as usize;
            Some((0..n).map(|k| (format!("T{k}"), gen_value(t, ty, default, &constraint))).collect::<Vec<_>>())
        } else {
            None
        };
        // placement rules
        let cover = |j: usize| mask.unwrap_or(0xFF) & if j >= off && j < off + size { 0xFF } else { 0 };
        let is_ba = matches!(ty, T::BitArea(..));
        let conflict = (off..off + size).any(|j| {
            (!overlap_ok && used[j] & cover(j) != 0) || (!share && (has_bitarea[j] || (is_ba && used[j] != 0)))
        });
        if conflict {
            continue;
        }
        for j in off..off + size {
            used[j] |= cover(j);
            has_bitarea[j] |= is_ba;
        }
        if mask.is_some() && !bit_bytes.contains(&off) {
            bit_bytes.push(off);
        }
        fields.push(Field { off, name: format!("{name_style}{i}"), ty, default, constraint, texts });
    }
    if !share {
        // no constant bits underneath a BitArea's byte outside the area itself
        for f in &fields {
            if let T::BitArea(..) = f.ty {
                let m = bit_mask(f.ty).unwrap();
                for (off, data) in consts.iter_mut() {
                    if *off <= f.off && f.off < *off + data.len() {
                        data[f.off - *off] &= m;
                    }
                }
            }
        }
    }
    Layout { length: blen, consts, fields }
}

pub fn gen_calls(t: &mut Tape, layout: &Layout) -> Vec<Call> {
    let n = t.below(13) as usize;
    let mut calls = vec![];
    let with_texts: Vec<usize> = (0..layout.fields.len()).filter(|i| layout.fields[*i].texts.is_some()).collect();
    for _ in 0..n {
        let mut idx = t.below(layout.fields.len() as u64) as usize;
        let kind = t.weighted(&[16, 6, 1, 1]);
        if kind == 1 && !with_texts.is_empty() && !t.chance(1, 4) {
            idx = *t.pick(&with_texts);
        }
        let f = &layout.fields[idx];
        calls.push(match kind {
            0 => Call::Set { name: f.name.clone(), value: gen_value(t, f.ty, f.default, &f.constraint) },
            1 => {
                let text = match &f.texts {
                    Some(ts) if !t.chance(1, 4) => t.pick(ts).0.clone(),
                    _ => t.pick(&["T0", "nope", ""]).to_string(),
                };
                Call::Text { name: f.name.clone(), text }
            }
            2 => {
                // unknown names, among them an existing name in the wrong case (names are case sensitive)
                let wrong_case = if f.name.to_uppercase() != f.name { f.name.to_uppercase() } else { f.name.to_lowercase() };
                let known = layout.fields.iter().any(|g| g.name == wrong_case);
                let name = match t.below(4) {
                    0 if !known => wrong_case,
                    1 => "nope".to_string(),
                    2 => String::new(),
                    _ => "p999".to_string(),
                };
                Call::Set { name, value: gen_value(t, f.ty, f.default, &f.constraint) }
            }
            _ => Call::Text { name: t.pick(&["nope", "", "p999"]).to_string(), text: "T0".to_string() },
        });
    }
    calls
}

/// Bounded-exhaustive companion: every data-type geometry (6 whole-byte types, Bit(0..7), all 36
/// BitArea(first-last)) x 3 backgrounds x 9 boundary values, one field with a guard byte on each side.
const SINGLE_GEOMETRIES: u64 = 6 + 8 + 36;
const SINGLE_COUNT: u64 = SINGLE_GEOMETRIES * 3 * 9;
fn single_field_case(i: u64) -> (Layout, Vec<Call>) {
    let g = i % SINGLE_GEOMETRIES;
    let bg = [0x00u8, 0xFF, 0xA5][(i / SINGLE_GEOMETRIES % 3) as usize];
    let vk = i / SINGLE_GEOMETRIES / 3;
    let ty = match g {
        0 => T::Unsigned8,
        1 => T::Unsigned16,
        2 => T::Unsigned32,
        3 => T::Signed8,
        4 => T::Signed16,
        5 => T::Signed32,
        6..=13 => T::Bit((g - 6) as u8),
        _ => {
            // pairs first <= last in lexicographic order
            let mut k = g - 14;
            let mut first = 0u64;
            while k >= 8 - first {
                k -= 8 - first;
                first += 1;
            }
            T::BitArea(first as u8, (first + k) as u8)
        }
    };
    let (lo, hi) = type_range(ty);
    let value = [lo - 1, lo, lo + 1, -1, 0, 1, hi - 1, hi, hi + 1][vk as usize];
    let size = type_size(ty);
    let layout = Layout {
        length: size + 2,
        consts: vec![(0, vec![bg; size + 2])],
        fields: vec![Field { off: 1, name: "x".into(), ty, default: if vk % 2 == 0 { lo } else { hi }, constraint: PrmValueConstraint::Unconstrained, texts: None }],
    };
    (layout, vec![Call::Set { name: "x".into(), value }])
}

fn probe_layout() -> Layout {
    Layout {
        length: 1,
        consts: vec![(0, vec![0x01])],
        fields: vec![Field { off: 0, name: "area".into(), ty: T::BitArea(1, 2), default: 1, constraint: PrmValueConstraint::MinMax(0, 3), texts: None }],
    }
}

pub fn property() -> Property {
    Property {
        id: "C20",
        rule: "cases: a parameter layout decoded from a choice tape - block of 1..16 bytes, 0..3 constant entries (Ext_User_Prm_Data_Const; overlapping, later on top), 1..12 referenced parameters of all eight data types at offsets inside the block, Bit/BitArea fields sharing bytes (bit indices 0..7, first <= last), constraints Unconstrained / MinMax / Enum (sometimes wider than the data type), defaults inside constraint and type, optional text maps, unique names - followed by 0..12 calls set_prm / set_prm_from_text with in-range values, type and constraint boundaries, boundary +-1, far out-of-range values, unknown names, unknown texts and texts on parameters without texts.  After PrmBuilder::new and after EVERY call as_bytes() is compared with a reference model (constants in file order, defaults in data_ref order, each accepted value merged under the field's mask / big-endian two's complement); acceptance is compared with the statement's rule; rejected calls must leave the block unchanged.  A block that differs from the reference model but equals the known-defect model (BitArea write replaces its whole byte) is reported as 'bitarea-clobber' and the case ends there; at least half of the layouts give every BitArea a byte of its own over zero constant bits (label no-clobber-possible) and run to completion against the reference model.  Non-trivial = at least one parameter and at least one call; distinct by (layout, call sequence).",
        assumptions: vec![
            "block length: the statement does not fix it; the model uses the smallest length that covers every constant and every referenced field (UserPrmData::length is not consulted by PrmBuilder and is 0 for every Ext_User_Prm_Data description the parser produces); the generator keeps UserPrmData::length >= that extent",
            "excluded as malformed descriptions (N6): Bit index > 7, BitArea with first > last or last > 7 (shift overflow / subtraction underflow panics inside write_value_to_slice)",
            "excluded: fields or constants that do not fit inside the declared length; duplicate parameter names (set_prm addresses the first match only); MinMax constraints with min > max; Enum constraints without a member the data type can hold",
            "defaults lie inside the declared constraint (PrmBuilder::new does not check defaults against the constraint, only against the data type); a default the data type cannot hold (generated in about 1% of the parameters) must make PrmBuilder::new return an error",
            "set_prm_from_text on a parameter without Prm_Text_Ref, or with a text that is not in its PrmText, counts as 'unknown text' and must be rejected with the block unchanged",
            "a new defect whose bytes coincide with the known-defect model would be counted under 'bitarea-clobber'; this cannot happen in no-clobber-possible layouts, where both models are identical",
        ],
        subchecks: vec![
            SubCheck::tape("layouts", "generated layouts and call sequences against the reference block model", |t, obs| {
                let layout = gen_layout(t);
                let calls = gen_calls(t, &layout);
                let possible = layout.clobber_possible();
                obs.label(if possible { "bitarea-shares-byte" } else { "no-clobber-possible" });
                for f in &layout.fields {
                    obs.label(match f.ty {
                        T::Unsigned8 => "type:Unsigned8",
                        T::Unsigned16 => "type:Unsigned16",
                        T::Unsigned32 => "type:Unsigned32",
                        T::Signed8 => "type:Signed8",
                        T::Signed16 => "type:Signed16",
                        T::Signed32 => "type:Signed32",
                        T::Bit(_) => "type:Bit",
                        T::BitArea(..) => "type:BitArea",
                    });
                }
                if layout.extent() < layout.length {
                    obs.label("extent<length");
                }
                if layout.fields.iter().any(|f| f.texts.is_some()) {
                    obs.label("with-texts");
                }
                let img = layout.const_image();
                if layout.fields.iter().any(|f| (f.off..f.off + type_size(f.ty)).any(|j| img[j] != 0)) {
                    obs.label("constants-underneath");
                }
                let mut cover = vec![0u32; layout.extent()];
                for f in &layout.fields {
                    for j in f.off..f.off + type_size(f.ty) {
                        cover[j] += 1;
                    }
                }
                if cover.iter().any(|c| *c > 1) {
                    obs.label("fields-share-a-byte");
                }
                obs.count("parameters", layout.fields.len() as u64);
                obs.count("calls", calls.len() as u64);
                if !calls.is_empty() {
                    obs.nontrivial(fingerprint(&format!("{:?}{:?}", layout, calls)));
                }
                obs.sample(|| json!({"layout": layout.render(), "calls": calls.iter().map(|c| format!("{:?}", c)).collect::<Vec<_>>()}));
                run(&layout, &calls, obs)
            }),
            SubCheck::index("single_field", "every data-type geometry x background 00/FF/A5 x boundary values (type min/max, +-1, -1/0/1), one field between two guard bytes", |i, obs| {
                let (layout, calls) = single_field_case(i);
                obs.label(if layout.clobber_possible() { "bitarea-shares-byte" } else { "no-clobber-possible" });
                obs.nontrivial(i);
                obs.sample(|| json!({"layout": layout.render(), "calls": calls.iter().map(|c| format!("{:?}", c)).collect::<Vec<_>>()}));
                run(&layout, &calls, obs)
            }),
            SubCheck::index("probe_bitarea", "known finding: constant 0x01 under BitArea(1-2) with default 1 must give 0x03", |_i, obs| {
                run(&probe_layout(), &[], obs)
            }),
        ],
        plan: |tier| match tier {
            Tier::Quick => vec![
                Step::Enumerate { kind: "single_field", count: SINGLE_COUNT },
                Step::Pbt { kind: "layouts", cases: 200_000, max_len: 260 },
            ],
            Tier::Thorough => vec![
                Step::Enumerate { kind: "single_field", count: SINGLE_COUNT },
                Step::Pbt { kind: "layouts", cases: 1_000_000, max_len: 260 },
            ],
        },
        hang_is_violation: false,
        hang_limit_s: 0,
        probes: vec![KnownProbe { signature: "bitarea-clobber", kind: "probe_bitarea", data: ReplayData::Index(0) }],
    }
}
