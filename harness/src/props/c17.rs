//! C17 Diagnostics are decoded correctly and block iteration is total.
use crate::engine::*;
use crate::props::c09::hex;
use crate::refcodec::{self as rc, RefFrame};
use crate::{ensure, fail};
use profirust::dp::{self, ChannelDataType, ChannelError, ExtDiagBlock};
use profirust::fdl::{FdlActiveStation, FdlApplication, HighPrioOnly, ParametersBuilder, Telegram, TelegramTx};
use profirust::time::Instant;
use serde_json::json;

#[derive(Debug, PartialEq, Clone)]
pub enum RefBlock {
    Ident(Vec<u8>),
    Channel { module: u8, channel: u8, input: bool, output: bool, dtype: u8, err: u8 },
    Device(Vec<u8>),
}

/// Reference block parser: (blocks, offsets) - stops at the first malformed block.
pub fn ref_blocks(b: &[u8]) -> Vec<(usize, usize, RefBlock)> {
    let mut out = vec![];
    let mut i = 0;
    while i < b.len() {
        let h = b[i];
        match h >> 6 {
            0b01 | 0b00 => {
                // header byte counts itself; a length of 0 is malformed
                let len = (h & 0x3f) as usize;
                if len == 0 || i + len > b.len() {
                    break;
                }
                let body = b[i + 1..i + len].to_vec();
                out.push((i, len, if h >> 6 == 1 { RefBlock::Ident(body) } else { RefBlock::Device(body) }));
                i += len;
            }
            0b10 => {
                if i + 3 > b.len() {
                    break;
                }
                out.push((i, 3, RefBlock::Channel {
                    module: h & 0x3f,
                    channel: b[i + 1] & 0x3f,
                    input: b[i + 1] & 0x40 != 0,
                    output: b[i + 1] & 0x80 != 0,
                    dtype: b[i + 2] >> 5,
                    err: b[i + 2] & 0x1f,
                }));
                i += 3;
            }
            _ => break,
        }
    }
    out
}

fn expect_dtype(v: u8) -> ChannelDataType {
    match v {
        1 => ChannelDataType::Bit,
        2 => ChannelDataType::Bit2,
        3 => ChannelDataType::Bit4,
        4 => ChannelDataType::Byte,
        5 => ChannelDataType::Word,
        6 => ChannelDataType::DWord,
        _ => ChannelDataType::Invalid,
    }
}
fn expect_err(v: u8) -> ChannelError {
    match v {
        1 => ChannelError::ShortCircuit,
        2 => ChannelError::UnderVoltage,
        3 => ChannelError::OverVoltage,
        4 => ChannelError::OverLoad,
        5 => ChannelError::OverTemperature,
        6 => ChannelError::LineBreak,
        7 => ChannelError::UpperLimitOvershoot,
        8 => ChannelError::LowerLimitUndershoot,
        9 => ChannelError::Error,
        16..=31 => ChannelError::Vendor(v),
        r => ChannelError::Reserved(r),
    }
}

/// Compare the blocks yielded for `raw` with the reference parse, including positions.
fn check_blocks(ext: &dp::ExtendedDiagnostics, raw: &[u8]) -> CaseResult {
    let want = ref_blocks(raw);
    let lo = raw.as_ptr() as usize;
    let mut n = 0;
    let mut cursor = 0usize; // where the next block must start
    for (k, b) in ext.iter_diag_blocks().enumerate() {
        n += 1;
        ensure!(n <= raw.len() + 1, "iter-nonterminating", "block iterator yields more blocks than there are bytes ({})", hex(raw));
        let Some((off, len, w)) = want.get(k) else {
            fail!("extra-block", "iterator yields block #{} {:?} but the reference parser stops after {} blocks for {}", k, b, want.len(), hex(raw));
        };
        ensure!(*off == cursor, "oracle-selfcheck", "reference offsets not consecutive");
        match (&b, w) {
            (ExtDiagBlock::Identifier(bits), RefBlock::Ident(body)) => {
                ensure!(bits.len() == body.len() * 8, "block-content", "identifier block #{} has {} bits, expected {} for {}", k, bits.len(), body.len() * 8, hex(raw));
                for i in 0..bits.len() {
                    ensure!(bits[i] == (body[i / 8] >> (i % 8) & 1 != 0), "block-content", "identifier block #{} bit {} wrong for {}", k, i, hex(raw));
                }
            }
            (ExtDiagBlock::Device(d), RefBlock::Device(body)) => {
                ensure!(*d == &body[..], "block-content", "device block #{} is {:02x?}, expected {:02x?}", k, d, body);
                if !d.is_empty() {
                    let p = d.as_ptr() as usize;
                    ensure!(p == lo + off + 1 && d.len() == len - 1, "block-position", "device block #{} does not lie at offset {} of the buffer", k, off + 1);
                }
            }
            (ExtDiagBlock::Channel(c), RefBlock::Channel { module, channel, input, output, dtype, err }) => {
                ensure!(
                    c.module == *module && c.channel == *channel && c.input == *input && c.output == *output && c.dtype == expect_dtype(*dtype) && c.error == expect_err(*err),
                    "block-content",
                    "channel block #{} decoded as {:?}, expected module={} channel={} in={} out={} dtype={:?} error={:?} for {}",
                    k, c, module, channel, input, output, expect_dtype(*dtype), expect_err(*err), hex(raw)
                );
            }
            _ => fail!("block-kind", "block #{} is {:?} but the reference parser says {:?} for {}", k, b, w, hex(raw)),
        }
        cursor += len;
    }
    ensure!(n == want.len(), "missing-block", "iterator yields {} blocks, the reference parser {} for {}", n, want.len(), hex(raw));
    Ok(())
}

pub struct DiagRig {
    pub fdl: FdlActiveStation,
    pub master: dp::DpMaster<'static>,
    pub handle: dp::PeripheralHandle,
    pub addr: u8,
    pub in_len: usize,
    now: i64,
}

impl DiagRig {
    pub fn new(bufsize: Option<usize>, addr: u8) -> Self {
        let fdl = FdlActiveStation::new(ParametersBuilder::new(2, profirust::Baudrate::B500000).build());
        let mut master = dp::DpMaster::new(vec![]);
        let opts = dp::PeripheralOptions {
            ident_number: 0x1234,
            user_parameters: Some(&[0x00]),
            config: Some(&[0x10]),
            ..Default::default()
        };
        let mut p = dp::Peripheral::new(addr, opts, vec![0u8; 1], vec![0u8; 0]);
        if let Some(n) = bufsize {
            p = p.with_diag_buffer(vec![0xAAu8; n]);
        }
        let handle = master.add(p);
        master.enter_operate();
        DiagRig { fdl, master, handle, addr, in_len: 1, now: 0 }
    }

    /// Drive the master (answering everything else correctly) until it has sent a diagnostics
    /// request, then deliver `pdu` as the Slave_Diag response.
    pub fn feed_diag(&mut self, pdu: &[u8]) -> CaseResult {
        for _ in 0..40 {
            self.now += 500;
            let now = Instant::from_micros(self.now);
            let mut buf = [0xBDu8; 300];
            let Some(r) = self.master.transmit_telegram(now, &self.fdl, TelegramTx::new(&mut buf), HighPrioOnly::No) else { continue };
            let Some(req) = rc::decode_one(&buf[..r.bytes_sent()]) else {
                fail!("tx-undecodable", "master sent {}", hex(&buf[..r.bytes_sent()]));
            };
            let RefFrame::Data { da, dsap, .. } = &req else { continue };
            if r.expects_reply().is_none() {
                continue; // global control
            }
            ensure!(*da == self.addr, "oracle-selfcheck", "request to unexpected address");
            let reply = match dsap {
                Some(60) => {
                    // the reply status is 'data low', 'OK' or 'data high' (further diagnostics pending), by content
                    let fc = [0x08u8, 0x00, 0x0A][(pdu.len() + usize::from(pdu.first().copied().unwrap_or(0))) % 3];
                    let f = RefFrame::Data { da: 2, sa: self.addr, dsap: Some(62), ssap: Some(60), fc, pdu: pdu.to_vec() };
                    let bytes = rc::encode(&f);
                    let (t, _) = Telegram::deserialize(&bytes).unwrap().unwrap();
                    self.master.receive_reply(now, &self.fdl, self.addr, t);
                    return Ok(());
                }
                Some(61) | Some(62) => vec![rc::SC],
                None => rc::encode(&RefFrame::Data { da: 2, sa: self.addr, dsap: None, ssap: None, fc: 0x08, pdu: vec![0; self.in_len] }),
                _ => vec![rc::SC],
            };
            let (t, _) = Telegram::deserialize(&reply).unwrap().unwrap();
            self.master.receive_reply(now, &self.fdl, self.addr, t);
            // ask for diagnostics as soon as data exchange is reached
            self.master.get_mut(self.handle).request_diagnostics();
        }
        fail!("no-diag-request", "master did not send a diagnostics request within 40 turns")
    }
}

/// One scenario: up to 3 consecutive diagnostics replies on one peripheral.
pub fn check_scenario(bufsize: Option<usize>, replies: &[Vec<u8>], obs: &mut Obs) -> CaseResult {
    check_scenario_resets(bufsize, replies, &[], obs)
}

/// `resets[i]`: before reply i the application calls reset_address() (with the address the peripheral
/// has): nothing of the diagnostics received before may remain visible.
pub fn check_scenario_resets(bufsize: Option<usize>, replies: &[Vec<u8>], resets: &[bool], obs: &mut Obs) -> CaseResult {
    let mut rig = DiagRig::new(bufsize, 9);
    let mut stored: Vec<u8> = vec![]; // model of the extended diagnostics storage
    let mut last: Option<(u16, Option<u8>, u16)> = None;
    for (i, pdu) in replies.iter().enumerate() {
        if resets.get(i).copied().unwrap_or(false) {
            let a = rig.addr;
            rig.master.get_mut(rig.handle).reset_address(a);
            stored.clear();
            last = None;
            obs.label("reset-address-between-replies");
            let p = rig.master.get_mut(rig.handle);
            ensure!(p.last_diagnostics().is_none(), "diag-after-reset", "last_diagnostics() is {:?} right after reset_address()", p.last_diagnostics().map(|d| d.ident_number));
        }
        rig.feed_diag(pdu)?;
        if pdu.len() >= 6 {
            let flags = u16::from_le_bytes([pdu[0], pdu[1]]) & !0x0400;
            last = Some((flags, if pdu[3] == 255 { None } else { Some(pdu[3]) }, u16::from_be_bytes([pdu[4], pdu[5]])));
            let ext = &pdu[6..];
            if flags & 0x0008 != 0 {
                if let Some(n) = bufsize {
                    if n > 0 && ext.len() <= n {
                        stored = ext.to_vec();
                        obs.label("ext-stored");
                    } else {
                        obs.label("ext-does-not-fit");
                    }
                }
            }
        } else {
            obs.label("short-pdu");
        }
        let p = rig.master.get_mut(rig.handle);
        let d = p.last_diagnostics();
        match (&d, &last) {
            (None, None) => {}
            (Some(d), Some((flags, master, ident))) => {
                ensure!(d.flags.bits() == *flags, "flags", "flags {:#06x} reported for reply bytes {:02x} {:02x} (expected {:#06x})", d.flags.bits(), pdu[0], pdu[1], flags);
                ensure!(d.master_address == *master, "master-address", "master address {:?}, expected {:?}", d.master_address, master);
                ensure!(d.ident_number == *ident, "ident", "ident {:#06x}, expected {:#06x}", d.ident_number, ident);
                // Debug formatting must work on anything
                let s = format!("{:?}", d);
                std::hint::black_box(s.len());
                let raw = d.extended_diagnostics.raw_diag_buffer();
                match (bufsize, raw) {
                    (None, None) | (Some(0), None) => {}
                    (Some(n), Some(r)) if n > 0 => {
                        ensure!(r == &stored[..], "ext-storage", "extended diagnostics buffer holds {} but {} is expected (buffer size {}, reply ext {})", hex(r), hex(&stored), n, hex(pdu.get(6..).unwrap_or(&[])));
                    }
                    (b, r) => fail!("ext-availability", "raw_diag_buffer() is {:?} with buffer size {:?}", r.map(|x| x.len()), b),
                }
                // iteration is total and agrees with the reference parser
                check_blocks(d.extended_diagnostics, raw.unwrap_or(&[]))?;
            }
            (d, l) => fail!("diag-presence", "last_diagnostics() is {:?} but expected {:?}", d.as_ref().map(|d| d.flags), l),
        }
    }
    Ok(())
}

fn scanner_case(pdu: &[u8], addr_seed: u64) -> CaseResult {
    let fdl = FdlActiveStation::new(ParametersBuilder::new(2, profirust::Baudrate::B500000).build());
    let mut sc = dp::scan::DpScanner::new();
    let now = Instant::ZERO;
    let mut buf = [0xBDu8; 300];
    let r = sc.transmit_telegram(now, &fdl, TelegramTx::new(&mut buf), HighPrioOnly::No);
    let Some(r) = r else { fail!("scanner", "scanner did not send") };
    let Some(RefFrame::Data { da, .. }) = rc::decode_one(&buf[..r.bytes_sent()]) else { fail!("scanner", "undecodable request") };
    let _ = addr_seed;
    let f = RefFrame::Data { da: 2, sa: da, dsap: Some(62), ssap: Some(60), fc: 0x08, pdu: pdu.to_vec() };
    let bytes = rc::encode(&f);
    let (t, _) = Telegram::deserialize(&bytes).unwrap().unwrap();
    sc.receive_reply(now, &fdl, da, t);
    let ev = sc.take_last_event();
    if pdu.len() >= 6 {
        let want = dp::scan::DpScanEvent::PeripheralFound(dp::scan::DpPeripheralDescription {
            address: da,
            ident: u16::from_be_bytes([pdu[4], pdu[5]]),
            master_address: if pdu[3] == 255 { None } else { Some(pdu[3]) },
        });
        ensure!(ev == Some(want.clone()), "scanner-event", "scanner reports {:?}, expected {:?}", ev, want);
    } else {
        ensure!(ev.is_none(), "scanner-event", "scanner reports {:?} for a {}-byte PDU", ev, pdu.len());
    }
    Ok(())
}

/// A well-formed or deliberately broken extended diagnostics area.
fn gen_ext(t: &mut Tape, max: usize) -> Vec<u8> {
    let mut out = vec![];
    let nblocks = t.below(8);
    for _ in 0..nblocks {
        match t.weighted(&[3, 3, 3, 1, 1]) {
            0 => {
                let len = 1 + t.below(12) as usize;
                out.push(0x40 | len as u8);
                out.extend(t.fill(len - 1));
            }
            1 => {
                out.push(0x80 | t.below(64) as u8);
                out.push(t.u8());
                out.push(t.u8());
            }
            2 => {
                let big = t.bool();
                let len = 1 + t.below(if big { 63 } else { 10 }) as usize;
                out.push(len as u8);
                out.extend(t.fill(len - 1));
            }
            3 => out.push(t.u8()), // arbitrary header, probably malformed continuation
            _ => {
                let n = 1 + t.below(5) as usize;
                out.extend(t.fill(n))
            }
        }
    }
    out.truncate(max);
    out
}

fn gen_header(t: &mut Tape, force_ext: Option<bool>) -> [u8; 6] {
    let mut flags: u16 = match t.below(4) {
        0 => 0,
        1 => 1 << t.below(16),
        2 => 0xFFFF,
        _ => t.raw() as u16,
    };
    if t.chance(3, 4) {
        flags |= 0x0400;
    }
    match force_ext {
        Some(true) => flags |= 0x0008,
        Some(false) => flags &= !0x0008,
        None => {}
    }
    let f = flags.to_le_bytes();
    let master = *t.pick(&[255u8, 0, 1, 2, 125, 126, 127, 128, 254, 77]);
    let ident = *t.pick(&[0u16, 1, 0x00FF, 0xFF00, 0xFFFF, 0x1234, 0x8000, 0x7FFF]);
    let ident = if t.bool() { ident } else { t.raw() as u16 };
    let i = ident.to_be_bytes();
    [f[0], f[1], t.u8(), master, i[0], i[1]]
}

pub fn property() -> Property {
    Property {
        id: "C17",
        rule: "cases: Slave_Diag reply PDUs fed through the public DP path (DpMaster with one peripheral driven through its FdlApplication methods, and DpScanner): all extended-diagnostics strings of length <= 2, every first byte with tails of every length 0..11, structured/random headers and block sequences up to 238 bytes, diagnostics buffers of generated size (none, 0, smaller, larger), up to three consecutive replies per peripheral; flags/master/ident are compared with the reply bytes, the stored extended bytes with a storage model, and the blocks yielded by iter_diag_blocks() (plus Debug formatting) with a reference block parser. Non-trivial = extended diagnostics present; distinct by (buffer size, reply bytes).",
        assumptions: vec![
            "identifier/device block length counts the header byte, channel blocks are 3 bytes, header type 0b11 is reserved (reference parser in harness/src/props/c17.rs)",
            "extended diagnostics of an earlier reply stay stored when a later reply does not carry Ext_Diag or does not fit (the property only says 'stored only if they fit')",
        ],
        subchecks: vec![
            SubCheck::index("ext_short", "all extended diagnostics strings of length 0, 1, 2", |i, obs| {
                let ext: Vec<u8> = if i == 0 { vec![] } else if i <= 256 { vec![(i - 1) as u8] } else { vec![((i - 257) >> 8) as u8, (i - 257) as u8] };
                let mut pdu = vec![0x08, 0x04, 0x00, 0xFF, 0x12, 0x34];
                pdu.extend_from_slice(&ext);
                obs.nontrivial(i);
                if i % 9973 == 0 {
                    obs.sample(|| json!({"buffer": 8, "reply_pdu": hex(&pdu)}));
                }
                check_scenario(Some(8), &[pdu], obs)
            }),
            SubCheck::index("ext_first_byte", "every first byte x tails of length 0..=11 x 8 contents", |i, obs| {
                let first = (i & 255) as u8;
                let len = ((i >> 8) % 12) as usize;
                let mut r = SplitMix(i ^ 0xD1A6);
                let mut pdu = vec![0x08, 0x04, 0x00, 0x02, 0x12, 0x34, first];
                for _ in 0..len {
                    pdu.push(r.next() as u8);
                }
                obs.nontrivial(i);
                check_scenario(Some(16), &[pdu], obs)
            }),
            SubCheck::tape("replies", "structured headers and block sequences, generated buffer sizes, up to three consecutive replies", |t, obs| {
                let bufsize = match t.below(6) {
                    0 => None,
                    1 => Some(0),
                    2 => Some(1 + t.below(8) as usize),
                    3 => Some(244),
                    _ => Some(1 + t.below(64) as usize),
                };
                let n = 1 + t.below(3) as usize;
                let mut replies = vec![];
                for _ in 0..n {
                    let pdu: Vec<u8> = match t.below(10) {
                        0 => {
                            let n = t.below(6) as usize;
                            t.fill(n) // too short
                        }
                        _ => {
                            let fe = if t.chance(2, 3) { Some(true) } else { None };
                            let h = gen_header(t, fe);
                            let mut p = h.to_vec();
                            p.extend(gen_ext(t, 238));
                            p
                        }
                    };
                    replies.push(pdu);
                }
                if replies.iter().any(|p| p.len() > 6 && p[0] & 0x08 != 0) {
                    obs.nontrivial(fingerprint(&(bufsize, &replies)));
                }
                obs.label(match bufsize { None => "no-buffer", Some(0) => "buffer-0", _ => "buffer" });
                // (generated last: an exhausted tape means no reset)
                let resets: Vec<bool> = (0..n).map(|i| i > 0 && !t.chance(4, 5)).collect();
                obs.sample(|| json!({"buffer": bufsize, "replies": replies.iter().map(|p| hex(p)).collect::<Vec<_>>(), "reset_address_before": resets}));
                check_scenario_resets(bufsize, &replies, &resets, obs)
            }),
            SubCheck::tape("fuzz_bytes", "raw bytes (entry of the libFuzzer target fz_diag): byte 0 selects the buffer size, the rest is the reply PDU, fed twice", |t, obs| {
                let b = t.rest_bytes();
                let bufsize = match b.first().copied().unwrap_or(0) {
                    0 => None,
                    1 => Some(0),
                    n => Some(usize::from(n)),
                };
                let pdu = b.get(1..).unwrap_or(&[]).to_vec();
                let pdu = pdu[..pdu.len().min(244)].to_vec();
                check_scenario(bufsize, &[pdu.clone(), pdu], obs)
            }),
            SubCheck::tape("scanner", "DpScanner decodes ident and master address of generated replies", |t, obs| {
                let pdu: Vec<u8> = if t.chance(1, 8) { let n = t.below(6) as usize; t.fill(n) } else {
                    let mut p = gen_header(t, None).to_vec();
                    p.extend(gen_ext(t, 238));
                    p
                };
                obs.nontrivial(fingerprint(&pdu));
                obs.sample(|| json!({"reply_pdu": hex(&pdu)}));
                scanner_case(&pdu, 0)
            }),
        ],
        plan: |tier| match tier {
            Tier::Quick => vec![
                Step::Enumerate { kind: "ext_short", count: 1 + 256 + 65536 },
                Step::Enumerate { kind: "ext_first_byte", count: 256 * 12 * 8 },
                Step::Pbt { kind: "replies", cases: 100_000, max_len: 120 },
                Step::Pbt { kind: "scanner", cases: 30_000, max_len: 60 },
            ],
            Tier::Thorough => vec![
                Step::Enumerate { kind: "ext_short", count: 1 + 256 + 65536 },
                Step::Enumerate { kind: "ext_first_byte", count: 256 * 12 * 64 },
                Step::Pbt { kind: "replies", cases: 1_500_000, max_len: 120 },
                Step::Pbt { kind: "scanner", cases: 200_000, max_len: 60 },
                Step::Fuzz { target: "fz_diag", runs: 3_000_000 },
            ],
        },
        hang_is_violation: true,
        hang_limit_s: 0,
        probes: vec![],
    }
}
