//! C03 C04 C07 C08 C14: DP master properties over generated fault histories (application-level
//! driver, harness/src/dpdrv.rs) - one shared runner, one oracle set per property.
use crate::dpdrv::*;
use crate::dporacles::*;
use crate::engine::*;
use serde_json::json;

#[derive(Clone, Copy, PartialEq, Eq)]
pub enum Which {
    C03,
    C04,
    C07,
    C08,
    C14,
}

fn oracles_for(w: Which, cfg: &DpCfg) -> Vec<Box<dyn DpOracle>> {
    let n = cfg.pers.len();
    match w {
        Which::C03 => vec![Box::new(C03Oracle::new(n))],
        Which::C04 => vec![Box::new(C04Oracle::new(cfg))],
        Which::C07 => vec![Box::new(C07Oracle::new(n))],
        Which::C08 => vec![Box::new(C08Oracle::new(n))],
        Which::C14 => vec![Box::new(C14Oracle::new(cfg))],
    }
}

fn gen_opts(w: Which) -> GenDp {
    match w {
        Which::C03 => GenDp { min_pers: 1, max_pers: 3, big_lengths: true, allow_incomplete: false, allow_mismatch: true, allow_late_add: false },
        Which::C04 => GenDp { min_pers: 1, max_pers: 3, big_lengths: true, allow_incomplete: false, allow_mismatch: false, allow_late_add: false },
        Which::C07 => GenDp { min_pers: 1, max_pers: 3, big_lengths: false, allow_incomplete: false, allow_mismatch: false, allow_late_add: false },
        Which::C08 => GenDp { min_pers: 1, max_pers: 3, big_lengths: false, allow_incomplete: false, allow_mismatch: true, allow_late_add: false },
        Which::C14 => GenDp { min_pers: 0, max_pers: 4, big_lengths: false, allow_incomplete: true, allow_mismatch: true, allow_late_add: true },
    }
}

/// Run one history (fault phase + fault-free continuation) under the oracles of `w`.
pub fn run_history(w: Which, cfg: DpCfg, hist: &History, obs: &mut Obs) -> CaseResult {
    let mut oracles = oracles_for(w, &cfg);
    let mut rig = DpRig::new(cfg.clone());
    for (user, act, dt, hp) in &hist.acts {
        rig.user(user, &mut oracles)?;
        rig.round(act, *dt, *hp, &mut oracles)?;
    }
    // everything that was generated as 'added later' is added now at the latest
    for _ in 0..cfg.pers.len() {
        rig.user(&UserAct::AddPending, &mut oracles)?;
    }
    rig.begin_clean(&mut oracles)?;
    let bound = C07Oracle::bound(&cfg) + 4;
    let start = rig.cycles;
    let max_rounds = (bound as usize + 8) * (cfg.pers.len() + 1) * (cfg.max_retry as usize + 4);
    let mut rounds = 0;
    while rig.cycles < start + bound && rounds < max_rounds {
        let hp = match hist.clean_hp {
            0 => false,
            1 => true,
            k => rounds % usize::from(k) == 0,
        };
        rig.round(&Act::Ok, 200, hp, &mut oracles)?;
        rounds += 1;
    }
    rig.finish(&mut oracles, obs)?;
    obs.count("requests", rig.requests);
    obs.count("callbacks", rig.callbacks);
    Ok(())
}

fn describe(cfg: &DpCfg, hist: &History) -> serde_json::Value {
    json!({
        "master": cfg.master_addr, "max_retry": cfg.max_retry, "min_tsdr": cfg.min_tsdr, "watchdog_ms": cfg.watchdog_ms, "fixed_slots": cfg.fixed_slots,
        "peripherals": cfg.pers.iter().map(|p| json!({"addr": p.addr, "ident": p.ident, "in": p.in_len, "out": p.out_len, "user_prm_len": p.user_prm.as_ref().map(|x| x.len()), "config_len": p.config.as_ref().map(|x| x.len()), "diag_buf": p.diag_buf, "slave_matches": p.slave_matches, "add_at_start": p.add_at_start, "sync": p.sync, "freeze": p.freeze, "groups": p.groups})).collect::<Vec<_>>(),
        "history": hist.acts.iter().map(|(u, a, dt, hp)| format!("{:?} / {:?} / +{}us{}", u, a, dt, if *hp { " high-prio-only" } else { "" })).collect::<Vec<_>>(),
    })
}

fn random_case(w: Which, t: &mut Tape, obs: &mut Obs, max_rounds: usize) -> CaseResult {
    let cfg = gen_dp_cfg(t, &gen_opts(w));
    let hist = gen_history(t, &cfg, max_rounds, true);
    let faults = hist.acts.iter().filter(|(_, a, _, _)| *a != Act::Ok).count();
    obs.label(&format!("peripherals={}", cfg.pers.len()));
    if cfg.fixed_slots.is_some() {
        obs.label("fixed-storage");
    }
    if cfg.pers.iter().any(|p| !p.add_at_start) {
        obs.label("added-during-operation");
    }
    if hist.acts.iter().any(|(_, a, _, _)| matches!(a, Act::PowerCycle | Act::Watchdog)) {
        obs.label("power-cycle-or-watchdog");
    }
    if hist.acts.iter().any(|(_, a, _, _)| matches!(a, Act::UserDiagInFlight)) {
        obs.label("user-diag-while-request-outstanding");
    }
    if hist.acts.iter().any(|(_, a, _, _)| matches!(a, Act::Replaced(_))) {
        obs.label("reply-replaced");
    }
    if w != Which::C07 && faults >= 1 {
        // C07 marks non-trivial cases itself (state at the start of the fault-free phase)
        obs.nontrivial(fingerprint(&(format!("{:?}", cfg.pers.iter().map(|p| (p.addr, p.in_len, p.out_len)).collect::<Vec<_>>()), cfg.max_retry, &hist.acts.iter().map(|(u, a, _, _)| (u.clone(), a.clone())).collect::<Vec<_>>())));
    }
    obs.sample(|| describe(&cfg, &hist));
    if std::env::var("PBVERIF_DUMP").is_ok() {
        eprintln!("{}", serde_json::to_string_pretty(&describe(&cfg, &hist)).unwrap());
    }
    if hist.clean_hp > 0 {
        obs.label("fault-free-phase-with-high-priority-only-cycles");
    }
    run_history(w, cfg, &hist, obs)
}

/// Full stack: real FDL + DpMaster on the SimBus, reference slaves as virtual nodes, faults on the
/// wire including replies from a wrong source / to a wrong destination / of request type.
fn fullstack_case(w: Which, t: &mut Tape, obs: &mut Obs) -> CaseResult {
    use crate::dpfull::*;
    let mut cfg = gen_dp_cfg(t, &GenDp { allow_late_add: false, allow_incomplete: w == Which::C14, ..gen_opts(w) });
    cfg.min_tsdr = 11;
    cfg.watchdog_ms = None;
    cfg.fixed_slots = None;
    if cfg.master_addr > 100 {
        cfg.master_addr = 2;
    }
    for p in cfg.pers.iter_mut() {
        p.add_at_start = true;
        if p.addr == cfg.master_addr {
            p.addr = (p.addr + 1) % 126;
        }
    }
    let mut oracles = oracles_for(w, &cfg);
    let mut rig = FullRig::new(cfg.clone(), t);
    let n = t.below(60) as usize;
    let mut script: Vec<WireAct> = (0..n).map(|_| gen_wire_act(t)).collect();
    // half of the lost replies are replies that break off in the middle or arrive with a bad checksum instead (derived from the
    // position so that the decoding of the tape stays what it was)
    for (i, a) in script.iter_mut().enumerate() {
        if *a == WireAct::ReplyLost && i % 4 == 1 {
            *a = WireAct::Truncated(1 + ((i * 5) % 13) as u8);
        } else if *a == WireAct::ReplyLost && i % 4 == 3 {
            *a = WireAct::Damaged(i as u8);
        }
    }
    *rig.script.borrow_mut() = script.clone();
    let np = cfg.pers.len().max(1) as u64;
    let slot = rig.sim.cfg.slot_us();
    // nothing to talk to: a few hundred slot times are enough to see that every poll returns
    if cfg.pers.is_empty() {
        rig.run(1, 400 * slot, &mut oracles)?;
        rig.finish(&mut oracles, obs)?;
        obs.label("peripherals=0");
        return Ok(());
    }
    // phase 1: the scripted faults, with user actions in between
    let chunks = 1 + n / 6;
    for _ in 0..chunks {
        match t.below(4) {
            0 => rig.write_outputs(t.below(np) as usize, t.u8()),
            1 => rig.request_diag(t.below(np) as usize, &mut oracles)?,
            _ => {}
        }
        rig.run(6, 1500 * slot, &mut oracles)?;
    }
    // let the rest of the script run out
    let mut guard = 0;
    while *rig.pos.borrow() < n && guard < 40 {
        rig.run(4, 600 * slot, &mut oracles)?;
        guard += 1;
    }
    rig.begin_clean(&mut oracles)?;
    let bound = C07Oracle::bound(&cfg) + 4;
    let start = rig.cycles;
    let mut guard = 0;
    while rig.cycles < start + bound && guard < 3 * bound {
        rig.run(np.max(1) * 2, 600 * slot, &mut oracles)?;
        guard += 1;
    }
    rig.finish(&mut oracles, obs)?;
    if std::env::var("PBVERIF_DUMP").is_ok() {
        eprintln!("{}", crate::ringsim::dump_tail(&rig.sim));
        eprintln!("fullstack: polls={} requests={} cycles={} sim_time={} us slot={} us cfg={}", rig.sim.nodes[0].polls, rig.requests, rig.cycles, rig.sim.now, slot, rig.sim.cfg.describe());
    }
    obs.count("requests", rig.requests);
    obs.count("inadmissible_telegrams_in_reply_slot", rig.inadmissible);
    obs.label(&format!("peripherals={}", cfg.pers.len()));
    if script.iter().any(|a| matches!(a, WireAct::Truncated(_))) {
        obs.label("reply-cut-off");
    }
    if script.iter().any(|a| matches!(a, WireAct::Damaged(_))) {
        obs.label("reply-with-bad-checksum");
    }
    if script.iter().any(|a| matches!(a, WireAct::WrongSource | WireAct::WrongDest | WireAct::RequestInstead)) {
        obs.label("reply-from-wrong-source-or-kind");
    }
    if w != Which::C07 && script.iter().any(|a| *a != WireAct::Ok) {
        obs.nontrivial(fingerprint(&(format!("{:?}", cfg.pers.iter().map(|p| (p.addr, p.in_len, p.out_len)).collect::<Vec<_>>()), cfg.max_retry, format!("{:?}", script))));
    }
    obs.sample(|| json!({"ring": rig.sim.cfg.describe(), "peripherals": cfg.pers.iter().map(|p| json!({"addr": p.addr, "in": p.in_len, "out": p.out_len})).collect::<Vec<_>>(), "wire_script": script.iter().map(|a| format!("{:?}", a)).collect::<Vec<_>>()}));
    Ok(())
}

/// Bounded exhaustive histories: every sequence of `depth` message-cycle actions over a small
/// alphabet, for three slave sets.
const ALPHABET: [Act; 6] = [Act::Ok, Act::RequestLost, Act::ReplyLost, Act::Replaced(Replace::Status(0x03, 0)), Act::PowerCycle, Act::UserDiagInFlight];

fn exhaustive_case(w: Which, index: u64, depth: u32, prefix_ok: usize, obs: &mut Obs) -> CaseResult {
    let variant = index % 3;
    let mut code = index / 3;
    let mut acts = vec![];
    // a fault-free prefix brings the peripherals into data exchange first (or not: prefix 0)
    for _ in 0..prefix_ok {
        acts.push((UserAct::None, Act::Ok, 200, false));
    }
    for _ in 0..depth {
        acts.push((UserAct::None, ALPHABET[(code % 6) as usize].clone(), 200, false));
        code /= 6;
    }
    let mk = |addr: u8, in_len: usize, out_len: usize| PerCfg {
        addr,
        ident: 0x1000 + u16::from(addr),
        sync: false,
        freeze: false,
        groups: 0,
        user_prm: Some(vec![1, 2, 3]),
        config: Some(vec![0x11, addr]),
        in_len,
        out_len,
        diag_buf: Some(16),
        slave_matches: true,
        add_at_start: true,
    };
    let pers = match variant {
        0 => vec![mk(10, 2, 1)],
        1 => vec![mk(10, 0, 2), mk(13, 3, 0)],
        _ => vec![mk(10, 1, 1), mk(13, 0, 0), mk(16, 2, 2)],
    };
    let cfg = DpCfg { master_addr: 2, max_retry: 1 + (variant as u8), min_tsdr: 11, watchdog_ms: None, pers, fixed_slots: None };
    let hist = History { acts, clean_rounds: 0, clean_hp: (code % 3) as u8 };
    if w != Which::C07 {
        obs.nontrivial(index);
    }
    if index % 50_021 == 0 {
        obs.sample(|| describe(&cfg, &hist));
    }
    run_history(w, cfg, &hist, obs)
}

macro_rules! dp_subchecks {
    ($w:expr) => {
        vec![
            SubCheck::tape("histories", "random configurations and fault histories (up to 60 message cycles) followed by a fault-free continuation", |t, obs| random_case($w, t, obs, 60)),
            SubCheck::tape("fullstack", "full stack on the SimBus: real FDL reply filter and timing, reference slaves as virtual nodes, wire faults incl. wrong source / destination / request-type replies, replies that break off in the middle or arrive with a bad frame check byte", |t, obs| fullstack_case($w, t, obs)),
            SubCheck::tape("histories_long", "as histories with up to 400 message cycles", |t, obs| random_case($w, t, obs, 400)),
            SubCheck::index("exh_start", "all fault placements over {ok, request lost, reply lost, reply replaced by RS, power cycle, user diag request} of depth 5 from start-up, 3 slave sets", |i, obs| exhaustive_case($w, i, 5, 0, obs)),
            SubCheck::index("exh_running", "the same alphabet, depth 5, applied after the peripherals reached data exchange (fault-free prefix of 30 cycles)", |i, obs| exhaustive_case($w, i, 5, 30, obs)),
            SubCheck::index("exh_deep", "depth 7 from start-up", |i, obs| exhaustive_case($w, i, 7, 0, obs)),
            SubCheck::index("exh_running_deep", "depth 7 after reaching data exchange", |i, obs| exhaustive_case($w, i, 7, 30, obs)),
        ]
    };
}

fn dp_plan(tier: Tier) -> Vec<Step> {
    match tier {
        Tier::Quick => vec![
            Step::Pbt { kind: "histories", cases: 40_000, max_len: 420 },
            Step::Pbt { kind: "fullstack", cases: 1_500, max_len: 200 },
            Step::Enumerate { kind: "exh_start", count: 3 * 6u64.pow(5) },
            Step::Enumerate { kind: "exh_running", count: 3 * 6u64.pow(5) },
        ],
        Tier::Thorough => vec![
            Step::Pbt { kind: "histories", cases: 300_000, max_len: 420 },
            Step::Pbt { kind: "histories_long", cases: 30_000, max_len: 2600 },
            Step::Pbt { kind: "fullstack", cases: 60_000, max_len: 200 },
            Step::Enumerate { kind: "exh_deep", count: 3 * 6u64.pow(7) },
            Step::Enumerate { kind: "exh_running_deep", count: 3 * 6u64.pow(7) },
        ],
    }
}

const DP_ASSUMPTIONS: [&str; 4] = [
    "application-level driver: DpMaster is driven through its public FdlApplication methods with a real FdlActiveStation supplying the parameters; the harness applies the FDL reply-admission rule (short confirmation, or a response from the addressed station to this station) itself - replies that the FDL would not admit count as 'nothing delivered'",
    "reference DP-V0 slave (harness/src/dpdrv.rs): Wait_Prm/Wait_Cfg/Data_Exch, ident and configuration compare, master lock, Slave_Diag, RS for services not enabled, retransmission detection by frame count bit; it never answers late",
    "DP master operating states Clear/Stop, SYNC/FREEZE and multi-master are todo!() in the crate and not generated",
    "peripheral options are fixed after add(); reset_address() is not called while a request is outstanding",
];

pub fn c03() -> Property {
    Property {
        id: "C03",
        rule: "cases: DpMaster with 1..3 peripherals (generated ident, sync/freeze, groups, user parameters 0..237 bytes, configuration 1..244 bytes, watchdog none or 10 ms..650 s, min Tsdr 11..255, max_retry 1..15) against reference slaves under generated fault histories (request lost, reply lost, reply replaced by every response status / SC / wrong SAPs / short or wrong-length PDU / fault flags, power cycle, watchdog expiry, transient Prm_Fault / Cfg_Fault / Not_Ready / Prm_Req, user diagnostics requests), plus ALL fault placements of depth 5 (quick) / 7 (thorough) over a 6-symbol alphabet from start-up and from data exchange. Oracle 1: a bring-up admission automaton fed only with what was on the wire and what was delivered (S0 -diag reply-> S1 -SC to Set_Prm-> S2 -SC to Chk_Cfg-> S3 -ready diag-> S4; reset by Offline/ParameterError/ConfigError events, S3->S1 on Prm_Req, S4->S3 on RS) - a Data_Exchange request outside S4 is a violation. Oracle 2: Set_Prm / Chk_Cfg / Slave_Diag / Data_Exchange bytes and SAPs equal the configured options, watchdog factors f1*f2 meet the requested time (10 ms units) by less than one step. Non-trivial = at least one fault in the history; distinct by (peripheral set, max_retry, history).",
        assumptions: DP_ASSUMPTIONS.to_vec(),
        subchecks: dp_subchecks!(Which::C03),
        plan: dp_plan,
        hang_is_violation: true,
        hang_limit_s: 60,
        probes: vec![],
    }
}

pub fn c04() -> Property {
    Property {
        id: "C04",
        rule: "cases: as C03 with input/output lengths 0..244 and user writes to the output image between polls. Model of both images: every Data_Exchange request PDU equals the output image as last written; after EVERY callback the input image of every peripheral equals the model, which changes only on a delivered SAP-less response with status OK/DL/DH and exactly the configured length from the addressed peripheral (then it equals the payload); DataExchanged is reported iff the model updated (or SC for an input-less peripheral). Non-trivial = at least one fault in the history; distinct by (peripheral set, max_retry, history). Counters accepted_updates / rejected_replies show both sides are exercised.",
        assumptions: DP_ASSUMPTIONS.to_vec(),
        subchecks: dp_subchecks!(Which::C04),
        plan: dp_plan,
        hang_is_violation: true,
        hang_limit_s: 60,
        probes: vec![],
    }
}

pub fn c07() -> Property {
    Property {
        id: "C07",
        rule: "cases: generated fault history (phase 1, as C03 plus user request_diagnostics and output writes; exhaustive over all placements of depth 5/7 over a 6-symbol alphabet from start-up and from data exchange), then a fault-free continuation (phase 2) with the reference slaves behaving to the standard. Bounded liveness: within K = 36 + 6*max_retry completed DP cycles (slow devices need up to five more validation polls) of phase 2 every peripheral whose configuration matches is_running(), its events since the last Offline contain Online, Configured, DataExchanged in this order, and its reference slave is in Data_Exch locked to this master. Non-trivial = phase 2 starts from a joint state other than 'all running'; distinct by (is_live, is_running, slave state, stored FCB) of all peripherals + max_retry.",
        assumptions: DP_ASSUMPTIONS.to_vec(),
        subchecks: dp_subchecks!(Which::C07),
        plan: dp_plan,
        hang_is_violation: true,
        hang_limit_s: 60,
        probes: vec![],
    }
}

pub fn c08() -> Property {
    Property {
        id: "C08",
        rule: "cases: as C07 (max_retry 1..15, 1..3 peripherals, all reply kinds incl. well-formed-but-rejected, user calls while a request is outstanding). Per destination over consecutive acknowledged-service requests r1, r2 (global control excluded): first request after start-up / Offline event has FCV=0 FCB=1; with NOTHING delivered for r1, r2 is its retransmission (same FCV/FCB, service, bytes) unless an Offline event lies between; after a GOOD reply (the kind the service expects) r2 has FCV=1 and the opposite FCB; after an ODD reply (admitted by the FDL, wrong kind for the service) either, but an equal FCB requires the same service; while live a run of unanswered identical requests is at most 1+max_retry_limit long and is followed by exactly one Offline event; while not live only diagnostics probes are sent. Non-trivial = at least one fault; distinct by (peripheral set, max_retry, history); counters retransmissions / offline_events / online_events.",
        assumptions: DP_ASSUMPTIONS.to_vec(),
        subchecks: dp_subchecks!(Which::C08),
        plan: dp_plan,
        hang_is_violation: true,
        hang_limit_s: 60,
        probes: vec![],
    }
}

pub fn c14() -> Property {
    Property {
        id: "C14",
        rule: "cases: DpMaster with 0..4 peripherals in Vec storage or fixed arrays (exactly full or with spare slots), peripherals added before the first poll or at generated instants during operation, peripherals with incomplete options, responsive / silent / faulty / mismatching slaves, all fault kinds of C03, high-priority-only turns, global-control instants varied through generated time steps. Between consecutive 'cycle completed' reports the request destinations form at most one contiguous run per peripheral in slot order; over any three consecutive cycles every peripheral with complete options gets a request; reports keep coming (bounded number of callbacks apart); per-peripheral event automaton (Online only when not live; Offline/ParameterError/ConfigError only when live; Configured only when live; DataExchanged/Diagnostics only after Configured; DataExchanged implies is_running()); after EVERY callback is_live() equals the automaton; every call returns (zero peripherals included). Non-trivial = at least one fault; distinct by (peripheral set, max_retry, history).",
        assumptions: DP_ASSUMPTIONS.to_vec(),
        subchecks: dp_subchecks!(Which::C14),
        plan: dp_plan,
        hang_is_violation: true,
        hang_limit_s: 60,
        probes: vec![],
    }
}
