//! C10 The decoder is total, prefix-consistent and never mis-accepts damaged frames.
use crate::engine::*;
use crate::props::c09::{fc_by_index, hex, max_pdu, ref_fc_byte, N_FC};
use crate::refcodec::{self as rc, RefFrame, RefVerdict};
use crate::{ensure, fail};
use profirust::fdl::{DataTelegram, Telegram};
use serde_json::json;

#[derive(Debug, Clone, PartialEq, Eq)]
pub enum Verdict {
    NeedMore,
    Reject,
    Accept(RefFrame, usize),
}

fn to_ref(t: &Telegram) -> RefFrame {
    match t {
        Telegram::Token(t) => RefFrame::Token { da: t.da, sa: t.sa },
        Telegram::ShortConfirmation(_) => RefFrame::Sc,
        Telegram::Data(d) => RefFrame::Data {
            da: d.h.da,
            sa: d.h.sa,
            dsap: d.h.dsap,
            ssap: d.h.ssap,
            fc: d.h.fc.to_byte(),
            pdu: d.pdu.to_vec(),
        },
    }
}

/// Run profirust's decoder on `input`, checking the structural promises (length and payload inside
/// the input) on the way.
pub fn impl_verdict(input: &[u8]) -> Result<Verdict, Failure> {
    let r = Telegram::deserialize(input);
    let v = match &r {
        None => Verdict::NeedMore,
        Some(Err(())) => Verdict::Reject,
        Some(Ok((t, used))) => {
            ensure!(
                *used >= 1 && *used <= input.len(),
                "len-outside",
                "decoder reports length {} for a {}-byte input {}",
                used,
                input.len(),
                hex(input)
            );
            if let Telegram::Data(d) = t {
                let lo = input.as_ptr() as usize;
                let p = d.pdu.as_ptr() as usize;
                ensure!(
                    d.pdu.is_empty() || (p >= lo && p + d.pdu.len() <= lo + *used),
                    "pdu-outside",
                    "payload slice lies outside the consumed input for {}",
                    hex(input)
                );
            }
            Verdict::Accept(to_ref(t), *used)
        }
    };
    // DataTelegram::deserialize directly, under its caller contract (input starts with SD1/2/3)
    if matches!(input.first(), Some(&rc::SD1) | Some(&rc::SD2) | Some(&rc::SD3)) {
        let d = DataTelegram::deserialize(input);
        let dv = match &d {
            None => Verdict::NeedMore,
            Some(Err(())) => Verdict::Reject,
            Some(Ok((t, used))) => Verdict::Accept(to_ref(&Telegram::Data(t.clone())), *used),
        };
        ensure!(
            dv == v,
            "dispatch",
            "DataTelegram::deserialize gives {:?} but Telegram::deserialize {:?} for {}",
            dv,
            v,
            hex(input)
        );
    }
    Ok(v)
}

/// Is the accepted input the canonical encoding of its frame (what an encoder produces)?  Only for
/// those the property demands acceptance; for exotic-but-wellformed frames (SD2 with LE 3 or 11,
/// LE > 249) accepting or rejecting is both fine.
fn canonical(frame: &RefFrame, input: &[u8], used: usize) -> bool {
    if let RefFrame::Data { pdu, dsap, ssap, .. } = frame {
        if pdu.len() + 3 + usize::from(dsap.is_some()) + usize::from(ssap.is_some()) > 249 {
            return false;
        }
    }
    rc::encode(frame) == input[..used]
}

/// Differential oracle against the reference decoder.
pub fn check_diff(input: &[u8], obs: &mut Obs) -> Result<Verdict, Failure> {
    let v = impl_verdict(input)?;
    let r = rc::decode(input);
    match (&v, &r) {
        (Verdict::NeedMore, RefVerdict::Short { .. }) => {}
        (Verdict::NeedMore, _) => fail!(
            "needmore-complete",
            "decoder asks for more data although the {}-byte input {} already has the announced length (reference: {:?})",
            input.len(),
            hex(input),
            r
        ),
        (Verdict::Reject, RefVerdict::Reject) => {}
        (Verdict::Reject, RefVerdict::Short { viable: false, .. }) => {}
        (Verdict::Reject, RefVerdict::Short { viable: true, .. }) => fail!(
            "reject-viable-prefix",
            "decoder rejects {} although it is a proper prefix of a valid frame",
            hex(input)
        ),
        (Verdict::Reject, RefVerdict::Accept(f, used)) => {
            if canonical(f, input, *used) {
                fail!(
                    "reject-valid",
                    "decoder rejects the valid frame {} ({:?})",
                    hex(&input[..*used]),
                    f
                );
            }
            obs.label("noncanonical-rejected");
        }
        (Verdict::Accept(f, used), RefVerdict::Accept(rf, rused)) => {
            // the reserved bit 7 of a response function code is ignored by the decoder (0x82 is
            // read like 0x02, see C09); the comparison is made on the normalised code
            let rf = &rf.normalised();
            ensure!(
                f == rf && used == rused,
                "accept-differs",
                "decoder returns {:?} ({} bytes) but the frame format says {:?} ({} bytes) for {}",
                f,
                used,
                rf,
                rused,
                hex(input)
            );
        }
        (Verdict::Accept(f, used), _) => fail!(
            "mis-accept",
            "decoder accepts {:?} ({} bytes) from {} which is not a valid frame (reference: {:?})",
            f,
            used,
            hex(input),
            r
        ),
    }
    Ok(v)
}

/// Prefix consistency over all prefixes of `s` (differential on each prefix as well).
pub fn check_prefixes(s: &[u8], obs: &mut Obs) -> CaseResult {
    let full = check_diff(s, obs)?;
    let mut first_decision: Option<(usize, Verdict)> = None;
    for k in 0..s.len() {
        let v = check_diff(&s[..k], obs)?;
        match (&v, &full) {
            (Verdict::NeedMore, _) => {}
            (Verdict::Reject, Verdict::Reject) => {}
            (Verdict::Accept(a, n), Verdict::Accept(b, m)) if a == b && n == m => {}
            _ => fail!(
                "prefix-contradiction",
                "verdict {:?} on the {}-byte prefix contradicts {:?} on the whole input {}",
                v,
                k,
                full,
                hex(s)
            ),
        }
        if first_decision.is_none() && v != Verdict::NeedMore {
            first_decision = Some((k, v));
        }
    }
    Ok(())
}

/// A valid frame drawn from the tape: (bytes, is_data_or_sc).
pub fn gen_valid_frame(t: &mut Tape) -> Vec<u8> {
    match t.weighted(&[10, 1, 1]) {
        1 => vec![rc::SC],
        2 => vec![rc::SD4, t.u8(), t.u8()],
        _ => {
            let hd = t.bool();
            let hs = t.bool();
            let lim = max_pdu(hd, hs);
            let len = match t.below(4) {
                0 => t.below(2) as usize * 8, // SD1 / SD3
                1 => t.below(16) as usize,
                2 => lim - t.below(3) as usize,
                _ => t.below(lim as u64 + 1) as usize,
            };
            // SD1 needs no SAPs at all
            let (hd, hs) = if len == 0 && t.bool() { (false, false) } else { (hd, hs) };
            let len = if len == 8 && (hd || hs) && t.bool() {
                8 - usize::from(hd) - usize::from(hs)
            } else {
                len
            };
            let f = RefFrame::Data {
                da: t.below(128) as u8,
                sa: t.below(128) as u8,
                dsap: hd.then(|| t.u8()),
                ssap: hs.then(|| t.u8()),
                fc: {
                    let fc = ref_fc_byte(fc_by_index(t.below(N_FC)));
                    // now and then the reserved bit 7 of a response code is set on the wire
                    if !rc::fc_is_request(fc) && t.chance(1, 8) {
                        fc | 0x80
                    } else {
                        fc
                    }
                },
                pdu: {
                    let kind = t.below(4);
                    match kind {
                        0 => vec![0; len],
                        1 => vec![0x16; len],
                        2 => {
                            // payload crafted to look like frame structure
                            let mut p = t.fill(len);
                            for (i, b) in p.iter_mut().enumerate() {
                                if i % 3 == 1 {
                                    *b = [0x16, 0x68, 0x10, 0xE5, 0xDC, 0xA2][i % 6];
                                }
                            }
                            p
                        }
                        _ => t.fill(len),
                    }
                },
            };
            // now and then the variable-length format where a fixed one would do
            if t.chance(1, 6) {
                rc::encode_sd2(&f)
            } else {
                rc::encode(&f)
            }
        }
    }
}

const DELIMS: [u8; 5] = [rc::SD1, rc::SD2, rc::SD3, rc::SD4, rc::SC];

/// The receive path that turns the decoder's verdict into bytes consumed and telegrams delivered
/// (ProfibusPhy::receive_telegram / receive_all_telegrams, the second anchor of the property): a
/// valid data frame or short confirmation with one damaged byte is received whole or in chunks.
fn receive_path_case(t: &mut Tape, obs: &mut Obs) -> CaseResult {
    use crate::simbus::ChunkPhy;
    use profirust::phy::ProfibusPhy;
    let mut frame = gen_valid_frame(t);
    if frame[0] == rc::SD4 {
        frame = vec![rc::SC];
    }
    let len = frame.len();
    let pos = match t.below(4) {
        0 => 3.min(len - 1),
        1 => len - 1 - (t.below(2) as usize).min(len - 1),
        _ => t.below(len as u64) as usize,
    };
    let mut val = t.u8();
    if val == frame[pos] {
        val ^= 1 << t.below(8);
    }
    if pos == 0 && DELIMS.contains(&val) {
        // another delimiter in front changes the frame format itself (see the assumptions)
        val ^= 0x01;
    }
    let mut m = frame.clone();
    m[pos] = val;
    let use_all = t.bool();
    let whole = t.bool();
    // a quarter of the chunked cases receive the frame undamaged: it is delivered exactly once, by
    // the poll that finds its last byte
    let intact_wanted = !whole;
    let now = profirust::time::Instant::ZERO;
    let mut phy = ChunkPhy::default();
    let mut poll = |phy: &mut ChunkPhy| -> Vec<RefFrame> {
        let mut got: Vec<RefFrame> = vec![];
        if use_all {
            phy.receive_all_telegrams(now, |tel, _| got.push(to_ref(&tel)));
        } else if let Some(x) = phy.receive_telegram(now, |tel| to_ref(&tel)) {
            got.push(x);
        }
        got
    };
    if whole {
        if rc::decode(&m) != RefVerdict::Reject {
            obs.label("damaged-frame-not-rejected-by-the-reference");
            return Ok(());
        }
        // the whole damaged frame is pending: nothing may ever be delivered from it, however many
        // polls the receive path takes to get rid of it (what it does with the bytes is C16's matter)
        phy.buf = m.clone();
        let mut polls = 0u64;
        loop {
            let before = phy.buf.len();
            let got = poll(&mut phy);
            polls += 1;
            ensure!(got.is_empty(), "damaged-frame-delivers", "{} with byte {} replaced by 0x{:02x}, received in one piece, delivers {:?} (poll {})", hex(&frame), pos, val, got, polls);
            if phy.buf.is_empty() || phy.buf.len() == before || polls > m.len() as u64 + 2 {
                break;
            }
        }
        obs.count("polls", polls);
        obs.label("whole");
    } else {
        // in chunks with a poll after each: whatever is delivered must be what the frame format
        // reads at the start of the bytes that were pending, and never more is consumed than pending
        // (the chunk PHY asserts the latter, like the crate's PHYs)
        let intact = intact_wanted && !t.chance(3, 4);
        if intact {
            m = frame.clone();
        }
        let mut delivered = 0usize;
        let mut off = 0;
        let mut polls = 0u64;
        while off < m.len() {
            let n = (1 + t.below(4) as usize).min(m.len() - off);
            phy.buf.extend_from_slice(&m[off..off + n]);
            off += n;
            let before = phy.buf.clone();
            let got = poll(&mut phy);
            polls += 1;
            let mut o = 0;
            for g in &got {
                match rc::decode(&before[o..]) {
                    RefVerdict::Accept(f, n) if f.normalised() == *g => o += n,
                    r => fail!("damaged-frame-delivers", "{} with byte {} replaced by 0x{:02x}, received in chunks: delivered {:?} where the pending bytes {} read as {:?}", hex(&frame), pos, val, g, hex(&before[o..]), r),
                }
            }
            ensure!(before.len() - phy.buf.len() >= o, "consumed-less-than-delivered", "{} bytes consumed but {} delivered from {}", before.len() - phy.buf.len(), o, hex(&before));
            delivered += got.len();
            if intact {
                ensure!(delivered == usize::from(off == m.len()), "intact-frame-lost", "the undamaged frame {} arrives in chunks: after {} of {} bytes {} telegram(s) were delivered and {} bytes are pending", hex(&m), off, m.len(), delivered, phy.buf.len());
            }
        }
        if intact {
            obs.label("chunked-undamaged");
        }
        obs.count("polls", polls);
        obs.label("chunked");
    }
    obs.label(if use_all { "receive_all_telegrams" } else { "receive_telegram" });
    if len >= 6 {
        obs.nontrivial(fingerprint(&(m.clone(), whole, use_all)));
    }
    obs.sample(|| json!({"valid_frame": hex(&frame), "damaged_byte": pos, "value": val, "whole": whole, "helper": if use_all { "receive_all_telegrams" } else { "receive_telegram" }}));
    Ok(())
}

pub fn property() -> Property {
    Property {
        id: "C10",
        rule: "cases: byte strings fed to Telegram::deserialize (and DataTelegram::deserialize under its caller contract) and compared with a reference decoder written from the frame format: all strings of length <= 2, all 3-byte strings starting with a delimiter, SD2 headers 68 LE LEr x (all (LE,LEr) pairs x 16 fourth bytes quick / all 256^3 thorough) each with a well-formed body of the announced length, whole and truncated/extended; valid frames with every single-bit flip at every position and every single-byte substitution at generated positions; random and mutated strings up to 262 bytes with all their prefixes; (receive_path) valid data frames / SC with one substituted byte through ProfibusPhy::receive_telegram / receive_all_telegrams on a chunk PHY: received whole nothing is ever delivered from it (polled until the receive path has got rid of it), received in chunks every delivered telegram is what the reference decoder reads at the start of the pending bytes and never more is consumed than pending; a quarter of the chunked cases receive the frame undamaged, which is delivered exactly once, by the poll that finds its last byte. Non-trivial = the input starts with a start delimiter and is at least 3 bytes long; distinct by content hash.",
        assumptions: vec![
            "reference decoder (harness/src/refcodec.rs) is a faithful rendering of the acceptance conditions of the FDL frame format",
            "'asks for more data only for a proper prefix of a frame of the announced length' is read as: only while the input is shorter than the length the bytes present announce",
            "replacing the start delimiter by another delimiter value changes the frame format itself (4-bit error); those cases are judged by the differential oracle only",
        ],
        subchecks: vec![
            SubCheck::index("short_strings", "all byte strings of length 0, 1, 2", |i, obs| {
                let s: Vec<u8> = if i == 0 { vec![] } else if i <= 256 { vec![(i - 1) as u8] } else { vec![((i - 257) >> 8) as u8, (i - 257) as u8] };
                check_prefixes(&s, obs)
            }),
            SubCheck::index("three_bytes", "all 3-byte strings whose first byte is a delimiter", |i, obs| {
                let s = [DELIMS[(i >> 16) as usize], (i >> 8) as u8, i as u8];
                obs.nontrivial(i);
                obs.sample(|| json!({"input": hex(&s)}));
                check_prefixes(&s, obs)
            }),
            SubCheck::index("sd2_headers", "SD2 headers 68 LE LEr x with a well-formed body of the announced length (whole, one byte short, one byte extra)", |i, obs| {
                // index layout: LE (8) | LEr (8) | x (8); quick tier passes a sparse set of x via remap
                let le = (i >> 16) as u8;
                let ler = (i >> 8) as u8;
                let x = i as u8;
                sd2_header_case(le, ler, x, i, obs)
            }),
            SubCheck::index("sd2_headers_q", "as sd2_headers with 16 representative fourth bytes (quick tier)", |i, obs| {
                const XS: [u8; 16] = [0x68, 0x69, 0x60, 0xE8, 0x28, 0x00, 0xFF, 0x10, 0xA2, 0xDC, 0xE5, 0x16, 0x48, 0x6A, 0x78, 0x67];
                let le = (i >> 12) as u8;
                let ler = (i >> 4) as u8;
                let x = XS[(i & 15) as usize];
                sd2_header_case(le, ler, x, i, obs)
            }),
            SubCheck::tape("corrupt", "valid frame; every single-bit flip at every position; every value at generated positions", |t, obs| {
                let frame = gen_valid_frame(t);
                let is_token = frame[0] == rc::SD4;
                // sanity: the valid frame is accepted whole
                match check_diff(&frame, obs)? {
                    Verdict::Accept(_, n) if n == frame.len() => {}
                    v => fail!("reject-valid", "valid frame {} gives {:?}", hex(&frame), v),
                }
                if is_token {
                    // tokens carry no checksum; only the differential oracle applies
                    let pos = t.below(3) as usize;
                    let mut m = frame.clone();
                    m[pos] = t.u8();
                    check_diff(&m, obs)?;
                    return Ok(());
                }
                let mut n_flip = 0u64;
                for pos in 0..frame.len() {
                    for bit in 0..8 {
                        let mut m = frame.clone();
                        m[pos] ^= 1 << bit;
                        let v = check_diff(&m, obs)?;
                        n_flip += 1;
                        if let Verdict::Accept(f, _) = v {
                            fail!("bitflip-accepted", "single-bit error (byte {}, bit {}) in {} is decoded as {:?}", pos, bit, hex(&frame), f);
                        }
                    }
                }
                obs.count("bit_flips", n_flip);
                // substitutions: position 0 always, plus generated positions
                let mut positions = vec![0usize];
                for _ in 0..4 {
                    positions.push(t.below(frame.len() as u64) as usize);
                }
                if frame.len() > 4 {
                    positions.extend_from_slice(&[1, 2, 3, frame.len() - 1, frame.len() - 2]);
                }
                positions.sort();
                positions.dedup();
                let mut n_sub = 0u64;
                for pos in positions {
                    for val in 0..=255u8 {
                        if val == frame[pos] {
                            continue;
                        }
                        let mut m = frame.clone();
                        m[pos] = val;
                        let v = check_diff(&m, obs)?;
                        n_sub += 1;
                        if pos == 0 && DELIMS.contains(&val) {
                            obs.count("delimiter_swaps_judged_by_differential_only", 1);
                            continue;
                        }
                        if let Verdict::Accept(f, _) = v {
                            fail!("substitution-accepted", "byte {} of {} replaced by 0x{:02x} is decoded as {:?}", pos, hex(&frame), val, f);
                        }
                    }
                }
                obs.count("substitutions", n_sub);
                obs.nontrivial(fingerprint(&frame));
                obs.label(match frame[0] { rc::SD1 => "sd1", rc::SD2 => "sd2", rc::SD3 => "sd3", rc::SC => "sc", _ => "other" });
                obs.sample(|| json!({"valid_frame": hex(&frame)}));
                Ok(())
            }),
            SubCheck::tape("receive_path", "valid data frame / SC with one substituted byte received through ProfibusPhy::receive_telegram / receive_all_telegrams, whole or in generated chunks", receive_path_case),
            SubCheck::tape("fuzz_bytes", "raw byte string (one byte per choice; entry of the libFuzzer target fz_decoder): verdicts on every prefix", |t, obs| {
                let s = t.rest_bytes();
                check_prefixes(&s[..s.len().min(262)], obs)
            }),
            SubCheck::tape("strings", "random / near-valid / concatenated strings up to 262 bytes, verdict on every prefix", |t, obs| {
                let mut s: Vec<u8> = vec![];
                match t.weighted(&[3, 3, 2, 2]) {
                    0 => {
                        // pure random, delimiter first more often than not
                        let n = t.below(263) as usize;
                        s = t.fill(n);
                        if !s.is_empty() && t.bool() {
                            s[0] = *t.pick(&DELIMS);
                        }
                    }
                    1 => {
                        // valid frame with a few mutations, then trailing bytes
                        s = gen_valid_frame(t);
                        for _ in 0..t.below(3) {
                            let pos = t.below(s.len() as u64) as usize;
                            match t.below(3) {
                                0 => s[pos] = t.u8(),
                                1 => s[pos] ^= 1 << t.below(8),
                                _ => {
                                    s.remove(pos);
                                }
                            }
                            if s.is_empty() {
                                break;
                            }
                        }
                        let extra = t.below(6) as usize;
                        s.extend(t.fill(extra));
                    }
                    2 => {
                        // two valid frames back to back
                        s = gen_valid_frame(t);
                        s.extend(gen_valid_frame(t));
                    }
                    _ => {
                        // SD2 header with random LE and random body
                        let le = t.u8();
                        let ler = if t.chance(3, 4) { le } else { t.u8() };
                        s = vec![rc::SD2, le, ler, if t.chance(3, 4) { rc::SD2 } else { t.u8() }];
                        let n = (usize::from(le) + 2 + t.below(3) as usize).saturating_sub(t.below(3) as usize);
                        s.extend(t.fill(n));
                    }
                }
                s.truncate(262);
                if s.len() >= 3 && DELIMS.contains(&s[0]) {
                    obs.nontrivial(fingerprint(&s));
                }
                obs.sample(|| json!({"input": hex(&s)}));
                check_prefixes(&s, obs)
            }),
        ],
        plan: |tier| match tier {
            Tier::Quick => vec![
                Step::Enumerate { kind: "short_strings", count: 1 + 256 + 65536 },
                Step::Enumerate { kind: "three_bytes", count: 5 << 16 },
                Step::Enumerate { kind: "sd2_headers_q", count: 1 << 20 },
                Step::Pbt { kind: "corrupt", cases: 12_000, max_len: 40 },
                Step::Pbt { kind: "receive_path", cases: 40_000, max_len: 120 },
                Step::Pbt { kind: "strings", cases: 100_000, max_len: 40 },
            ],
            Tier::Thorough => vec![
                Step::Enumerate { kind: "short_strings", count: 1 + 256 + 65536 },
                Step::Enumerate { kind: "three_bytes", count: 5 << 16 },
                Step::Enumerate { kind: "sd2_headers", count: 1 << 24 },
                Step::Pbt { kind: "corrupt", cases: 100_000, max_len: 40 },
                Step::Pbt { kind: "receive_path", cases: 600_000, max_len: 120 },
                Step::Pbt { kind: "strings", cases: 1_000_000, max_len: 40 },
                Step::Fuzz { target: "fz_decoder", runs: 5_000_000 },
            ],
        },
        hang_is_violation: true,
        hang_limit_s: 0,
        probes: vec![],
    }
}

fn sd2_header_case(le: u8, ler: u8, x: u8, i: u64, obs: &mut Obs) -> CaseResult {
    let mut r = SplitMix(i ^ 0x5D2);
    // a body that would be valid for announced length LE (if LE >= 3): DA SA FC data FCS ED
    let n = usize::from(le).max(3);
    let mut body = vec![r.below(128) as u8, r.below(128) as u8, ref_fc_byte(fc_by_index(r.below(N_FC)))];
    if n >= 5 && r.below(2) == 0 {
        body[0] |= 0x80;
        body[1] |= 0x80;
    }
    while body.len() < n {
        body.push(r.next() as u8);
    }
    let fcs = body.iter().fold(0u8, |a, b| a.wrapping_add(*b));
    let mut s = vec![rc::SD2, le, ler, x];
    s.extend_from_slice(&body);
    s.push(fcs);
    s.push(rc::ED);
    let whole = check_diff(&s, obs)?;
    let good = le == ler && le >= 3 && x == rc::SD2;
    match (&whole, good) {
        (Verdict::Accept(..), true) => {}
        (Verdict::Reject, false) => {}
        (Verdict::NeedMore, false) if usize::from(le) + 6 > s.len() => {}
        _ => fail!("sd2-header", "header 68 {:02x} {:02x} {:02x} with a well-formed body gives {:?}", le, ler, x, whole),
    }
    // one byte short and one byte extra
    let short = check_diff(&s[..s.len() - 1], obs)?;
    if good {
        ensure!(short == Verdict::NeedMore, "prefix", "valid frame {} minus its last byte gives {:?}", hex(&s), short);
    }
    let mut ext = s.clone();
    ext.push(r.next() as u8);
    let e = check_diff(&ext, obs)?;
    ensure!(
        e == whole || whole == Verdict::NeedMore,
        "prefix-contradiction",
        "verdict changes from {:?} to {:?} when a byte is appended to {}",
        whole,
        e,
        hex(&s)
    );
    if good {
        obs.nontrivial(i);
        obs.label("valid-header");
    } else {
        obs.nontrivial(i);
    }
    if i % 4099 == 0 {
        obs.sample(|| json!({"input": hex(&s), "verdict": format!("{:?}", whole)}));
    }
    Ok(())
}
