//! C01 Bus access is collision-free and respects PROFIBUS idle times.
use crate::engine::*;
use crate::ringsim::*;
use serde_json::json;

pub fn attach_apps(sim: &mut Sim, t: &mut Tape) -> Vec<&'static str> {
    // application load per station: none / live list (traffic apps are added by C13/C15's generator)
    let mut kinds = vec![];
    let addrs: Vec<u8> = sim.nodes.iter().map(|n| n.addr).collect();
    let log: crate::apps::Log = std::rc::Rc::new(std::cell::RefCell::new(vec![]));
    for n in sim.nodes.iter_mut() {
        match t.weighted(&[3, 2, 1, 1]) {
            3 => {
                // a 'bus monitor': now and then an FDL status request to the broadcast address (which
                // nobody may answer), to another master and to an unused address
                let others: Vec<u8> = addrs.iter().copied().filter(|a| *a != n.addr).collect();
                let mut targets = vec![127u8, 126];
                targets.extend(others.iter().take(2));
                // ... or publishes two unacknowledged broadcasts per token hold (back-to-back telegrams of
                // the same station, separated by the synchronisation pause only)
                let spec = if t.bool() {
                    crate::apps::AppSpec { burst: 1, targets, kind: crate::apps::ReqKind::FdlStatus, pdu_len: 0 }
                } else {
                    crate::apps::AppSpec { burst: 2, targets: vec![127], kind: crate::apps::ReqKind::SdnLow, pdu_len: 1 + t.below(12) as usize }
                };
                n.apps.push(Box::new(crate::apps::TrafficApp::new(0, 0, n.addr, spec, log.clone())));
                kinds.push("monitor");
            }
            1 => {
                n.apps.push(Box::new(profirust::fdl::live_list::LiveList::new()));
                kinds.push("livelist");
            }
            2 => {
                n.apps.push(Box::new(profirust::fdl::live_list::LiveList::new()));
                n.apps.push(Box::new(profirust::dp::scan::DpScanner::new()));
                kinds.push("livelist+scanner");
            }
            _ => kinds.push("none"),
        }
    }
    kinds
}

pub fn horizon_us(cfg: &RingCfg, cap_slots: i64) -> i64 {
    let latest = cfg.stations.iter().map(|s| s.online_at_us).max().unwrap_or(0);
    latest + t_conv_us(cfg).min(cap_slots * cfg.slot_us())
}

fn ring_case(t: &mut Tape, obs: &mut Obs, cap_slots: i64) -> CaseResult {
    let cfg = gen_ring_cfg(t, &GenOpts { min_n: 2, max_n: 5, max_hsa_extra: 40, late_joiners: true });
    let mut sim = Sim::new(cfg.clone(), 1);
    let apps = attach_apps(&mut sim, t);
    let passive = crate::apps::add_passive_peers(&mut sim, t);
    if passive.iter().any(|a| *a < cfg.hsa) {
        obs.label("passive-stations-inside-gap");
    }
    let mut end = horizon_us(&cfg, cap_slots);
    // a station may leave the bus while it is idle and join again later (joining an active bus)
    let mut online: Vec<Vec<i64>> = cfg.stations.iter().map(|s| vec![s.online_at_us * 1000]).collect();
    let slot = cfg.slot_us();
    let mut leave: Option<(usize, i64, i64)> = None; // station, earliest leave time, absence
    if cfg.stations.len() >= 2 && t.chance(1, 3) {
        let k = t.below(cfg.stations.len() as u64) as usize;
        let latest = cfg.stations.iter().map(|s| s.online_at_us).max().unwrap_or(0);
        let at = latest + slot * (200 + t.below(2000) as i64);
        let absence = match t.below(3) {
            0 => slot * (1 + t.below(10) as i64),
            1 => slot * (6 + 2 * i64::from(cfg.stations[k].addr)) + slot * t.below(40) as i64,
            _ => slot * (300 + t.below(3000) as i64),
        };
        leave = Some((k, at, absence));
        end = end.max(at + absence + t_conv_us(&cfg).min(cap_slots * slot));
        obs.label("station-leaves-and-rejoins");
    }
    let mut rejoin_at: Option<(usize, i64)> = None;
    while let Some(tn) = sim.next_time() {
        if tn > end {
            break;
        }
        if let Some((k, at)) = rejoin_at {
            if tn >= at {
                sim.restart_station(k, at);
                online[k].push(at * 1000);
                rejoin_at = None;
                continue;
            }
        }
        sim.step();
        if let Some((k, at, absence)) = leave {
            if sim.now >= at && !sim.nodes[k].stopped {
                // leave only while idle: not holding the token, nothing of its own on the wire
                let dbg = format!("{:?}", sim.nodes[k].fdl);
                let idle = dbg.contains(", state: ActiveIdle") || dbg.contains(", state: ListenToken");
                let quiet = sim.bus.0.borrow().trace.last().map(|r| r.sender != k || r.end_ns <= sim.now * 1000).unwrap_or(true);
                if idle && quiet && !dbg.contains("status_request: Some") {
                    sim.stop_station(k);
                    rejoin_at = Some((k, sim.now + absence));
                    leave = None;
                }
            }
        }
    }
    let addrs: Vec<u8> = cfg.stations.iter().map(|s| s.addr).collect();
    let b = sim.bus.0.borrow();
    let stats = c01_trace_oracle_ev(&cfg, &b.trace, cfg.stations.len(), &|i| addrs.get(i).copied(), &online)?;
    // labels
    let sorted = cfg.sorted_addrs();
    if sorted.contains(&(cfg.hsa - 1)) {
        obs.label("station-at-hsa-1");
    }
    if sorted.contains(&0) {
        obs.label("address-0");
    }
    if sorted.windows(2).any(|w| w[1] == w[0] + 1) || (sorted[0] == 0 && *sorted.last().unwrap() == cfg.hsa - 1) {
        obs.label("adjacent-pair");
    }
    if cfg.stations.iter().any(|s| s.online_at_us > cfg.slot_us()) {
        obs.label("late-joiner");
    }
    obs.label(&format!("schedule-{:?}", cfg.schedule));
    obs.label(&format!("n={}", cfg.stations.len()));
    if apps.iter().any(|a| *a != "none") {
        obs.label("with-applications");
    }
    obs.count("tokens", stats.tokens);
    obs.count("requests", stats.requests);
    obs.count("replies", stats.replies);
    obs.count("claims", stats.claims);
    // non-trivial: a ring of >= 2 stations formed (tokens between different stations) and a joiner answered a GAP poll
    let ring_formed = b.trace.iter().filter(|r| r.bytes.len() == 3 && r.bytes[0] == 0xDC && r.bytes[1] != r.bytes[2]).count() >= 4;
    if ring_formed && stats.replies >= 1 {
        obs.nontrivial(fingerprint(&(format!("{:?}", cfg.baud), &sorted, cfg.hsa, cfg.gap, cfg.slot_bits, format!("{:?}", cfg.schedule))));
    }
    obs.sample(|| json!({"config": cfg.describe(), "passive_stations": passive, "applications": apps, "transmissions": b.trace.len(), "tokens": stats.tokens, "gap_replies": stats.replies}));
    Ok(())
}

pub fn property() -> Property {
    Property {
        id: "C01",
        rule: "cases: fault-free rings of 2..5 real FdlActiveStations on the SimBus (all 11 baud rates, Tslot from the builder minimum, HSA/gap factor/TTR/max_retry generated, addresses biased to HSA-1 / 0 / adjacent pairs), cold start together or late joiners, poll schedules jitter/fixed/lock-step/aligned-to-telegram-ends with periods up to min(Tslot/4, (Tslot-50bit)/3), with and without applications (live list, DP scanner, a monitor that sends FDL status requests to the broadcast address, other masters and unused addresses, a publisher of unacknowledged broadcasts); the byte-accurate bus trace is judged: no overlap, >= 33 bit (initiated) / >= 11 bit (reply) idle time up to 1 us, and the right to transmit (token owner, retry of own pass, answer to a request addressed to it, claim after own silence time-out). Non-trivial = a ring of >= 2 stations formed and at least one GAP poll was answered by another station; distinct by (baud, addresses, HSA, G, Tslot, schedule class).",
        assumptions: vec![
            "SimBus timing model (harness/src/simbus.rs): byte i of a transmission occupies [start+11i bit, start+11(i+1) bit), receivers see a byte when its last bit has passed",
            "poll periods are capped at min(Tslot/4, (Tslot-50 bit)/3): a poll-driven station needs 3 polls + 44 bit to take over the token (DESIGN 5.3); the un-synchronised cold-start claim race and stale receive buffers at set_online() are excluded as the property says",
        ],
        subchecks: vec![
            SubCheck::tape("rings", "random ring configurations, horizon = T_conv capped at 8000 Tslot", |t, obs| ring_case(t, obs, 8000)),
            SubCheck::tape("rings_long", "as rings with a horizon of up to 100000 Tslot", |t, obs| ring_case(t, obs, 100_000)),
        ],
        plan: |tier| match tier {
            Tier::Quick => vec![Step::Pbt { kind: "rings", cases: 640, max_len: 64 }],
            Tier::Thorough => vec![
                Step::Pbt { kind: "rings", cases: 6000, max_len: 64 },
                Step::Pbt { kind: "rings_long", cases: 300, max_len: 64 },
            ],
        },
        hang_is_violation: false,
        hang_limit_s: 900,
        probes: vec![],
    }
}
