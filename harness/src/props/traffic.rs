//! C13 (token hold time, bounded rotation) and C15 (application callbacks) over rings with
//! instrumented traffic applications and scripted peers.
use crate::apps::*;
use crate::engine::*;
use crate::refcodec::{self as rc, RefFrame};
use crate::ringsim::*;
use crate::{ensure, fail};
use serde_json::json;
use std::cell::RefCell;
use std::collections::BTreeMap;
use std::rc::Rc;

#[derive(Clone, Copy, PartialEq, Eq)]
pub enum Mode {
    C13,
    C15,
}

pub struct TrafficRun {
    pub cfg: RingCfg,
    pub sim: Sim,
    pub log: Log,
    pub specs: Vec<Vec<AppSpec>>,
    pub peers: BTreeMap<u8, (PeerKind, u64)>,
    pub converged_at: Option<i64>,
    pub end: i64,
}

pub fn setup(t: &mut Tape, mode: Mode) -> TrafficRun {
    setup_opts(t, mode, false)
}

/// `loaded`: small target rotation time and one application per station that never declines, so
/// that token visits end because the hold time is over.
pub fn setup_opts(t: &mut Tape, mode: Mode, loaded: bool) -> TrafficRun {
    let max_n = if mode == Mode::C13 { 4 } else { 3 };
    let mut cfg = gen_ring_cfg(t, &GenOpts { min_n: 1, max_n, max_hsa_extra: 10, late_joiners: false });
    if loaded {
        cfg.ttr_bits = 256 + t.below(3000) as u32;
    }
    // peers: 2..4 addresses that are not masters
    let masters = cfg.sorted_addrs();
    let mut peers: BTreeMap<u8, (PeerKind, u64)> = BTreeMap::new();
    let npeers = 2 + t.below(3) as usize;
    let max_delay = u64::from(cfg.slot_bits) - 15;
    let mut a = 30 + t.below(60) as u8;
    while peers.len() < npeers {
        a = (a + 1 + t.below(5) as u8) % 126;
        if masters.contains(&a) || peers.contains_key(&a) {
            continue;
        }
        let kind = match mode {
            Mode::C13 => *t.pick(&[PeerKind::Answer, PeerKind::Answer, PeerKind::Silent, PeerKind::Late]),
            Mode::C15 => *t.pick(&[PeerKind::Answer, PeerKind::Answer, PeerKind::Silent, PeerKind::Late, PeerKind::ForeignSource, PeerKind::ForeignDest, PeerKind::RequestInstead, PeerKind::TokenReply]),
        };
        // under load only conforming peers: a late reply makes the requester back off and lose the
        // token, which is not the stable ring the GAP clause is about
        let kind = if loaded && kind == PeerKind::Late { PeerKind::Answer } else { kind };
        let delay = match kind {
            PeerKind::Late => u64::from(cfg.slot_bits) + 20 + t.below(3 * u64::from(cfg.slot_bits)),
            _ => 11 + t.below(max_delay - 10),
        };
        peers.insert(a, (kind, delay));
    }
    // address 126 (the factory-default address of a new DP device) is a legal destination: in the C15
    // runs a conforming peer whose address is 1 mod 4 answers under 126 instead
    if mode == Mode::C15 {
        if let Some(a) = peers.iter().find(|(a, (k, _))| **a % 4 == 1 && *k == PeerKind::Answer).map(|(a, _)| *a) {
            let v = peers.remove(&a).unwrap();
            peers.insert(126, v);
        }
    }
    let targets: Vec<u8> = peers.keys().copied().collect();
    // a few passive stations inside the masters' GAPs as well (they answer the FDL's GAP polls)
    for _ in 0..t.below(4) {
        let a = t.below(u64::from(cfg.hsa)) as u8;
        if !masters.contains(&a) && !peers.contains_key(&a) {
            peers.insert(a, (PeerKind::StatusOnly, 11 + t.below(max_delay - 10)));
        }
    }
    let mut sim = Sim::new(cfg.clone(), 1);
    sim.record_polls = true;
    let log: Log = Rc::new(RefCell::new(vec![]));
    let mut specs = vec![];
    for (si, node) in sim.nodes.iter_mut().enumerate() {
        let napps = match mode {
            Mode::C13 => 1 + t.below(3) as usize,
            Mode::C15 => t.below(4) as usize,
        };
        let mut sp = vec![];
        for j in 0..napps {
            let mut s = gen_app_spec(t, &targets, true);
            if loaded && j == 0 {
                s.burst = u32::MAX;
            }
            node.apps.push(Box::new(TrafficApp::new(si, j, node.addr, s.clone(), log.clone())));
            sp.push(s);
        }
        specs.push(sp);
    }
    let bit_ns = cfg.bits_ns(1).max(1);
    sim.virtuals.push(Box::new(Peers { peers: peers.clone(), shared: None, bit_ns: cfg.bits_ns(1000).max(1) / 1000, answered: 0 }));
    let _ = bit_ns;
    TrafficRun { cfg, sim, log, specs, peers, converged_at: None, end: 0 }
}

/// Run: converge (agreement among the masters), then `window_rot` further rotations.
pub fn run(r: &mut TrafficRun, window_slots: i64) {
    let expect = r.cfg.sorted_addrs();
    let slot = r.cfg.slot_us();
    let deadline = t_conv_us(&r.cfg).min(30_000 * slot);
    let mut last_check = -(1i64 << 60);
    let mut stop_at = deadline + window_slots * slot;
    while let Some(tn) = r.sim.next_time() {
        if tn > stop_at {
            break;
        }
        r.sim.step();
        if r.converged_at.is_none() && r.sim.now - last_check > slot {
            last_check = r.sim.now;
            if agreement(&r.sim, &expect).is_ok() {
                r.converged_at = Some(r.sim.now);
                stop_at = r.sim.now + window_slots * slot;
            }
        }
    }
    r.end = r.sim.now;
}

/// Token receipt times per station (us): first poll at or after the arrival of a token frame
/// addressed to it; for tokens to itself the instant of transmission.
pub fn receipts(r: &TrafficRun) -> Vec<Vec<i64>> {
    let n = r.sim.nodes.len();
    let mut out = vec![vec![]; n];
    let b = r.sim.bus.0.borrow();
    for rec in b.trace.iter() {
        // phantom tokens (see `possession`): an additional receipt only splits a visit, which weakens
        // every clause built on the receipts
        if rec.bytes.first() != Some(&rc::SD4) {
            for (k, nd) in r.sim.nodes.iter().enumerate() {
                if rec.sender != k && phantom_token_for(&rec.bytes, nd.addr) {
                    let arr = (rec.end_ns + 999) / 1000;
                    let pl = &nd.poll_log;
                    if let Some(p) = pl.get(pl.partition_point(|p| *p < arr)) {
                        out[k].push(*p);
                    }
                }
            }
        }
        if let Some(RefFrame::Token { da, sa }) = rc::decode_one(&rec.bytes) {
            if let Some(k) = r.sim.nodes.iter().position(|nd| nd.addr == da) {
                if da == sa && rec.sender == k {
                    out[k].push(rec.start_ns / 1000);
                } else if rec.wire == rec.bytes && !rec.overlapped {
                    let arr = (rec.end_ns + 999) / 1000;
                    let pl = &r.sim.nodes[k].poll_log;
                    let i = pl.partition_point(|p| *p < arr);
                    if let Some(p) = pl.get(i) {
                        out[k].push(*p);
                    }
                }
            }
        }
    }
    out
}

/// '... or the hold time is over' (C15): within a token visit every message cycle after the first
/// starts before the hold time is over.  Visits are delimited by what certainly ends or may begin one:
/// the station's own token telegrams and every token telegram addressed to it (scripted peers may send
/// such telegrams too - an extra boundary only splits a visit, which makes the demand weaker).  The
/// instant the station stamped on a token is not observable; the first application callback of the
/// visit comes at most a synchronisation pause and a poll later, so `first callback of the previous
/// visit + TTR` is never earlier than the real end of the hold time.
fn hold_time_clause(r: &TrafficRun) -> CaseResult {
    let log = r.log.borrow();
    let ttr_us = r.cfg.baud.bits_to_time(r.cfg.ttr_bits).total_micros() as i64 + 1;
    for x in 0..r.sim.nodes.len() {
        let addr = r.sim.nodes[x].addr;
        let bounds: Vec<i64> = possession(r, x, addr).iter().map(|(t, _)| (*t + 999) / 1000).collect();
        let calls: Vec<(i64, bool)> = log.iter().filter_map(|c| match c { Cb::Tx { t, station, sent, .. } if *station == x => Some((*t, sent.is_some())), _ => None }).collect();
        let mut prev_tok: Option<i64> = None;
        let mut ci = 0usize;
        for w in 0..bounds.len() {
            let (from, to) = (bounds[w], bounds.get(w + 1).copied().unwrap_or(i64::MAX));
            // callbacks in (from, to]
            while ci < calls.len() && calls[ci].0 < from {
                ci += 1;
            }
            let mut k = ci;
            let mut first: Option<i64> = None;
            let mut cycles = 0usize;
            while k < calls.len() && calls[k].0 <= to {
                let (t, sent) = calls[k];
                if t >= from {
                    if first.is_none() {
                        first = Some(t);
                    }
                    if sent {
                        cycles += 1;
                        if let Some(pt) = prev_tok {
                            let deadline = pt + ttr_us;
                            if cycles >= 2 && t >= deadline {
                                fail!("hold-time", "station #{addr}: message cycle #{} of a token visit started at {} us, but the hold time (token of the previous visit taken at {} us at the latest, + TTR {} us) was over at {} us", cycles, t, pt, ttr_us, deadline);
                            }
                        }
                    }
                }
                k += 1;
            }
            if let Some(f) = first {
                prev_tok = Some(f);
            }
        }
    }
    Ok(())
}

fn c13_oracle(r: &TrafficRun, obs: &mut Obs) -> CaseResult {
    let rec = receipts(r);
    let log = r.log.borrow();
    let ttr_us = r.cfg.baud.bits_to_time(r.cfg.ttr_bits).total_micros() as i64 + 1;
    let n = r.sim.nodes.len();
    let has_late = r.peers.values().any(|(k, _)| *k == PeerKind::Late);
    let (mut late_visits, mut cut_visits, mut visits_total) = (0u64, 0u64, 0u64);
    for x in 0..n {
        let addr = r.sim.nodes[x].addr;
        let sends: Vec<i64> = log.iter().filter_map(|c| match c { Cb::Tx { t, station, sent: Some(_), .. } if *station == x => Some(*t), _ => None }).collect();
        let calls: Vec<(i64, bool)> = log.iter().filter_map(|c| match c { Cb::Tx { t, station, sent, .. } if *station == x => Some((*t, sent.is_some())), _ => None }).collect();
        for k in 1..rec[x].len() {
            let (start, end) = (rec[x][k], rec[x].get(k + 1).copied().unwrap_or(i64::MAX));
            if start == rec[x][k - 1] {
                continue;
            }
            visits_total += 1;
            let deadline = rec[x][k - 1] + ttr_us;
            let in_visit: Vec<i64> = sends.iter().copied().filter(|t| *t >= start && *t < end).collect();
            for (j, t) in in_visit.iter().enumerate() {
                if j >= 1 && *t >= deadline {
                    fail!("hold-time", "station #{addr}: message cycle #{} of a token visit started at {} us, but the target rotation time since the previous token receipt ({} us + TTR {} us) had elapsed at {} us", j + 1, t, rec[x][k - 1], ttr_us, deadline);
                }
            }
            if let Some(first) = in_visit.first() {
                if *first >= deadline {
                    late_visits += 1;
                    ensure!(in_visit.len() == 1, "hold-time", "station #{addr}: late token visit (first request at {} us >= deadline {} us) with {} message cycles", first, deadline, in_visit.len());
                } else if calls.iter().any(|(t, s)| *t >= start && *t < end && *s) && in_visit.last().map(|t| *t < deadline).unwrap_or(false) {
                    // was the visit cut short by the hold time? (an app was still hungry)
                    let hungry = r.specs[x].iter().any(|s| s.burst == u32::MAX);
                    if hungry {
                        cut_visits += 1;
                    }
                }
            }
        }
    }
    obs.count("token_visits", visits_total);
    obs.count("late_visits_with_one_cycle", late_visits);
    obs.count("visits_cut_by_hold_time", cut_visits);
    // rotation bound and starvation: stable ring, conforming peers only
    if let Some(c) = r.converged_at {
        if !has_late {
            let pmax = r.cfg.stations.iter().map(|s| s.period_us).max().unwrap_or(1);
            let per_station = 2 * r.cfg.bits_us(255 * 11) + 3 * r.cfg.slot_us() + r.cfg.bits_us(200) + 10 * pmax;
            let bound = ttr_us + (n as i64) * per_station;
            let rot = rotation_bound_us(&r.cfg, n);
            for x in 0..n {
                let rs: Vec<i64> = rec[x].iter().copied().filter(|t| *t > c + 2 * rot + ttr_us).collect();
                for w in rs.windows(2) {
                    ensure!(w[1] - w[0] <= bound, "rotation-bound", "station #{} received the token at {} us and again only at {} us: {} us apart, bound TTR + N x (message cycle + GAP poll) = {} us", r.sim.nodes[x].addr, w[0], w[1], w[1] - w[0], bound);
                }
                // every application with finite appetite gets its turn
                let finite = r.specs[x].iter().all(|s| s.burst != u32::MAX);
                let need: i64 = r.specs[x].iter().map(|s| i64::from(s.burst.min(1000)) + 2).sum::<i64>() + 2;
                if finite && !r.specs[x].is_empty() && rs.len() as i64 >= 3 * need {
                    for j in 0..r.specs[x].len() {
                        let called = log.iter().any(|cb| matches!(cb, Cb::Tx { t, station, app, .. } if *station == x && *app == j && *t > rs[0]));
                        ensure!(called, "app-starved", "application {} of station #{} was never asked for a telegram during {} token visits", j, r.sim.nodes[x].addr, rs.len());
                    }
                }
            }
            // 'one bounded message cycle and GAP poll per station': in the stable ring a station sends
            // at most one FDL status request of its own (no live list runs here) per token visit.
            // Exempt: the scan of the whole GAP right after claiming a token (C12) - a claim is a
            // token to itself after at least five slot times of silence, repeated once.
            {
                let b = r.sim.bus.0.borrow();
                let from_ns = (c + 2 * rot + ttr_us) * 1000;
                let quiet_ns = 5 * r.cfg.bits_ns(u64::from(r.cfg.slot_bits));
                let mut polls_in_visit = vec![0u32; n];
                let mut claim_tokens = vec![0u32; n]; // > 0: in the claim / post-claim scan
                let mut prev_end = i64::MIN / 2;
                for (ri, rec) in b.trace.iter().enumerate() {
                    let silence = rec.start_ns - prev_end;
                    prev_end = prev_end.max(rec.end_ns);
                    let x = rec.sender;
                    if x >= n {
                        continue;
                    }
                    match rc::decode_one(&rec.bytes) {
                        Some(RefFrame::Token { da, sa }) => {
                            polls_in_visit[x] = 0;
                            if da == sa && (silence >= quiet_ns || ri == 0) {
                                claim_tokens[x] = 1;
                            } else if da == sa && claim_tokens[x] == 1 {
                                claim_tokens[x] = 2;
                            } else {
                                claim_tokens[x] = 0;
                            }
                        }
                        Some(RefFrame::Data { fc: 0x49, dsap: None, ssap: None, da, .. }) if rec.start_ns > from_ns && claim_tokens[x] == 0 => {
                            polls_in_visit[x] += 1;
                            if polls_in_visit[x] > 1 {
                                let tail: String = b.trace.iter().filter(|q| q.start_ns <= rec.start_ns).rev().take(14).collect::<Vec<_>>().into_iter().rev().map(|q| format!("\n  {} ns node{} {}", q.start_ns, q.sender, crate::props::c09::hex(&q.bytes))).collect();
                                fail!("gap-polls-per-visit", "station #{} sent {} GAP polls (the last to #{da}) during one token visit in the stable ring at {} ns{}", r.sim.nodes[x].addr, polls_in_visit[x], rec.start_ns, tail);
                            }
                        }
                        _ => {}
                    }
                }
            }
            // 'it may always perform one message cycle per token visit': a station with an application
            // that never declines sends at least one request between two of its token passes
            {
                let b = r.sim.bus.0.borrow();
                let from_ns = (c + 2 * rot + ttr_us) * 1000;
                // a repeated pass (ring of several stations) means the ring was not stable: nothing judged
                let mut retried = false;
                let mut passes: Vec<Vec<i64>> = vec![vec![]; n];
                let mut last_own: Vec<Option<Vec<u8>>> = vec![None; n];
                for q in b.trace.iter() {
                    let x = q.sender;
                    if x >= n {
                        continue;
                    }
                    if q.bytes.first() == Some(&rc::SD4) && q.start_ns > from_ns {
                        if n > 1 && last_own[x].as_deref() == Some(&q.bytes[..]) {
                            retried = true;
                        }
                        passes[x].push(q.start_ns / 1000);
                    }
                    last_own[x] = Some(q.bytes.clone());
                }
                if !retried {
                    for x in 0..n {
                        let hungry = r.specs[x].iter().any(|s| s.burst == u32::MAX && !s.targets.is_empty());
                        if !hungry {
                            continue;
                        }
                        let sends: Vec<i64> = log.iter().filter_map(|cb| match cb { Cb::Tx { t, station, sent: Some(_), .. } if *station == x => Some(*t), _ => None }).collect();
                        for w in passes[x].windows(2) {
                            let any = sends.iter().any(|t| *t > w[0] && *t <= w[1]);
                            ensure!(any, "no-cycle-in-visit", "station #{} has an application that never declines but performed no message cycle during the token visit between its passes at {} us and {} us (TTR {} bit)", r.sim.nodes[x].addr, w[0], w[1], r.cfg.ttr_bits);
                        }
                    }
                }
            }
            obs.label("rotation-bound-judged");
        } else {
            obs.label("late-peer-deadline-rule-only");
        }
    } else {
        obs.label("not-converged-within-horizon");
    }
    if late_visits > 0 && cut_visits > 0 {
        obs.label("has-late-and-cut-visits");
    }
    if late_visits > 0 || cut_visits > 0 {
        obs.nontrivial(fingerprint(&(format!("{:?}", r.cfg.baud), r.cfg.sorted_addrs(), r.cfg.ttr_bits, r.cfg.slot_bits, late_visits.min(3), cut_visits.min(3), format!("{:?}", r.specs))));
    }
    Ok(())
}

/// Token possession of station `x` (address `addr`) according to the trace: (time, has token).
/// Judged per station, because scripted peers may put token telegrams of their own on the bus
/// (`TokenReply`): a token telegram addressed to the station - from anybody - may give it the
/// token (an over-approximation: a first offer by a stranger is not accepted), its own pass takes
/// it away.
fn possession(r: &TrafficRun, x: usize, addr: u8) -> Vec<(i64, bool)> {
    let b = r.sim.bus.0.borrow();
    let mut v = vec![];
    for rec in b.trace.iter() {
        if let Some(RefFrame::Token { da, sa: _ }) = rc::decode_one(&rec.bytes) {
            if rec.sender == x {
                // a token to itself makes the sender owner from the start of the transmission
                v.push((rec.start_ns, da == addr));
            } else if da == addr {
                v.push((rec.end_ns, true));
            }
        } else if rec.sender != x && phantom_token_for(&rec.bytes, addr) {
            // a token telegram can also materialise from the inside of another telegram: after a
            // collision (late peers) the listeners discard the garbled head of a transmission and decode
            // what follows - `DC <addr> xx` there is a token for this station (no checksum).  Happens with
            // a peer at address 92 (0x5C | 0x80 = 0xDC) answering with SAPs.
            v.push((rec.end_ns, true));
        }
    }
    v
}

/// Do the bytes of a transmission contain, behind its first byte, something that reads as a token
/// telegram addressed to `addr`?
fn phantom_token_for(bytes: &[u8], addr: u8) -> bool {
    bytes.windows(3).skip(1).any(|w| w[0] == rc::SD4 && w[1] == addr)
}

/// 'The token is passed once every application has declined once or the hold time is over' read
/// the other way round: a token pass that happens clearly before the hold time is over (the GAP
/// reserve of Tslot + 100 bit deducted) comes after every application has been asked and has
/// declined in that visit.  Judged for stations with several applications in runs whose peers all
/// conform (no late replies, no token telegrams from peers) and in which no pass had to be repeated.
fn early_pass_clause(r: &TrafficRun, obs: &mut Obs) -> CaseResult {
    if r.peers.values().any(|(k, _)| matches!(k, PeerKind::Late | PeerKind::TokenReply | PeerKind::RequestInstead | PeerKind::ForeignSource | PeerKind::ForeignDest)) {
        return Ok(());
    }
    let Some(c) = r.converged_at else { return Ok(()) };
    let n = r.sim.nodes.len();
    let log = r.log.borrow();
    let b = r.sim.bus.0.borrow();
    let ttr_us = r.cfg.baud.bits_to_time(r.cfg.ttr_bits).total_micros() as i64;
    let reserve = r.cfg.bits_us(u64::from(r.cfg.slot_bits) + 100 + 33);
    let pmax = r.cfg.stations.iter().map(|s| s.period_us).max().unwrap_or(1);
    let rec = receipts(r);
    let mut judged = 0u64;
    for x in 0..n {
        let napps = r.specs[x].len();
        if napps < 2 {
            continue;
        }
        // own passes; a repeated pass means the ring was not stable
        let mut passes: Vec<i64> = vec![];
        let mut last_own: Option<&[u8]> = None;
        let mut retried = false;
        for q in b.trace.iter().filter(|q| q.sender == x) {
            if q.bytes.first() == Some(&rc::SD4) {
                if n > 1 && last_own == Some(&q.bytes[..]) {
                    retried = true;
                }
                passes.push(q.start_ns / 1000);
            }
            last_own = Some(&q.bytes[..]);
        }
        // a token claimed anew in a ring of several (token to itself after the ring has formed): not stable
        let addr = r.sim.nodes[x].addr;
        let reclaimed = n > 1 && b.trace.iter().any(|q| q.sender == x && q.start_ns / 1000 > c && q.bytes == [rc::SD4, addr, addr]);
        if retried || reclaimed {
            continue;
        }
        // visit i: first receipt after pass i-1 .. pass i; its deadline counts from the receipt of visit i-1.
        // The first passes are the claim (two tokens to itself, the scan, the first visit whose hold time
        // counts from nothing) and are not judged.
        let first_receipt_after = |t: i64| rec[x].iter().copied().find(|r| *r >= t);
        for i in 6..passes.len() {
            let (Some(r_prev), Some(r_cur)) = (first_receipt_after(passes[i - 2]), first_receipt_after(passes[i - 1])) else { continue };
            if r_prev >= passes[i - 1] || r_cur >= passes[i] || r_prev < c {
                continue;
            }
            let deadline = r_prev + ttr_us;
            if passes[i] + reserve + 3 * pmax >= deadline {
                continue; // the hold time was (nearly) over
            }
            judged += 1;
            for app in 0..napps {
                let declined = log.iter().any(|cb| matches!(cb, Cb::Tx { t, station, app: a, sent: None, .. } if *station == x && *a == app && *t >= r_cur && *t <= passes[i]));
                if !declined && std::env::var("PBVERIF_DUMP").is_ok() {
                    for cb in log.iter().filter(|cb| cb.station() == x && cb.t() >= r_prev - 90000 && cb.t() <= passes[i] + 100) {
                        eprintln!("  {:?}", cb);
                    }
                    for q in b.trace.iter().filter(|q| q.start_ns / 1000 >= r_prev - 90000 && q.start_ns / 1000 <= passes[i] + 100) {
                        eprintln!("  {} us node{} {}", q.start_ns / 1000, q.sender, crate::props::c09::hex(&q.bytes));
                    }
                    eprintln!("  specs {:?}", r.specs[x]);
                }
                ensure!(declined, "pass-before-everybody-declined", "station #{} passed the token at {} us, {} us before its hold time was over (previous receipt {} us + TTR {} us), although application {} of {} had not declined in this visit (token received at {} us)", r.sim.nodes[x].addr, passes[i], deadline - passes[i], r_prev, ttr_us, app, napps, r_cur);
            }
        }
    }
    obs.count("early_passes_judged", judged);
    Ok(())
}

fn c15_oracle(r: &TrafficRun, obs: &mut Obs) -> CaseResult {
    let log = r.log.borrow();
    let n = r.sim.nodes.len();
    let b = r.sim.bus.0.borrow();
    let (mut replies, mut timeouts, mut unanswered_silently, mut declines) = (0u64, 0u64, 0u64, 0u64);
    for x in 0..n {
        let addr = r.sim.nodes[x].addr;
        let napps = r.specs[x].len();
        let own = possession(r, x, addr);
        let evs: Vec<&Cb> = log.iter().filter(|c| c.station() == x).collect();
        // own transmissions on the trace
        let tx_x: Vec<&crate::simbus::TxRecord> = b.trace.iter().filter(|t| t.sender == x).collect();
        let mut outstanding: Option<(usize, u8, i64)> = None; // app, da, time of the Tx callback
        let mut resolved = 0u32; // callbacks delivered for the outstanding request
        let mut last_app: Option<usize> = None;
        let mut last_declined = true;
        let mut declined_in_visit = vec![false; napps];
        let mut last_decline_t = 0i64;
        let mut last_cb_t = 0i64;
        let mut last_resolution_t = 0i64;
        for c in evs {
            match c {
                Cb::Tx { t, app, sent, .. } => {
                    // (a) token owner
                    let i = own.partition_point(|(at, _)| *at <= *t * 1000);
                    let has = i > 0 && own[i - 1].1;
                    if !has && std::env::var("PBVERIF_DUMP").is_ok() {
                        eprintln!("possession of node {x} (#{addr}): {:?}", own.iter().filter(|(at, _)| *at > (*t - 60000) * 1000 && *at < (*t + 1000) * 1000).collect::<Vec<_>>());
                        for q in b.trace.iter().filter(|q| q.start_ns > (*t - 60000) * 1000 && q.start_ns < (*t + 1000) * 1000) {
                            eprintln!("  {} ns node{} {} {}", q.start_ns, q.sender, crate::props::c09::hex(&q.bytes), if q.overlapped { "OVERLAP" } else { "" });
                        }
                    }
                    ensure!(has, "tx-without-token", "application {} of station #{addr} was asked for a telegram at {} us, after it had passed the token on and before any token telegram addressed to it", app, t);
                    // (a) no reply outstanding
                    if let Some((oa, oda, ot)) = outstanding {
                        if resolved == 0 {
                            // allowed only if the FDL gave up on it because some other telegram arrived
                            // ... after the request, or lingering in the receive buffer since the station
                            // last looked at it (a late reply to the previous request, N9)
                            let heard = b.trace.iter().any(|rec| rec.sender != x && rec.end_ns > last_resolution_t * 1000 && rec.end_ns <= *t * 1000);
                            let _ = ot;
                            if !heard && std::env::var("PBVERIF_DUMP").is_ok() {
                                for rec in b.trace.iter().filter(|rec| rec.start_ns >= (ot - 3000) * 1000 && rec.start_ns <= (*t + 1000) * 1000) {
                                    eprintln!("  {} ns .. {} ns node{} {} {}{}", rec.start_ns, rec.end_ns, rec.sender, crate::props::c09::hex(&rec.bytes), if rec.overlapped { "OVERLAP " } else { "" }, if rec.faulted { "FAULT" } else { "" });
                                }
                                for c in log.iter().filter(|c| c.station() == x && c.t() >= ot - 3000 && c.t() <= *t + 100) {
                                    eprintln!("  {:?}", c);
                                }
                                eprintln!("  {}", r.cfg.describe());
                            }
                            ensure!(heard, "tx-while-outstanding", "application {} of station #{addr} was asked for a telegram at {} us while the reply to the request of application {} to #{} (sent at {} us) was still outstanding: no reply, no time-out, nothing heard", app, t, oa, oda, ot);
                            unanswered_silently += 1;
                        }
                    }
                    outstanding = None;
                    resolved = 0;
                    // (e) once every application has declined once in this token visit the token must be
                    // passed on before anybody is asked again
                    let passed_since = tx_x.iter().any(|rec| rec.start_ns > last_cb_t * 1000 && rec.start_ns <= *t * 1000 && rec.bytes.first() == Some(&rc::SD4));
                    let received_since = own.iter().any(|(at, has)| *has && *at > last_cb_t * 1000 && *at <= *t * 1000);
                    if passed_since || received_since {
                        declined_in_visit.iter_mut().for_each(|d| *d = false);
                    }
                    if napps > 0 && declined_in_visit.iter().all(|d| *d) {
                        fail!("no-pass-after-declines", "station #{addr}: every one of the {} applications has declined in this token visit (last at {} us) but application {} was asked again at {} us without the token having been passed on", napps, last_decline_t, app, t);
                    }
                    // (d) round robin
                    if let Some(la) = last_app {
                        if *app != la {
                            ensure!(last_declined, "switch-without-decline", "station #{addr}: application {} is asked although application {} did not decline", app, la);
                            ensure!(*app == (la + 1) % napps, "round-robin", "station #{addr}: after application {} declined, application {} was asked (expected {})", la, app, (la + 1) % napps);
                        }
                    }
                    last_app = Some(*app);
                    last_cb_t = *t;
                    last_declined = sent.is_none();
                    match sent {
                        None => {
                            declines += 1;
                            declined_in_visit[*app] = true;
                            last_decline_t = *t;
                        }
                        Some((da, expects)) => {
                            if *expects {
                                outstanding = Some((*app, *da, *t));
                            }
                        }
                    }
                }
                Cb::Reply { t, app, addr: ra, frame, .. } => {
                    replies += 1;
                    let Some((oa, oda, _)) = outstanding else { fail!("unmatched-reply", "station #{addr}: reply {:?} delivered at {} us to application {} without an outstanding request", frame, t, app) };
                    ensure!(resolved == 0, "double-resolution", "station #{addr}: second callback (reply at {} us) for one request", t);
                    last_resolution_t = *t;
                    ensure!(*app == oa && *ra == oda, "misrouted-reply", "station #{addr}: reply delivered to application {} with addr {} but the request was sent by application {} to #{}", app, ra, oa, oda);
                    match frame {
                        RefFrame::Sc => {}
                        RefFrame::Data { da, sa, fc, .. } => {
                            ensure!(!rc::fc_is_request(*fc) && *sa == oda && *da == addr, "inadmissible-reply", "station #{addr}: telegram {:?} was delivered as the reply to a request to #{}", frame, oda);
                        }
                        other => fail!("inadmissible-reply", "station #{addr}: {:?} delivered as a reply", other),
                    }
                    resolved += 1;
                }
                Cb::Timeout { t, app, addr: ra, .. } => {
                    timeouts += 1;
                    let Some((oa, oda, _)) = outstanding else { fail!("unmatched-timeout", "station #{addr}: time-out delivered at {} us to application {} without an outstanding request", t, app) };
                    ensure!(resolved == 0, "double-resolution", "station #{addr}: second callback (time-out at {} us) for one request", t);
                    last_resolution_t = *t;
                    ensure!(*app == oa && *ra == oda, "misrouted-timeout", "station #{addr}: time-out delivered to application {} with addr {} but the request was sent by application {} to #{}", app, ra, oa, oda);
                    resolved += 1;
                }
            }
        }
    }
    drop(b);
    drop(log);
    early_pass_clause(r, obs)?;
    obs.count("replies", replies);
    obs.count("timeouts", timeouts);
    obs.count("declines", declines);
    obs.count("requests_given_up_silently_after_inadmissible_telegram", unanswered_silently);
    if replies > 0 && timeouts > 0 {
        obs.label("replies-and-timeouts");
    }
    if unanswered_silently > 0 {
        obs.label("inadmissible-reply-seen");
    }
    if replies + timeouts > 0 {
        obs.nontrivial(fingerprint(&(format!("{:?}", r.cfg.baud), r.cfg.sorted_addrs(), r.cfg.slot_bits, format!("{:?}", r.specs), format!("{:?}", r.peers))));
    }
    Ok(())
}

/// C12 under load: the GAP keeps being swept - one poll per token visit, pauses of G..G+2 visits
/// between sweeps - also when the token visits are cut short by the hold time.
pub fn gap_under_load_case(t: &mut Tape, obs: &mut Obs) -> CaseResult {
    let mut r = setup_opts(t, Mode::C13, true);
    run(&mut r, 6000);
    let Some(c) = r.converged_at else {
        obs.label("not-converged-within-horizon");
        return Ok(());
    };
    let n = r.sim.nodes.len();
    let ring = r.cfg.sorted_addrs();
    let ttr_us = r.cfg.baud.bits_to_time(r.cfg.ttr_bits).total_micros() as i64 + 1;
    let rot = rotation_bound_us(&r.cfg, n);
    let g = usize::from(r.cfg.gap);
    let b = r.sim.bus.0.borrow();
    let mut judged = 0u64;
    // the clause is about the stable ring: if a token got lost after convergence (a station of a ring
    // of several claims a token for itself) nothing is judged
    if n > 1 && b.trace.iter().any(|q| q.sender < n && q.start_ns > c * 1000 && q.bytes.len() == 3 && q.bytes[0] == rc::SD4 && q.bytes[1] == q.bytes[2]) {
        obs.label("token-lost-after-convergence");
        return Ok(());
    }
    for x in 0..n {
        let addr = r.sim.nodes[x].addr;
        let pos = ring.iter().position(|a| *a == addr).unwrap();
        let ns = ring[(pos + 1) % ring.len()];
        let gap = crate::props::c12::gap_set(addr, ns, r.cfg.hsa);
        if gap.is_empty() {
            continue;
        }
        // token visits, counted by the station's own token passes (a repeated pass - the successor did
        // not react - belongs to the same visit; token receipts would count a predecessor's repeated
        // pass twice)
        let mut visits: Vec<i64> = vec![];
        let mut last_own: Option<&[u8]> = None;
        for q in b.trace.iter().filter(|q| q.sender == x) {
            let is_token = q.bytes.first() == Some(&rc::SD4);
            if is_token && last_own != Some(&q.bytes[..]) && q.start_ns / 1000 > c + 2 * rot + ttr_us {
                visits.push(q.start_ns / 1000);
            }
            last_own = Some(&q.bytes[..]);
        }
        let polls: Vec<i64> = b.trace.iter().filter(|q| q.sender == x).filter(|q| matches!(rc::decode_one(&q.bytes), Some(RefFrame::Data { fc: 0x49, dsap: None, ssap: None, .. }))).map(|q| q.start_ns / 1000).collect();
        let w = g + 4;
        if visits.len() <= w {
            continue;
        }
        for i in 0..visits.len() - w {
            let (from, to) = (visits[i], visits[i + w]);
            let any = polls.iter().any(|p| *p > from && *p < to);
            ensure!(any, "gap-not-swept-under-load", "station #{addr} (GAP {:?}, gap factor {g}, TTR {} bit) sent no GAP poll during {} consecutive token visits from {} us to {} us; its applications kept it busy until the hold time was over", gap, r.cfg.ttr_bits, w, from, to);
            judged += 1;
        }
    }
    obs.count("windows_judged", judged);
    let cut = r.log.borrow().iter().filter(|c| matches!(c, Cb::Tx { sent: Some(_), .. })).count();
    if judged > 0 {
        obs.nontrivial(fingerprint(&(format!("{:?}", r.cfg.baud), r.cfg.sorted_addrs(), r.cfg.ttr_bits, r.cfg.slot_bits, r.cfg.gap, format!("{:?}", r.specs))));
    }
    obs.sample(|| json!({"config": r.cfg.describe(), "application_requests": cut, "windows_judged": judged}));
    Ok(())
}

fn traffic_case(t: &mut Tape, obs: &mut Obs, mode: Mode, window_slots: i64) -> CaseResult {
    let mut r = setup(t, mode);
    run(&mut r, window_slots);
    obs.label(&format!("n={}", r.cfg.stations.len()));
    for (k, _) in r.peers.values() {
        obs.label(&format!("peer-{:?}", k));
    }
    if r.cfg.ttr_bits < 5000 {
        obs.label("small-ttr");
    }
    obs.sample(|| json!({"config": r.cfg.describe(), "applications": r.specs.iter().map(|s| s.iter().map(|a| format!("{:?}", a)).collect::<Vec<_>>()).collect::<Vec<_>>(), "peers": r.peers.iter().map(|(a, (k, d))| format!("#{a}: {:?} after {d} bit", k)).collect::<Vec<_>>(), "callbacks": r.log.borrow().len()}));
    match mode {
        Mode::C13 => c13_oracle(&r, obs),
        Mode::C15 => {
            // '... or the hold time is over': the per-visit deadline clause (shared with C13)
            hold_time_clause(&r)?;
            c15_oracle(&r, obs)?;
            offline_switch_epilogue(t, &mut r, obs)
        }
    }
}

/// Epilogue of a C15 run (after the oracles have judged the log): at a generated instant a station
/// with several applications is taken offline - in the middle of whatever turn it is in -, gets a
/// shorter application list (documented as allowed while offline) and goes online again.  The
/// run continues until its remaining application is asked again; only 'no panic' is judged.
fn offline_switch_epilogue(t: &mut Tape, r: &mut TrafficRun, obs: &mut Obs) -> CaseResult {
    if !t.bool() {
        return Ok(());
    }
    let cands: Vec<usize> = (0..r.sim.nodes.len()).filter(|i| r.sim.nodes[*i].apps.len() >= 2).collect();
    if cands.is_empty() {
        return Ok(());
    }
    let x = cands[t.below(cands.len() as u64) as usize];
    for _ in 0..t.below(400) {
        if r.sim.step().is_none() {
            break;
        }
    }
    let keep = 1 + t.below(r.sim.nodes[x].apps.len() as u64 - 1) as usize;
    let now = r.sim.now;
    r.sim.restart_station(x, now);
    r.sim.nodes[x].apps.truncate(keep);
    let mark = r.log.borrow().len();
    let stop_at = now + 3000 * r.cfg.slot_us();
    let mut asked_again = false;
    while let Some(tn) = r.sim.next_time() {
        if tn > stop_at {
            break;
        }
        r.sim.step();
        if r.log.borrow()[mark..].iter().any(|e| e.station() == x) {
            asked_again = true;
            break;
        }
    }
    obs.label(if asked_again { "offline-shorter-application-list-online-asked-again" } else { "offline-shorter-application-list-online" });
    Ok(())
}

pub fn c13() -> Property {
    Property {
        id: "C13",
        rule: "cases: rings of 1..4 real stations (all baud rates / slot times / schedules, TTR from the builder minimum 256 bit up to the default), each with 1..3 instrumented traffic applications of every appetite (never, 1..5 telegrams per turn, always hungry; SRD/SDA with reply, SDN without; payload 0..240 bytes) and scripted peers that answer within [11 bit, Tslot-15 bit], stay silent, or answer late; simulated to convergence plus a window. Oracle on the callback log + bus trace + poll log: within a token visit every message cycle after the first starts before (previous token receipt + TTR), a visit whose first cycle starts at or after that deadline has exactly one cycle; in the stable ring with conforming peers consecutive token receipts of any station are at most TTR + N x (2 x 255 byte frames + 3 Tslot + 200 bit + 10 P) apart; every application with finite appetite is asked within a bounded number of visits. Non-trivial = at least one visit cut short by the hold time or one late visit; distinct by configuration + application specs.",
        assumptions: vec![
            "token receipt = first poll of the station at or after the arrival of a token frame addressed to it (known to the scheduler); receipts the implementation does not count (claims, declined first offers) only loosen the deadline",
            "runs with a late peer are judged by the per-visit deadline clause only (N9: a reply arriving during the next message cycle makes the station back off - the peer breaks the protocol, not the hold-time logic)",
            "always-hungry applications starve their neighbours by design (poll_multi is documented as cooperative); the starvation clause is judged for stations whose applications all have finite appetite",
        ],
        subchecks: vec![
            SubCheck::tape("traffic", "rings with traffic applications, window of 1500 slot times after convergence", |t, obs| traffic_case(t, obs, Mode::C13, 1500)),
            SubCheck::tape("traffic_long", "window of 20000 slot times", |t, obs| traffic_case(t, obs, Mode::C13, 20_000)),
        ],
        plan: |tier| match tier {
            Tier::Quick => vec![Step::Pbt { kind: "traffic", cases: 1000, max_len: 120 }],
            Tier::Thorough => vec![Step::Pbt { kind: "traffic", cases: 8000, max_len: 120 }, Step::Pbt { kind: "traffic_long", cases: 400, max_len: 120 }],
        },
        hang_is_violation: false,
        hang_limit_s: 900,
        probes: vec![],
    }
}

/// A reply reaches the station in two pieces with a pause in between (a receive path that hands the
/// bytes over in bursts): the request must still get exactly one outcome.
/// `i`: cut position (i % 8 -> after 1..8 bytes), pause (i / 8 % 4 -> 40, 100, 180, 250 bit times; the
/// slot time is 300), which requests are answered that way (i / 32: every one / every third).
fn chunked_reply_case(i: u64, obs: &mut Obs) -> CaseResult {
    use crate::envsim::{World, ENV};
    const TS: u8 = 3;
    const SLOT: i64 = 300;
    let cut = 1 + (i % 8) as usize;
    let pause = [40i64, 100, 180, 250][((i / 8) % 4) as usize];
    let every = if (i % 64) / 32 == 0 { 1 } else { 3 };
    // PHY transmit latency and response delay of the peer (bit times): a PHY that finishes its
    // transmission later than nominal (UART FIFO, USB adapter) - the slot time counts from the real end
    let (latency, delay) = [(0i64, 30i64), (SLOT / 3, 230), (0, 230)][((i / 64) % 3) as usize];
    let log: Log = Rc::new(RefCell::new(vec![]));
    let spec = AppSpec { burst: u32::MAX, targets: vec![9], kind: ReqKind::SrdLow, pdu_len: 2 };
    let mut app = TrafficApp::new(0, 0, TS, spec, log.clone());
    let mut w = World::new(TS, 6, profirust::Baudrate::B1500000, SLOT as u16, 100, Some(200_000));
    w.bus.0.borrow_mut().tx_latency_us[0] = w.bit_us(latency);
    if latency > 0 {
        obs.label("phy-with-transmit-latency");
    }
    let mut seen = 0usize;
    let mut requests = 0u64;
    let mut pending: Vec<(i64, Vec<u8>)> = vec![];
    let t_end = 6000 * w.bit_us(SLOT);
    while w.now < t_end && requests < 40 {
        w.run(5, &mut app);
        let now = w.now;
        pending.retain(|(t, d)| {
            if *t <= now {
                w.bus.inject(ENV, *t, d);
                false
            } else {
                true
            }
        });
        let recs = w.sent_since(seen);
        seen = w.trace_len();
        for r in recs {
            if r.sender != 0 {
                continue;
            }
            if let Some(RefFrame::Data { dsap: Some(40), da, .. }) = rc::decode_one(&r.bytes) {
                requests += 1;
                let end = (r.end_ns + 999) / 1000;
                let reply = rc::encode(&RefFrame::Data { da: TS, sa: da, dsap: Some(41), ssap: Some(40), fc: 0x08, pdu: vec![requests as u8, 0x5A] });
                if requests % every == 0 {
                    let k = cut.min(reply.len() - 1);
                    let t1 = end + w.bit_us(delay);
                    let t2 = t1 + w.bit_us(11 * k as i64 + pause);
                    pending.push((t1, reply[..k].to_vec()));
                    pending.push((t2, reply[k..].to_vec()));
                } else {
                    pending.push((end + w.bit_us(delay), reply));
                }
            }
        }
    }
    // every request has exactly one outcome, delivered before the next request goes out
    let log = log.borrow();
    let mut outstanding: Option<i64> = None;
    let mut outcomes = 0u32;
    let mut req_no = 0u64;
    let (mut replies, mut timeouts) = (0u64, 0u64);
    for c in log.iter() {
        match c {
            Cb::Tx { t, sent: Some(_), .. } => {
                if let Some(ot) = outstanding {
                    ensure!(outcomes == 1, "outcomes-per-request", "the request sent at {} us got {} outcomes (reply / time-out) before the next request at {} us; its reply arrived in two pieces {} bit times apart (slot time {})", ot, outcomes, t, pause, SLOT);
                }
                outstanding = Some(*t);
                outcomes = 0;
                req_no += 1;
            }
            Cb::Reply { t, .. } | Cb::Timeout { t, .. } => {
                ensure!(outstanding.is_some(), "outcome-without-request", "reply / time-out at {} us without an outstanding request", t);
                outcomes += 1;
                ensure!(outcomes <= 1, "double-resolution", "second outcome at {} us for the request sent at {:?} us (reply in two pieces {} bit times apart, slot time {})", t, outstanding, pause, SLOT);
                if let Cb::Reply { frame, .. } = c {
                    replies += 1;
                    // the peer echoes the number of the request it answers
                    let echoed = match frame {
                        RefFrame::Data { pdu, .. } => pdu.first().copied(),
                        _ => None,
                    };
                    ensure!(echoed == Some(req_no as u8), "reply-to-another-request", "the reply delivered at {} us for request no. {} answers request no. {:?} (replies arrive in two pieces {} bit times apart, slot time {})", t, req_no, echoed, pause, SLOT);
                } else {
                    timeouts += 1;
                }
            }
            _ => {}
        }
    }
    ensure!(requests >= 10, "harness", "only {} requests were sent", requests);
    obs.count("replies", replies);
    obs.count("timeouts", timeouts);
    obs.nontrivial(i);
    obs.sample(|| json!({"cut_after_bytes": cut, "pause_bits": pause, "every": every, "requests": requests, "replies": replies, "phy_latency_bits": latency, "reply_delay_bits": delay}));
    Ok(())
}

pub fn c15() -> Property {
    Property {
        id: "C15",
        rule: "cases: rings of 1..3 real stations with 0..3 instrumented applications each (poll / poll_multi; arbitrary send/decline behaviour, SRD/SDA/SDN requests) and scripted peers: correct (one of them, now and then, under address 126, the default address of a new device), silent, late (after the slot time), response with foreign source, response to a foreign destination, request instead of response, token frame as answer. Oracle on the callback log + bus trace: transmit_telegram only while the trace says the station owns the token and never while a request is outstanding (unless the FDL gave up on it because another telegram was heard); per request at most one of {reply, time-out}, delivered to the sending application with addr = destination of the request; a delivered reply is SC or a response with source = addressed station and destination = this station; the callee changes only after a decline, to index+1 mod n; after every application declined once the token is passed before anybody is asked again. Non-trivial = at least one reply or time-out was delivered; distinct by configuration, application specs and peers.",
        assumptions: vec![
            "token ownership is reconstructed from the token frames on the recorded trace",
            "a request that is neither answered nor timed out is legitimate only when some other node's telegram completed on the bus after it (the FDL then backs off to ActiveIdle)",
        ],
        subchecks: vec![
            SubCheck::tape("callbacks", "rings with instrumented applications and misbehaving peers, window 1500 slot times", |t, obs| traffic_case(t, obs, Mode::C15, 1500)),
            SubCheck::tape("callbacks_long", "window of 20000 slot times", |t, obs| traffic_case(t, obs, Mode::C15, 20_000)),
            SubCheck::index("chunked_reply", "the reply reaches the station in two pieces with a pause of 40..250 bit times, 30 or 230 bit times after the request, over a PHY without / with transmit latency (constructed, 192 scenarios): exactly one outcome per request, and a delivered reply answers that very request", chunked_reply_case),
        ],
        plan: |tier| match tier {
            Tier::Quick => vec![Step::Enumerate { kind: "chunked_reply", count: 192 }, Step::Pbt { kind: "callbacks", cases: 1200, max_len: 120 }],
            Tier::Thorough => vec![Step::Enumerate { kind: "chunked_reply", count: 192 }, Step::Pbt { kind: "callbacks", cases: 10_000, max_len: 120 }, Step::Pbt { kind: "callbacks_long", cases: 400, max_len: 120 }],
        },
        hang_is_violation: false,
        hang_limit_s: 900,
        probes: vec![],
    }
}
